"""C02 engine: builds the linearizability harness against a scratch copy of the
working tree whose container packages import the scheduling shim instead of sync."""
import hashlib, os, shutil, subprocess, tempfile, time

PKGS = "heap,bstree,trie,queue,stack,cache,list"


def build_shimmed(drv, repo, out_name="C02.test"):
    """Returns the path of the test binary or None."""
    scratch = tempfile.mkdtemp(prefix="c02-scratch-", dir="/tmp")
    try:
        dst = os.path.join(scratch, "repo")
        p = subprocess.run(["rsync", "-a", "--exclude", ".git", repo.rstrip("/") + "/", dst + "/"],
                           stdout=subprocess.PIPE, stderr=subprocess.STDOUT, text=True)
        if p.returncode != 0:
            drv.say("BUILD-FAILED property=C02 (copy)\n" + p.stdout)
            return None
        p = subprocess.run([drv.GO, "run", "./conc/rewrite", "-dir", dst, "-shim", os.path.join(drv.HARNESS, "conc", "vsync"),
                            "-pkgs", PKGS], cwd=drv.HARNESS, env=drv.goenv(), stdout=subprocess.PIPE, stderr=subprocess.STDOUT, text=True)
        if p.returncode != 0:
            drv.say("BUILD-FAILED property=C02 (rewrite)\n" + p.stdout)
            return None
        mod, tag = drv.alt_modfile(dst)
        if os.path.realpath(repo) != "/repo":
            # a scratch tree (seeded change): its binary must not replace the one built from /repo by a concurrent run
            base, ext = os.path.splitext(out_name)
            out_name = "%s-alt-%s%s" % (base, hashlib.sha1(os.path.realpath(repo).encode()).hexdigest()[:10], ext)
        out = os.path.join(drv.BUILD, out_name)
        cmd = [drv.GO, "test", "-c", "-tags", "verif c02shim", "-vet=off", "-modfile", mod, "-o", out, "./conc/lin"]
        p = subprocess.run(cmd, cwd=drv.HARNESS, env=drv.goenv(), stdout=subprocess.PIPE, stderr=subprocess.STDOUT, text=True)
        for ext in (".mod", ".sum"):
            try:
                os.remove(os.path.join(drv.BUILD, "alt-%s%s" % (tag, ext)))
            except OSError:
                pass
        if p.returncode != 0:
            drv.say("BUILD-FAILED property=C02\n" + p.stdout)
            return None
        return out
    finally:
        shutil.rmtree(scratch, ignore_errors=True)


def run(drv, pid, tier, seed, args):
    t0 = time.time()
    repo = os.environ.get("VERIF_REPO", "/repo")
    if args.get("replay") and is_free(args["replay"]):
        fb = free_binary(drv)
        if not fb:
            return 2
        rc, out = drv.replay_one(pid, fb, args["replay"])
        drv.sys_module.stdout.write(out)
        if "RAW-VIOLATION" in out or rc in (3, 4):
            drv.say("VIOLATION property=%s replay=%s" % (pid, args["replay"]))
            return 1
        return 0 if rc == 0 else 2
    binary = build_shimmed(drv, repo)
    if not binary:
        return 2
    if args.get("replay"):
        rc, out = drv.replay_one(pid, binary, args["replay"])
        drv.sys_module.stdout.write(out)
        if "RAW-VIOLATION" in out or rc in (3, 4):
            drv.say("VIOLATION property=%s replay=%s" % (pid, args["replay"]))
            return 1
        return 0 if rc == 0 else 2
    nshards = int(args.get("shards") or 16)
    outdir = os.path.join(drv.BUILD, "out", "%s-%s-%d" % (pid, tier, os.getpid()))
    shutil.rmtree(outdir, ignore_errors=True)
    results, timed_out = drv.run_shards(pid, binary, tier, seed, nshards, outdir, drv.CAPS[tier], extra_env={"GOMAXPROCS": "2"})
    ev, violations, known, problems, _ = drv.merge(pid, tier, seed, outdir, results, t0)
    v2, p2 = drv.handle_stuck(pid, binary, results, outdir)
    violations += v2
    problems += p2
    for i, rc, log in results:
        if rc not in (0, 1, 3, 4) and not timed_out:
            problems.append("shard %d exited with status %s, see %s" % (i, rc, log))
        if rc == 1 and not violations:
            problems.append("shard %d failed without a violation record:\n%s" % (i, open(log).read()[-1500:]))
    # second stage: the real scheduler on the unmodified packages (element-count windows), for containers whose internals
    # have no scheduling points the controlled scheduler could use
    if not timed_out and not violations:
        ev2, v3, p3, to2, outdir2 = free_stage(drv, pid, tier, seed, nshards, max(60, drv.CAPS[tier] - (time.time() - t0)))
        violations += v3
        problems += p3
        timed_out = timed_out or to2
        if ev2:
            c1, c2 = ev["coverage"], ev2["coverage"]
            c1["evaluations"] += c2.get("evaluations", 0)
            c1["distinct_nontrivial"] += c2.get("distinct_nontrivial", 0)
            c1["rule"] = c1.get("rule", "") + " || " + c2.get("rule", "")
            c1["samples"] = (c1.get("samples") or [])[:8] + (c2.get("samples") or [])[:3]
            c1["checks"].update(c2.get("checks") or {})
            c1["exhaustive"] = bool(c1.get("exhaustive")) and bool(c2.get("exhaustive"))
        if outdir2 and not args.get("keep") and not v3 and not p3:
            shutil.rmtree(outdir2, ignore_errors=True)
    cov = ev["coverage"]
    sched = cov["checks"].get("schedules", {})
    cov["programs"] = sum(v for k, v in (sched.get("labels") or {}).items() if k.startswith("programs ") and "x" in k)
    ev["violations"] = len(violations)
    ev["wall_s"] = round(time.time() - t0, 2)
    code = drv.finish(pid, ev, violations, known, problems, timed_out)
    if not args.get("keep") and code == 0:
        shutil.rmtree(outdir, ignore_errors=True)
    drop_alt(binary)
    return code


def free_binary(drv):
    tag = ""
    if os.environ.get("VERIF_REPO"):
        tag = "-alt-" + hashlib.sha1(os.path.realpath(os.environ["VERIF_REPO"]).encode()).hexdigest()[:10]
    return drv.build("C02", "./conc/free", out=os.path.join(drv.BUILD, "C02-free%s.test" % tag))


def free_stage(drv, pid, tier, seed, nshards, cap):
    """Runs conc/free (plain build, real scheduler). Returns (evidence, violations, problems, timed_out, outdir)."""
    t1 = time.time()
    binary = free_binary(drv)
    if not binary:
        return None, [], ["the free-running harness did not build"], False, None
    outdir = os.path.join(drv.BUILD, "out", "%s-free-%s-%d" % (pid, tier, os.getpid()))
    shutil.rmtree(outdir, ignore_errors=True)
    results, timed_out = drv.run_shards(pid, binary, tier, seed, nshards, outdir, cap)
    ev, violations, known, problems, _ = drv.merge(pid, tier, seed, outdir, results, t1)
    v2, p2 = drv.handle_stuck(pid, binary, results, outdir)
    violations += v2
    problems += p2
    for i, rc, log in results:
        if rc not in (0, 1, 3, 4) and not timed_out:
            problems.append("free-running stage: shard %d exited with status %s, see %s" % (i, rc, log))
        if rc == 1 and not violations:
            problems.append("free-running stage: shard %d failed without a violation record:\n%s" % (i, open(log).read()[-1500:]))
    drop_alt(binary)
    return ev, violations, problems, timed_out, outdir


def is_free(path):
    import json
    try:
        return str(json.load(open(path)).get("check", "")).startswith("count-window")
    except Exception:
        return False


def drop_alt(binary):
    """The binary of a scratch tree is of no use once its run is over."""
    if binary and "-alt-" in os.path.basename(binary):
        try:
            os.remove(binary)
        except OSError:
            pass


def setup(drv):
    return build_shimmed(drv, "/repo") is not None and free_binary(drv) is not None
