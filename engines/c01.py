"""C01 engine: free-running scenarios under the Go race detector."""
import os, shutil, time, glob


def run(drv, pid, tier, seed, args):
    t0 = time.time()
    binary = drv.build(pid, "./conc/stress", race=True)
    if not binary:
        return 2
    nshards = int(args.get("shards") or 16)
    outdir = os.path.join(drv.BUILD, "out", "%s-%s-%d" % (pid, tier, os.getpid()))
    shutil.rmtree(outdir, ignore_errors=True)
    os.makedirs(outdir, exist_ok=True)
    if args.get("replay") and is_controlled(args["replay"]):
        import c02
        b2 = c02.build_shimmed(drv, os.environ.get("VERIF_REPO", "/repo"), out_name="C01-controlled.test")
        if not b2:
            return 2
        rc, out = drv.replay_one(pid, b2, args["replay"], extra_env={"VERIF_LIN_MODE": "safety", "GOMAXPROCS": "2"})
        drv.sys_module.stdout.write(out)
        shutil.rmtree(outdir, ignore_errors=True)
        if "RAW-VIOLATION" in out or rc in (3, 4):
            drv.say("VIOLATION property=%s replay=%s" % (pid, args["replay"]))
            return 1
        return 0 if rc == 0 else 2
    if args.get("replay"):
        env = {"GORACE": "log_path=%s halt_on_error=0" % os.path.join(outdir, "race-replay")}
        rc, out = drv.replay_one(pid, binary, args["replay"], extra_env=env)
        drv.sys_module.stdout.write(out)
        shutil.rmtree(outdir, ignore_errors=True)
        if "RAW-VIOLATION" in out or rc in (3, 4):
            drv.say("VIOLATION property=%s replay=%s" % (pid, args["replay"]))
            return 1
        return 0 if rc == 0 else 2
    # every shard needs its own race log: run_shards passes one environment, so the shards derive
    # the file name from VERIF_SHARD themselves via the %s placeholder below
    results, timed_out = run_shards_race(drv, pid, binary, tier, seed, nshards, outdir, drv.CAPS[tier])
    ev, violations, known, problems, _ = drv.merge(pid, tier, seed, outdir, results, t0)
    stuck_env = {"GORACE": "log_path=%s halt_on_error=0" % os.path.join(outdir, "race-stuck")}
    v2, p2 = drv.handle_stuck(pid, binary, results, outdir, extra_env=stuck_env)
    violations += v2
    problems += p2
    # a harness race is a harness bug: inconclusive, never a violation
    real = []
    for v in violations:
        if "HARNESS-RACE" in v.get("message", ""):
            problems.append("race between two harness access sites: " + v["replay"])
        else:
            real.append(v)
    violations = real
    for i, rc, log in results:
        if rc not in (0, 1, 3, 4, 66) and not timed_out:
            problems.append("shard %d exited with status %s, see %s" % (i, rc, log))
        if rc in (1, 66) and not violations and not problems:
            problems.append("shard %d failed without a violation record:\n%s" % (i, open(log).read()[-2500:]))
    # second stage: the controlled scheduler over all public methods (deadlock / livelock / interleaving-dependent panics)
    if not timed_out:
        ev2, v3, p3, to2, outdir2 = controlled_stage(drv, pid, tier, seed, nshards, max(60, drv.CAPS[tier] - (time.time() - t0)))
        violations += v3
        problems += p3
        timed_out = timed_out or to2
        if ev2:
            c1, c2 = ev["coverage"], ev2["coverage"]
            c1["evaluations"] += c2.get("evaluations", 0)
            c1["distinct_nontrivial"] += c2.get("distinct_nontrivial", 0)
            c1["rule"] = c1.get("rule", "") + " || " + c2.get("rule", "")
            c1["samples"] = (c1.get("samples") or [])[:8] + (c2.get("samples") or [])[:4]
            c1["checks"].update(c2.get("checks") or {})
            c1["exhaustive"] = bool(c1.get("exhaustive")) and bool(c2.get("exhaustive"))
        if outdir2 and not args.get("keep") and not v3 and not p3:
            shutil.rmtree(outdir2, ignore_errors=True)
    ev["violations"] = len(violations)
    ev["wall_s"] = round(time.time() - t0, 2)
    code = drv.finish(pid, ev, violations, known, problems, timed_out)
    if not args.get("keep") and code == 0:
        shutil.rmtree(outdir, ignore_errors=True)
    return code


def controlled_stage(drv, pid, tier, seed, nshards, cap):
    """Runs the lin harness in safety mode (built against the shimmed scratch copy). Returns (evidence, violations, problems, timed_out, outdir)."""
    import c02
    t1 = time.time()
    repo = os.environ.get("VERIF_REPO", "/repo")
    binary = c02.build_shimmed(drv, repo, out_name="C01-controlled.test")
    if not binary:
        return None, [], ["the controlled-scheduler harness did not build"], False, None
    outdir = os.path.join(drv.BUILD, "out", "%s-controlled-%s-%d" % (pid, tier, os.getpid()))
    shutil.rmtree(outdir, ignore_errors=True)
    results, timed_out = drv.run_shards(pid, binary, tier, seed, nshards, outdir, cap,
                                        extra_env={"GOMAXPROCS": "2", "VERIF_LIN_MODE": "safety"})
    ev, violations, known, problems, _ = drv.merge(pid, tier, seed, outdir, results, t1)
    v2, p2 = drv.handle_stuck(pid, binary, results, outdir, extra_env={"VERIF_LIN_MODE": "safety"})
    violations += v2
    problems += p2
    for i, rc, log in results:
        if rc not in (0, 1, 3, 4) and not timed_out:
            problems.append("controlled stage: shard %d exited with status %s, see %s" % (i, rc, log))
        if rc == 1 and not violations:
            problems.append("controlled stage: shard %d failed without a violation record:\n%s" % (i, open(log).read()[-1500:]))
    c02.drop_alt(binary)
    return ev, violations, problems, timed_out, outdir


def is_controlled(path):
    import json
    try:
        return str(json.load(open(path)).get("check", "")).startswith("controlled")
    except Exception:
        return False


def run_shards_race(drv, pid, binary, tier, seed, nshards, outdir, cap):
    import subprocess, signal
    procs = []
    for i in range(nshards):
        env = drv.goenv()
        env.update(VERIF_ROOT=drv.ROOT, VERIF_TIER=tier, VERIF_SEED=str(seed), VERIF_SHARD=str(i),
                   VERIF_NSHARDS=str(nshards), VERIF_OUT=outdir,
                   GORACE="log_path=%s halt_on_error=0" % os.path.join(outdir, "race-%d" % i))
        log = os.path.join(outdir, "shard-%d.log" % i)
        f = open(log, "w")
        p = subprocess.Popen([binary, "-test.run", "^TestProp$", "-test.timeout", "0", "-test.count", "1"],
                             cwd=outdir, env=env, stdout=f, stderr=subprocess.STDOUT, start_new_session=True)
        procs.append((i, p, log, f))
    deadline = time.time() + cap
    timed_out = False
    res = []
    for i, p, log, f in procs:
        try:
            rc = p.wait(timeout=max(0.1, deadline - time.time()))
        except subprocess.TimeoutExpired:
            timed_out = True
            try:
                os.killpg(p.pid, signal.SIGKILL)
            except ProcessLookupError:
                pass
            rc = p.wait()
        f.close()
        res.append((i, rc, log))
    return res, timed_out


def setup(drv):
    import c02
    ok = drv.build("C01", "./conc/stress", race=True) is not None
    return c02.build_shimmed(drv, "/repo", out_name="C01-controlled.test") is not None and ok
