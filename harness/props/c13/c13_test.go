// C13: search, selection, aggregate and numeric helpers agree with their definitions.
//
// Sub-checks (each with its own case type):
//
//	search    IndexOf, LastIndexOf, Contains, FindIndex, FindLastIndex, FindAll, Some, Every
//	nth       Nth
//	extremum  FindMin, FindMax, Min, Max, FindMinBy, FindMaxBy
//	bykey     FindMinByKey, FindMaxByKey
//	aggregate Sum, SumBy, Mean
//	int8      Clamp, InRange, Abs over every int8 triple
//	numeric   Clamp, InRange, Abs over other numeric types and wide values
//	compare   Compare, Less, Equal
//	range     Range, RangeRight
//
// Cases are made of plain ints ("codes"); the element type under test is chosen
// by a kind field and the codes are converted injectively at execution time
// (int: v, string: decimal text with 0 -> "", float64: v/4).
package c13

import (
	"cmp"
	"fmt"
	"math"
	"strconv"
	"testing"

	"github.com/esimov/gogu"
	"verif/pbt"
)

// ---------------------------------------------------------------------------
// shared helpers

type number interface {
	~int | ~int8 | ~int16 | ~int32 | ~int64 |
		~uint | ~uint8 | ~uint16 | ~uint32 | ~uint64 | ~uintptr |
		~float32 | ~float64
}

// try runs f and turns a panic into an error that names the call.
func try(what func() string, f func()) (err error) {
	defer func() {
		if p := recover(); p != nil {
			err = fmt.Errorf("%s panicked: %v", what(), p)
		}
	}()
	f()
	return nil
}

const (
	kInt = iota
	kString
	kFloat
	nElemKinds
)

func norm(i, n int) int { return ((i % n) + n) % n }

func idOf(v int) int { return v }

// strOf is injective; its order differs from the numeric one ("" < "-1" < "10" < "2").
func strOf(v int) string {
	if v == 0 {
		return ""
	}
	return strconv.Itoa(v)
}

// fltOf is injective and exact for |v| < 2^51.
func fltOf(v int) float64 { return float64(v) / 4 }

func mapTo[T any](s []int, f func(int) T) []T {
	out := make([]T, len(s))
	for i, v := range s {
		out[i] = f(v)
	}
	return out
}

func absInt(v int) int {
	if v < 0 {
		return -v
	}
	return v
}

func isFloatType[T number]() bool { return T(1)/T(2) != 0 }

// eqNum: exact for integers, relative tolerance tol for floats.
func eqNum[T number](a, b T, tol float64) bool {
	if a == b {
		return true
	}
	if !isFloatType[T]() {
		return false
	}
	fa, fb := float64(a), float64(b)
	return math.Abs(fa-fb) <= tol*math.Max(math.Abs(fa), math.Abs(fb))
}

func tolOf[T number]() float64 {
	var z T
	if _, ok := any(z).(float32); ok {
		return 1e-5
	}
	return 1e-9
}

// ---------------------------------------------------------------------------
// search: IndexOf, LastIndexOf, Contains, FindIndex, FindLastIndex, FindAll, Some, Every

type searchCase struct {
	S     []int `json:"s"`
	Probe int   `json:"probe"`
	Pred  int   `json:"pred"`
	Kind  int   `json:"kind"`
}

var predNames = []string{"v == p", "v != p", "v < p", "v >= p", "true", "false"}

func predOf[T cmp.Ordered](i int, p T) func(T) bool {
	switch i {
	case 0:
		return func(v T) bool { return v == p }
	case 1:
		return func(v T) bool { return v != p }
	case 2:
		return func(v T) bool { return v < p }
	case 3:
		return func(v T) bool { return v >= p }
	case 4:
		return func(T) bool { return true }
	}
	return func(T) bool { return false }
}

func searchBounds(thorough bool) (maxLen, alpha int) {
	if thorough {
		return 8, 4
	}
	return 6, 4
}

func searchEnum(s pbt.Src, thorough bool) searchCase {
	maxLen, alpha := searchBounds(thorough)
	var c searchCase
	c.S = pbt.Seq(s, 0, maxLen, func(s pbt.Src) int { return s.Intn(alpha) })
	c.Probe = pbt.Range(s, -1, alpha)
	c.Pred = s.Intn(len(predNames))
	c.Kind = s.Intn(nElemKinds)
	return c
}

// bigInts: a long slice (hundreds to thousands of values (a*i*i+b*i) mod width, shifted to be centred on zero).
func bigInts(s pbt.Src) []int {
	n := []int{255, 256, 257, 1000, 1024, 1025, 2048, 4097, 10000}[s.Intn(9)]
	width := []int{3, 50, n, 1000003}[s.Intn(4)]
	a, b := 1+s.Intn(9), s.Intn(9)
	out := make([]int, n)
	for i := range out {
		out[i] = (a*i*i+b*i)%width - width/2
	}
	return out
}

func searchGen(s pbt.Src, thorough bool) searchCase {
	c := searchCase{Kind: s.Intn(nElemKinds), Pred: s.Intn(len(predNames))}
	width := pbt.Pick(s, 2, 6, 50, 1000000)
	maxLen := 40
	if thorough {
		maxLen = 150
	}
	c.S = pbt.Seq(s, 0, maxLen, func(s pbt.Src) int { return pbt.Range(s, -width, width) })
	if s.Intn(14) == 0 {
		c.S = bigInts(s)
	}
	if len(c.S) > 0 && s.Intn(4) != 0 {
		c.Probe = c.S[s.Intn(len(c.S))]
	} else {
		c.Probe = pbt.Range(s, -width-1, width+1)
	}
	return c
}

func searchOut(c searchCase, thorough bool) bool {
	maxLen, alpha := searchBounds(thorough)
	if len(c.S) > maxLen || c.Probe < -1 || c.Probe > alpha {
		return true
	}
	for _, v := range c.S {
		if v < 0 || v >= alpha {
			return true
		}
	}
	return false
}

// checkIndex decides "got is the smallest (largest) index whose flag is set, -1 if there is none".
func checkIndex(name string, got int, flag []bool, smallest bool, ctx func() string) error {
	n := len(flag)
	if got == -1 {
		for j, f := range flag {
			if f {
				return fmt.Errorf("%s = -1 although index %d matches; %s", name, j, ctx())
			}
		}
		return nil
	}
	if got < 0 || got >= n {
		return fmt.Errorf("%s = %d is not an index of a slice of length %d; %s", name, got, n, ctx())
	}
	if !flag[got] {
		return fmt.Errorf("%s = %d but the element at that index does not match; %s", name, got, ctx())
	}
	if smallest {
		for j := 0; j < got; j++ {
			if flag[j] {
				return fmt.Errorf("%s = %d but the smaller index %d matches too; %s", name, got, j, ctx())
			}
		}
	} else {
		for j := got + 1; j < n; j++ {
			if flag[j] {
				return fmt.Errorf("%s = %d but the larger index %d matches too; %s", name, got, j, ctx())
			}
		}
	}
	return nil
}

func searchRun[T cmp.Ordered](s []T, p T, predIdx int, r *pbt.R) error {
	return searchRound(s, nil, p, predIdx, r)
}

// searchRound: with buf == nil the first round (on a fresh array); otherwise the second round, on the SAME array after its
// window was rewritten in place (same address, same length, other content): an answer remembered per slice would be stale.
func searchRound[T cmp.Ordered](s, buf []T, p T, predIdx int, r *pbt.R) error {
	pred := predOf(predIdx, p)
	first := buf == nil
	n := len(s)
	eq, match := make([]bool, n), make([]bool, n)
	nEq, nMatch := 0, 0
	for i, v := range s {
		if v == p {
			eq[i] = true
			nEq++
		}
		if pred(v) {
			match[i] = true
			nMatch++
		}
	}
	ctx := func() string { return fmt.Sprintf("s=%#v p=%#v pred=(%s)", s, p, predNames[predIdx]) }
	// The helpers see a window w of a longer array: behind it (spare capacity of w, but elements of the caller's array) sits
	// the probe value itself. Reading it would change the answers, writing there (or into w) changes the caller's data.
	var other T // a value different from the probe, if the case has one
	for _, v := range s {
		if v != p {
			other = v
		}
	}
	if first {
		buf = make([]T, n+3)
	}
	copy(buf, s)
	for i := n; i < len(buf); i++ {
		// probe, other, probe or other, probe, other: a read behind the window finds the probe, a write of the probe shows
		if (i-n+nMatch)%2 == 0 {
			buf[i] = p
		} else {
			buf[i] = other
		}
	}
	tail := append([]T(nil), buf[n:]...)
	w := buf[:n]

	var (
		io, lio, fi, fli      int
		contains, some, every bool
		all                   map[int]T
	)
	what := ""
	if err := try(func() string { return what + " with " + ctx() }, func() {
		what = "IndexOf"
		io = gogu.IndexOf(w, p)
		what = "LastIndexOf"
		lio = gogu.LastIndexOf(w, p)
		what = "Contains"
		contains = gogu.Contains(w, p)
		what = "FindIndex"
		fi = gogu.FindIndex(w, pred)
		what = "FindLastIndex"
		fli = gogu.FindLastIndex(w, pred)
		what = "FindAll"
		all = gogu.FindAll(w, pred)
		what = "Some"
		some = gogu.Some(w, pred)
		what = "Every"
		every = gogu.Every(w, pred)
	}); err != nil {
		return err
	}

	for i := range buf {
		want := s0(s, tail, i)
		if buf[i] != want {
			return fmt.Errorf("after the search helpers ran on the window [:%d] of an array of %d elements, element %d of the array reads %#v, was %#v; %s", n, len(buf), i, buf[i], want, ctx())
		}
	}
	if err := checkIndex("IndexOf", io, eq, true, ctx); err != nil {
		return err
	}
	if err := checkIndex("LastIndexOf", lio, eq, false, ctx); err != nil {
		return err
	}
	if err := checkIndex("FindIndex", fi, match, true, ctx); err != nil {
		return err
	}
	if err := checkIndex("FindLastIndex", fli, match, false, ctx); err != nil {
		return err
	}
	if contains != (nEq > 0) {
		return fmt.Errorf("Contains = %v but the value occurs %d times; %s", contains, nEq, ctx())
	}
	if some != (nMatch > 0) {
		return fmt.Errorf("Some = %v but %d elements match; %s", some, nMatch, ctx())
	}
	if every != (nMatch == n) {
		return fmt.Errorf("Every = %v but %d of %d elements match; %s", every, nMatch, n, ctx())
	}
	// FindAll: every matching pair is there, and (same size) nothing else.
	if len(all) != nMatch {
		return fmt.Errorf("FindAll returned %d pairs %v, %d elements match; %s", len(all), all, nMatch, ctx())
	}
	for i, m := range match {
		if !m {
			continue
		}
		v, ok := all[i]
		if !ok || v != s[i] {
			return fmt.Errorf("FindAll = %v lacks the pair %d:%#v; %s", all, i, s[i], ctx())
		}
	}

	if first && n > 0 {
		// second round: every occurrence of the probe becomes the other value and one other element becomes the probe
		s2 := append([]T(nil), s...)
		moved := false
		for i := n - 1; i >= 0; i-- {
			if s2[i] == p {
				s2[i] = other
			} else if !moved {
				s2[i], moved = p, true
			}
		}
		if err := searchRound(s2, buf, p, predIdx, r); err != nil {
			return fmt.Errorf("second round, after the same array was rewritten in place from %#v: %v", s, err)
		}
	}
	if !first {
		return nil
	}
	r.NonTrivialIf(nEq >= 2, "probe value occurs more than once")
	r.NonTrivialIf(nMatch > 0 && nMatch < n, "predicate splits the slice")
	if n == 0 {
		r.Label("empty slice")
	}
	if n > 0 && nEq == 0 {
		r.Label("probe value absent")
	}
	if n > 0 && nMatch == 0 {
		r.Label("no element matches")
	}
	if n > 0 && nMatch == n {
		r.Label("every element matches")
	}
	if nMatch >= 2 && nMatch < n {
		r.Label("first match != last match")
	}
	return nil
}

func s0[T any](s, tail []T, i int) T {
	if i < len(s) {
		return s[i]
	}
	return tail[i-len(s)]
}

func searchProp(c searchCase, r *pbt.R) error {
	pred := norm(c.Pred, len(predNames))
	switch norm(c.Kind, nElemKinds) {
	case kString:
		return searchRun(mapTo(c.S, strOf), strOf(c.Probe), pred, r)
	case kFloat:
		return searchRun(mapTo(c.S, fltOf), fltOf(c.Probe), pred, r)
	}
	return searchRun(mapTo(c.S, idOf), c.Probe, pred, r)
}

// ---------------------------------------------------------------------------
// nth

type nthCase struct {
	S    []int `json:"s"`
	I    int   `json:"i"`
	Kind int   `json:"kind"`
}

func nthBounds(thorough bool) (maxLen, alpha int) {
	if thorough {
		return 8, 3
	}
	return 6, 3
}

func nthEnum(s pbt.Src, thorough bool) nthCase {
	maxLen, alpha := nthBounds(thorough)
	var c nthCase
	c.S = pbt.Seq(s, 0, maxLen, func(s pbt.Src) int { return s.Intn(alpha) })
	n := len(c.S)
	c.I = pbt.Range(s, -n-2, n+2)
	c.Kind = s.Intn(nElemKinds)
	return c
}

var farIndices = []int{math.MinInt, math.MinInt + 1, math.MinInt32, -1 << 20, 1 << 20, math.MaxInt32, math.MaxInt - 1, math.MaxInt}

func nthGen(s pbt.Src, thorough bool) nthCase {
	c := nthCase{Kind: s.Intn(nElemKinds)}
	maxLen := 40
	if thorough {
		maxLen = 150
	}
	c.S = pbt.Seq(s, 0, maxLen, func(s pbt.Src) int { return pbt.Range(s, -1000, 1000) })
	if s.Intn(14) == 0 {
		c.S = bigInts(s)
	}
	n := len(c.S)
	switch s.Intn(8) {
	case 0:
		c.I = farIndices[s.Intn(len(farIndices))]
	case 1:
		c.I = pbt.Pick(s, -n-1, -n, -1, 0, n-1, n)
	default:
		c.I = pbt.Range(s, -n-3, n+3)
	}
	return c
}

func nthOut(c nthCase, thorough bool) bool {
	maxLen, alpha := nthBounds(thorough)
	n := len(c.S)
	if n > maxLen || c.I < -n-2 || c.I > n+2 {
		return true
	}
	for _, v := range c.S {
		if v < 0 || v >= alpha {
			return true
		}
	}
	return false
}

func nthRun[T comparable](s []T, i int, r *pbt.R) error {
	n := len(s)
	var got T
	var err error
	call := func() string { return fmt.Sprintf("Nth(%#v, %d)", s, i) }
	if e := try(call, func() { got, err = gogu.Nth(s, i) }); e != nil {
		return e
	}
	inRange := true
	var want T
	switch {
	case i >= 0 && i < n:
		want = s[i]
	case i < 0 && i >= -n:
		want = s[n+i]
	default:
		inRange = false
	}
	if inRange {
		if err != nil {
			return fmt.Errorf("%s returned the error %q, want %#v", call(), err, want)
		}
		if got != want {
			return fmt.Errorf("%s = %#v, want %#v", call(), got, want)
		}
	} else if err == nil {
		return fmt.Errorf("%s = %#v with a nil error; the index is outside [-%d, %d), want an error", call(), got, n, n)
	}

	distinct := false
	for _, v := range s {
		if v != s[0] {
			distinct = true
		}
	}
	boundary := i == n || i == -n || i == -n-1 || i == n-1 || i == 0 || i == -1
	r.NonTrivialIf(boundary, "boundary index")
	r.NonTrivialIf(inRange && distinct, "in range, elements distinguishable")
	r.NonTrivialIf(!inRange, "out of range")
	switch {
	case n == 0 && i == 0:
		r.Label("empty slice, i = 0")
	case i == n:
		r.Label("i = len")
	case i == -n:
		r.Label("i = -len")
	case i == -n-1:
		r.Label("i = -len-1")
	case i == n-1:
		r.Label("i = len-1")
	}
	if inRange && i < 0 {
		r.Label("negative index in range")
	}
	if i > 1<<19 || i < -1<<19 {
		r.Label("index far outside")
	}
	return nil
}

func nthProp(c nthCase, r *pbt.R) error {
	switch norm(c.Kind, nElemKinds) {
	case kString:
		return nthRun(mapTo(c.S, strOf), c.I, r)
	case kFloat:
		return nthRun(mapTo(c.S, fltOf), c.I, r)
	}
	return nthRun(mapTo(c.S, idOf), c.I, r)
}

// ---------------------------------------------------------------------------
// extremum: FindMin, FindMax, Min, Max, FindMinBy, FindMaxBy

type extCase struct {
	S    []int `json:"s"`
	Key  int   `json:"key"`
	Kind int   `json:"kind"`
}

type keyFn[T any] struct {
	name string
	f    func(T) T
}

const nKeys = 5

var intKeys = []keyFn[int]{
	{"identity", func(v int) int { return v }},
	{"negate", func(v int) int { return -v }},
	{"abs", absInt},
	{"v % 3", func(v int) int { return v % 3 }},
	{"constant", func(int) int { return 7 }},
}

var fltKeys = []keyFn[float64]{
	{"identity", func(v float64) float64 { return v }},
	{"negate", func(v float64) float64 { return -v }},
	{"abs", math.Abs},
	{"floor", math.Floor},
	{"constant", func(float64) float64 { return 7 }},
}

var strKeys = []keyFn[string]{
	{"identity", func(v string) string { return v }},
	{"length", func(v string) string { return strconv.Itoa(len(v)) }},
	{"last byte", func(v string) string {
		if v == "" {
			return ""
		}
		return v[len(v)-1:]
	}},
	{"first byte", func(v string) string {
		if v == "" {
			return ""
		}
		return v[:1]
	}},
	{"constant", func(string) string { return "k" }},
}

func extBounds(thorough bool) (maxLen, lo, hi int) {
	if thorough {
		return 7, -2, 2
	}
	return 6, -2, 2
}

func extEnum(s pbt.Src, thorough bool) extCase {
	maxLen, lo, hi := extBounds(thorough)
	var c extCase
	c.S = pbt.Seq(s, 0, maxLen, func(s pbt.Src) int { return pbt.Range(s, lo, hi) })
	c.Key = s.Intn(nKeys)
	c.Kind = s.Intn(nElemKinds)
	return c
}

func extGen(s pbt.Src, thorough bool) extCase {
	c := extCase{Key: s.Intn(nKeys), Kind: s.Intn(nElemKinds)}
	width := pbt.Pick(s, 3, 12, 1000, 1000000)
	maxLen := 40
	if thorough {
		maxLen = 150
	}
	c.S = pbt.Seq(s, 0, maxLen, func(s pbt.Src) int { return pbt.Range(s, -width, width) })
	if s.Intn(14) == 0 {
		c.S = bigInts(s)
	}
	return c
}

func extOut(c extCase, thorough bool) bool {
	maxLen, lo, hi := extBounds(thorough)
	if len(c.S) > maxLen {
		return true
	}
	for _, v := range c.S {
		if v < lo || v > hi {
			return true
		}
	}
	return false
}

func extRun[T cmp.Ordered](s []T, key keyFn[T], r *pbt.R) error {
	n := len(s)
	var zero, fmin, fmax, vmin, vmax, minBy, maxBy T
	orig := append([]T(nil), s...)
	ctx := func() string { return fmt.Sprintf("s=%#v key=(%s)", orig, key.name) }
	what := ""
	if err := try(func() string { return what + " with " + ctx() }, func() {
		what = "FindMin"
		fmin = gogu.FindMin(s)
		what = "FindMax"
		fmax = gogu.FindMax(s)
		if n > 0 {
			what = "Min"
			vmin = gogu.Min(s...)
			what = "Max"
			vmax = gogu.Max(s...)
		}
		what = "FindMinBy"
		minBy = gogu.FindMinBy(s, key.f)
		what = "FindMaxBy"
		maxBy = gogu.FindMaxBy(s, key.f)
	}); err != nil {
		return err
	}
	for i := range orig {
		// Min and Max receive the slice spread into their variadic parameter: it is the caller's slice all the same
		if s[i] != orig[i] {
			return fmt.Errorf("after FindMin, FindMax, Min(s...), Max(s...), FindMinBy, FindMaxBy the slice reads %#v; %s", s, ctx())
		}
	}
	if n == 0 {
		r.Label("empty slice")
		for _, g := range []struct {
			name string
			v    T
		}{{"FindMin", fmin}, {"FindMax", fmax}, {"FindMinBy", minBy}, {"FindMaxBy", maxBy}} {
			if g.v != zero {
				return fmt.Errorf("%s of an empty slice = %#v, want the zero value; %s", g.name, g.v, ctx())
			}
		}
		return nil
	}
	// plain extremum: an element of the input, and no element lies beyond it
	plain := func(name string, got T, wantMin bool) error {
		member := false
		for _, v := range s {
			if v == got {
				member = true
			}
			if (wantMin && v < got) || (!wantMin && v > got) {
				return fmt.Errorf("%s = %#v but the input holds %#v; %s", name, got, v, ctx())
			}
		}
		if !member {
			return fmt.Errorf("%s = %#v is not an element of the input; %s", name, got, ctx())
		}
		return nil
	}
	if err := plain("FindMin", fmin, true); err != nil {
		return err
	}
	if err := plain("Min", vmin, true); err != nil {
		return err
	}
	if err := plain("FindMax", fmax, false); err != nil {
		return err
	}
	if err := plain("Max", vmax, false); err != nil {
		return err
	}
	// keyed extremum: the element at the first index whose key is extremal
	keys := make([]T, n)
	kmin, kmax := key.f(s[0]), key.f(s[0])
	for i, v := range s {
		keys[i] = key.f(v)
		kmin, kmax = min(kmin, keys[i]), max(kmax, keys[i])
	}
	firstMin, firstMax := -1, -1
	tieMin, tieMax := false, false
	for i := range s {
		if keys[i] == kmin {
			if firstMin < 0 {
				firstMin = i
			} else if s[i] != s[firstMin] {
				tieMin = true
			}
		}
		if keys[i] == kmax {
			if firstMax < 0 {
				firstMax = i
			} else if s[i] != s[firstMax] {
				tieMax = true
			}
		}
	}
	if minBy != s[firstMin] {
		return fmt.Errorf("FindMinBy = %#v, want %#v (index %d is the first with the smallest key %#v); %s", minBy, s[firstMin], firstMin, kmin, ctx())
	}
	if maxBy != s[firstMax] {
		return fmt.Errorf("FindMaxBy = %#v, want %#v (index %d is the first with the largest key %#v); %s", maxBy, s[firstMax], firstMax, kmax, ctx())
	}

	distinct := false
	for _, v := range s {
		if v != s[0] {
			distinct = true
		}
	}
	r.NonTrivialIf(distinct, "at least two different elements")
	r.NonTrivialIf(tieMin || tieMax, "different elements tie on the extremal key")
	if firstMin > 0 || firstMax > 0 {
		r.Label("keyed extremum not at index 0")
	}
	if fmin != s[0] && fmax != s[0] {
		r.Label("neither extremum is the first element")
	}
	return nil
}

func extProp(c extCase, r *pbt.R) error {
	k := norm(c.Key, nKeys)
	switch norm(c.Kind, nElemKinds) {
	case kString:
		return extRun(mapTo(c.S, strOf), strKeys[k], r)
	case kFloat:
		return extRun(mapTo(c.S, fltOf), fltKeys[k], r)
	}
	return extRun(mapTo(c.S, idOf), intKeys[k], r)
}

// ---------------------------------------------------------------------------
// bykey: FindMinByKey, FindMaxByKey

type byKeyCase struct {
	Maps []map[string]int `json:"maps"`
	Key  string           `json:"key"`
}

func byKeyBounds(thorough bool) int {
	if thorough {
		return 5
	}
	return 4
}

var (
	enumAVals = []int{-1, 0, 2} // values of key "a" (besides "absent")
	enumBVals = []int{1, 3}     // values of key "b" (besides "absent")
	enumKeys  = []string{"a", "b", "c"}
)

func byKeyEnum(s pbt.Src, thorough bool) byKeyCase {
	var c byKeyCase
	c.Maps = pbt.Seq(s, 0, byKeyBounds(thorough), func(s pbt.Src) map[string]int {
		m := map[string]int{}
		if a := s.Intn(len(enumAVals) + 1); a > 0 {
			m["a"] = enumAVals[a-1]
		}
		if b := s.Intn(len(enumBVals) + 1); b > 0 {
			m["b"] = enumBVals[b-1]
		}
		return m
	})
	c.Key = enumKeys[s.Intn(len(enumKeys))]
	return c
}

var genKeys = []string{"a", "b", "c", "d"}

func byKeyGen(s pbt.Src, thorough bool) byKeyCase {
	var c byKeyCase
	maxLen := 12
	if thorough {
		maxLen = 40
	}
	width := pbt.Pick(s, 3, 50, 100000)
	c.Maps = pbt.Seq(s, 0, maxLen, func(s pbt.Src) map[string]int {
		m := map[string]int{}
		for _, k := range genKeys {
			if s.Intn(3) != 0 {
				m[k] = pbt.Range(s, -width, width)
			}
		}
		return m
	})
	c.Key = pbt.Pick(s, "a", "b", "c", "d", "zz", "")
	return c
}

func byKeyOut(c byKeyCase, thorough bool) bool {
	if len(c.Maps) > byKeyBounds(thorough) || (c.Key != "a" && c.Key != "b" && c.Key != "c") {
		return true
	}
	in := func(v int, set []int) bool {
		for _, x := range set {
			if x == v {
				return true
			}
		}
		return false
	}
	for _, m := range c.Maps {
		for k, v := range m {
			if !(k == "a" && in(v, enumAVals)) && !(k == "b" && in(v, enumBVals)) {
				return true
			}
		}
	}
	return false
}

func byKeyRun[V cmp.Ordered](maps []map[string]V, key string, r *pbt.R) error {
	var have []V
	firstHas := false
	for i, m := range maps {
		if v, ok := m[key]; ok {
			have = append(have, v)
			if i == 0 {
				firstHas = true
			}
		}
	}
	var zero V
	for _, wantMin := range []bool{true, false} {
		name := "FindMaxByKey"
		if wantMin {
			name = "FindMinByKey"
		}
		call := func() string { return fmt.Sprintf("%s(%v, %q)", name, maps, key) }
		var got V
		var err error
		if e := try(call, func() {
			if wantMin {
				got, err = gogu.FindMinByKey(maps, key)
			} else {
				got, err = gogu.FindMaxByKey(maps, key)
			}
		}); e != nil {
			return e
		}
		switch {
		case len(maps) == 0:
			// zero value; an error is optional
			if got != zero {
				return fmt.Errorf("%s = %#v on an empty collection, want the zero value", call(), got)
			}
		case len(have) == 0:
			if err == nil {
				return fmt.Errorf("%s = %#v with a nil error although no map has the key, want an error", call(), got)
			}
		default:
			want := have[0]
			for _, v := range have[1:] {
				if (wantMin && v < want) || (!wantMin && v > want) {
					want = v
				}
			}
			if err != nil {
				if firstHas {
					return fmt.Errorf("%s returned the error %q although the first map has the key, want %#v", call(), err, want)
				}
				// first map lacks the key: "key not found" is the documented answer
			} else if got != want {
				return fmt.Errorf("%s = %#v, want %#v (extremum over the maps that have the key)", call(), got, want)
			}
		}
	}
	differ := false
	for _, v := range have {
		if v != have[0] {
			differ = true
		}
	}
	r.NonTrivialIf(len(maps) == 0, "empty collection")
	r.NonTrivialIf(differ, "at least two different values under the key")
	r.NonTrivialIf(len(maps) > 0 && !firstHas, "first map lacks the key")
	if len(maps) > 0 && len(have) == 0 {
		r.Label("no map has the key")
	}
	if firstHas && len(have) < len(maps) {
		r.Label("some later map lacks the key")
	}
	if !firstHas && len(have) > 0 {
		r.Label("first map lacks the key, a later one has it")
	}
	return nil
}

func byKeyProp(c byKeyCase, r *pbt.R) error {
	if err := byKeyRun(c.Maps, c.Key, r); err != nil {
		return err
	}
	// same collection with string values (different order relation)
	sm := make([]map[string]string, len(c.Maps))
	for i, m := range c.Maps {
		sm[i] = make(map[string]string, len(m))
		for k, v := range m {
			sm[i][k] = strOf(v)
		}
	}
	return byKeyRun(sm, c.Key, r)
}

// ---------------------------------------------------------------------------
// aggregate: Sum, SumBy, Mean

const (
	aggSmall = iota // |v| <= 10, len <= 12: int, int8, uint8 (v+10), float64 (v/4), float32 (v/4) and SumBy
	aggWide         // |v| <= 1e6, len <= 200: int, int64 and SumBy
	aggFloat        // float64 v/1000 (not exactly representable), |v| <= 1e9
	aggBig          // |v| <= 2^60, len <= 4: int, int64 (and uint64 of |v|): beyond the 53 bits a float64 holds exactly
	nAggKinds
)

type aggCase struct {
	S    []int `json:"s"`
	Kind int   `json:"kind"`
}

func aggBounds(thorough bool) (maxLen int, alphabet []int) {
	if thorough {
		return 8, []int{-2, -1, 0, 1, 3}
	}
	return 6, []int{-2, -1, 0, 1, 3}
}

func aggEnum(s pbt.Src, thorough bool) aggCase {
	maxLen, alpha := aggBounds(thorough)
	return aggCase{Kind: aggSmall, S: pbt.Seq(s, 0, maxLen, func(s pbt.Src) int { return alpha[s.Intn(len(alpha))] })}
}

func aggGen(s pbt.Src, thorough bool) aggCase {
	c := aggCase{Kind: s.Intn(nAggKinds)}
	switch c.Kind {
	case aggSmall:
		c.S = pbt.Seq(s, 0, 12, func(s pbt.Src) int { return pbt.Range(s, -10, 10) })
	case aggWide:
		maxLen := 60
		if thorough {
			maxLen = 200
		}
		c.S = pbt.Seq(s, 0, maxLen, func(s pbt.Src) int { return pbt.Range(s, -1000000, 1000000) })
	case aggBig:
		c.S = pbt.Seq(s, 1, 4, func(s pbt.Src) int {
			v := 1<<pbt.Range(s, 50, 60) + pbt.Range(s, -3, 3)
			if v > 1<<60 {
				v = 1 << 60
			}
			if pbt.Bool(s) {
				return -v
			}
			return v
		})
	default:
		c.S = pbt.Seq(s, 0, 60, func(s pbt.Src) int { return pbt.Range(s, -1000000000, 1000000000) })
	}
	return c
}

func aggOut(c aggCase, thorough bool) bool {
	maxLen, alpha := aggBounds(thorough)
	if c.Kind != aggSmall || len(c.S) > maxLen {
		return true
	}
	for _, v := range c.S {
		ok := false
		for _, a := range alpha {
			ok = ok || a == v
		}
		if !ok {
			return true
		}
	}
	return false
}

// aggInts: Sum and Mean of an integer instantiation; the reference is computed in int64.
func aggInts[T number](s []T, typ string) error {
	var want int64
	for _, v := range s {
		want += int64(v)
	}
	n := int64(len(s))
	var sum, mean T
	what := ""
	if err := try(func() string { return fmt.Sprintf("%s[%s](%v)", what, typ, s) }, func() {
		what = "Sum"
		sum = gogu.Sum(s)
		if n > 0 {
			what = "Mean"
			mean = gogu.Mean(s)
		}
	}); err != nil {
		return err
	}
	if int64(sum) != want {
		return fmt.Errorf("Sum[%s](%v) = %v, want %d", typ, s, sum, want)
	}
	// integer mean: any integer strictly less than 1 away from the exact quotient
	if n > 0 {
		if d := int64(mean)*n - want; d >= n || d <= -n {
			return fmt.Errorf("Mean[%s](%v) = %v, want %d/%d (rounded to an integer)", typ, s, mean, want, n)
		}
	}
	return nil
}

// aggFloats: Sum and Mean of a float instantiation; tolerance relative to the sum of magnitudes.
func aggFloats[T number](s []T, typ string) error {
	tol := tolOf[T]()
	var want, mag float64
	for _, v := range s {
		want += float64(v)
		mag += math.Abs(float64(v))
	}
	n := float64(len(s))
	var sum, mean T
	what := ""
	if err := try(func() string { return fmt.Sprintf("%s[%s](%v)", what, typ, s) }, func() {
		what = "Sum"
		sum = gogu.Sum(s)
		if n > 0 {
			what = "Mean"
			mean = gogu.Mean(s)
		}
	}); err != nil {
		return err
	}
	if d := math.Abs(float64(sum) - want); !(d <= tol*mag) {
		return fmt.Errorf("Sum[%s](%v) = %v, want %v (tolerance %g relative to the sum of magnitudes)", typ, s, sum, want, tol)
	}
	if n > 0 {
		if d := math.Abs(float64(mean) - want/n); !(d <= tol*mag/n) {
			return fmt.Errorf("Mean[%s](%v) = %v, want %v (tolerance %g)", typ, s, mean, want/n, tol)
		}
	}
	return nil
}

func aggSumBy(codes []int) error {
	var wDouble, wSquare, wLen int
	var wQuarter float64
	strs := mapTo(codes, strOf)
	for i, v := range codes {
		wDouble += 2 * v
		wSquare += v * v
		wQuarter += float64(v) / 4
		wLen += len(strs[i])
	}
	var gDouble, gSquare, gCount, gLen int
	var gQuarter float64
	what := ""
	if err := try(func() string { return fmt.Sprintf("SumBy(%v, %s)", codes, what) }, func() {
		what = "2v"
		gDouble = gogu.SumBy(codes, func(v int) int { return 2 * v })
		what = "v*v"
		gSquare = gogu.SumBy(codes, func(v int) int { return v * v })
		what = "1"
		gCount = gogu.SumBy(codes, func(int) int { return 1 })
		what = "float64(v)/4"
		gQuarter = gogu.SumBy(codes, func(v int) float64 { return float64(v) / 4 })
		what = "len(text(v))"
		gLen = gogu.SumBy(strs, func(v string) int { return len(v) })
	}); err != nil {
		return err
	}
	switch {
	case gDouble != wDouble:
		return fmt.Errorf("SumBy(%v, 2v) = %d, want %d", codes, gDouble, wDouble)
	case gSquare != wSquare:
		return fmt.Errorf("SumBy(%v, v*v) = %d, want %d", codes, gSquare, wSquare)
	case gCount != len(codes):
		return fmt.Errorf("SumBy(%v, 1) = %d, want %d", codes, gCount, len(codes))
	case gQuarter != wQuarter: // multiples of 1/4 below 2^40: exact in every summation order
		return fmt.Errorf("SumBy(%v, v/4) = %v, want %v", codes, gQuarter, wQuarter)
	case gLen != wLen:
		return fmt.Errorf("SumBy(%q, len) = %d, want %d", strs, gLen, wLen)
	}
	return nil
}

func aggProp(c aggCase, r *pbt.R) error {
	kind := norm(c.Kind, nAggKinds)
	limit, maxLen := 10, 12
	switch kind {
	case aggWide:
		limit, maxLen = 1000000, 200
	case aggFloat:
		limit, maxLen = 1000000000, 200
	case aggBig:
		limit, maxLen = 1<<60, 4
	}
	if len(c.S) > maxLen {
		r.Label("outside the overflow-free domain (not checked)")
		return nil
	}
	for _, v := range c.S {
		if absInt(v) > limit {
			r.Label("outside the overflow-free domain (not checked)")
			return nil
		}
	}
	var err error
	switch kind {
	case aggSmall:
		if err = aggInts(mapTo(c.S, idOf), "int"); err == nil {
			err = aggInts(mapTo(c.S, func(v int) int8 { return int8(v) }), "int8")
		}
		if err == nil {
			err = aggInts(mapTo(c.S, func(v int) uint8 { return uint8(v + 10) }), "uint8")
		}
		if err == nil {
			err = aggFloats(mapTo(c.S, fltOf), "float64")
		}
		if err == nil {
			err = aggFloats(mapTo(c.S, func(v int) float32 { return float32(v) / 4 }), "float32")
		}
		if err == nil {
			err = aggSumBy(c.S)
		}
	case aggWide:
		if err = aggInts(mapTo(c.S, idOf), "int"); err == nil {
			err = aggInts(mapTo(c.S, func(v int) int64 { return int64(v) }), "int64")
		}
		if err == nil {
			err = aggSumBy(c.S)
		}
	case aggBig:
		if err = aggInts(mapTo(c.S, idOf), "int"); err == nil {
			err = aggInts(mapTo(c.S, func(v int) int64 { return int64(v) }), "int64")
		}
		if err == nil {
			err = aggInts(mapTo(c.S, func(v int) uint64 { return uint64(absInt(v)) }), "uint64")
		}
		r.Label("values beyond 2^53")
	default:
		err = aggFloats(mapTo(c.S, func(v int) float64 { return float64(v) / 1000 }), "float64")
	}
	if err != nil {
		return err
	}
	n, sum := len(c.S), 0
	neg, pos := false, false
	for _, v := range c.S {
		sum += v
		neg, pos = neg || v < 0, pos || v > 0
	}
	r.NonTrivialIf(n >= 2, "two or more elements")
	if n == 0 {
		r.Label("empty slice (Sum only)")
	}
	if neg && pos {
		r.Label("mixed signs")
	}
	if n > 0 && sum%n != 0 {
		r.Label("mean is not an integer")
		if sum < 0 {
			r.Label("negative non-integer mean")
		}
	}
	return nil
}

// ---------------------------------------------------------------------------
// int8: Clamp, InRange, Abs over every int8 triple. One case = one (lo, hi)
// pair; the property loops over all 256 values of num.

type i8Case struct {
	Lo int `json:"lo"`
	Hi int `json:"hi"`
}

func i8Enum(s pbt.Src, _ bool) i8Case {
	return i8Case{Lo: pbt.Range(s, -128, 127), Hi: pbt.Range(s, -128, 127)}
}

func i8Prop(c i8Case, r *pbt.R) error {
	if c.Lo < -128 || c.Lo > 127 || c.Hi < -128 || c.Hi > 127 {
		r.Label("not an int8 pair (not checked)")
		return nil
	}
	lo, hi := int8(c.Lo), int8(c.Hi)
	cur := 0
	var bad error
	if err := try(func() string { return fmt.Sprintf("Clamp/InRange/Abs[int8] with num=%d lo=%d hi=%d", cur, lo, hi) }, func() {
		for cur = -128; cur <= 127 && bad == nil; cur++ {
			num := int8(cur)
			cl := gogu.Clamp(num, lo, hi)
			in := gogu.InRange(num, lo, hi)
			if lo <= hi {
				want := num
				if num < lo {
					want = lo
				} else if num > hi {
					want = hi
				}
				if cl != want {
					bad = fmt.Errorf("Clamp[int8](%d, %d, %d) = %d, want %d", num, lo, hi, cl, want)
				} else if in != (lo <= num && num <= hi) {
					bad = fmt.Errorf("InRange[int8](%d, %d, %d) = %v, want %v", num, lo, hi, in, !in)
				}
			} else if in && !(hi <= num && num <= lo) {
				// empty interval: false, or membership in the swapped interval
				bad = fmt.Errorf("InRange[int8](%d, %d, %d) = true but the number lies outside both [lo,hi] and [hi,lo]", num, lo, hi)
			} else if in {
				// lo > hi and true: only acceptable as ONE consistent reading (bounds given in either order), i.e. the
				// whole swapped interval answers true - in particular both of its ends
				if !gogu.InRange(lo, lo, hi) || !gogu.InRange(hi, lo, hi) {
					bad = fmt.Errorf("InRange[int8](%d, %d, %d) = true although lo > hi, yet InRange(%d, ...) = %v and InRange(%d, ...) = %v: neither the defining inequalities lo <= num <= hi nor the interval with swapped bounds",
						num, lo, hi, lo, gogu.InRange(lo, lo, hi), hi, gogu.InRange(hi, lo, hi))
				}
			}
			if num != math.MinInt8 && bad == nil {
				a := gogu.Abs(num)
				if a < 0 || (a != num && a != -num) {
					bad = fmt.Errorf("Abs[int8](%d) = %d", num, a)
				}
			}
		}
	}); err != nil {
		return err
	}
	if bad != nil {
		return bad
	}
	r.NonTrivialIf(lo <= hi, "lo <= hi (Clamp and InRange exact)")
	switch {
	case lo == hi:
		r.Label("lo == hi")
	case lo > hi:
		r.Label("lo > hi (Clamp not asserted)")
	}
	return nil
}

// ---------------------------------------------------------------------------
// numeric: Clamp, InRange, Abs over other types / wide values

const (
	nkInt = iota
	nkInt64
	nkInt32
	nkUint8
	nkUint64
	nkFloat64
	nkFloat32
	nNumKinds
)

var numKindNames = []string{"int", "int64", "int32", "uint8", "uint64", "float64", "float32"}

type numCase struct {
	Num  int64 `json:"num"`
	Lo   int64 `json:"lo"`
	Hi   int64 `json:"hi"`
	Kind int   `json:"kind"`
}

func numBounds(thorough bool) int64 {
	if thorough {
		return 5
	}
	return 3
}

func numEnum(s pbt.Src, thorough bool) numCase {
	b := int(numBounds(thorough))
	return numCase{Num: int64(pbt.Range(s, -b, b)), Lo: int64(pbt.Range(s, -b, b)), Hi: int64(pbt.Range(s, -b, b)), Kind: s.Intn(nNumKinds)}
}

var special64 = []int64{math.MinInt64, math.MinInt64 + 1, math.MinInt32, math.MinInt32 + 1, -256, -129, -128, -127, -1, 0, 1,
	127, 128, 255, 256, math.MaxInt32, math.MaxInt32 + 1, math.MaxInt64 - 1, math.MaxInt64}

func wide64(s pbt.Src) int64 {
	switch s.Intn(4) {
	case 0:
		return int64(pbt.Range(s, -6, 6))
	case 1:
		return special64[s.Intn(len(special64))]
	case 2:
		return int64(pbt.Range(s, -1000, 1000))
	}
	return int64(pbt.Range(s, -1<<40, 1<<40))
}

func numGen(s pbt.Src, _ bool) numCase {
	c := numCase{Kind: s.Intn(nNumKinds), Lo: wide64(s), Hi: wide64(s)}
	// three times out of four the bounds are put in order (in the int64 codes; a wrapping
	// conversion to a narrower type may still invert them)
	if s.Intn(4) != 0 && c.Lo > c.Hi {
		c.Lo, c.Hi = c.Hi, c.Lo
	}
	switch s.Intn(4) {
	case 0:
		c.Num = c.Lo + int64(pbt.Range(s, -1, 1)) // may wrap at the extremes: still a valid int64
	case 1:
		c.Num = c.Hi + int64(pbt.Range(s, -1, 1))
	default:
		c.Num = wide64(s)
	}
	return c
}

func numOut(c numCase, thorough bool) bool {
	b := numBounds(thorough)
	far := func(v int64) bool { return v < -b || v > b }
	return far(c.Num) || far(c.Lo) || far(c.Hi)
}

func numRun[T number](num, lo, hi T, typ string, r *pbt.R) error {
	var cl, ab T
	var in bool
	typeMin := num < 0 && -num == num && !isFloatType[T]() // the one value whose magnitude is not representable
	what := ""
	if err := try(func() string { return fmt.Sprintf("%s[%s] with num=%v lo=%v hi=%v", what, typ, num, lo, hi) }, func() {
		what = "Clamp"
		cl = gogu.Clamp(num, lo, hi)
		what = "InRange"
		in = gogu.InRange(num, lo, hi)
		what = "Abs"
		ab = gogu.Abs(num)
	}); err != nil {
		return err
	}
	if lo <= hi {
		want := num
		if num < lo {
			want = lo
		} else if num > hi {
			want = hi
		}
		if cl != want {
			return fmt.Errorf("Clamp[%s](%v, %v, %v) = %v, want %v", typ, num, lo, hi, cl, want)
		}
		if in != (lo <= num && num <= hi) {
			return fmt.Errorf("InRange[%s](%v, %v, %v) = %v, want %v", typ, num, lo, hi, in, !in)
		}
	} else if in && !(hi <= num && num <= lo) {
		return fmt.Errorf("InRange[%s](%v, %v, %v) = true but the number lies outside both [lo,hi] and [hi,lo]", typ, num, lo, hi)
	} else if in {
		// lo > hi and true: only acceptable as one consistent reading (bounds in either order): both ends must answer true too
		if a, b := gogu.InRange(lo, lo, hi), gogu.InRange(hi, lo, hi); !a || !b {
			return fmt.Errorf("InRange[%s](%v, %v, %v) = true although lo > hi, yet InRange(lo, ...) = %v and InRange(hi, ...) = %v: neither the defining inequalities lo <= num <= hi nor the interval with swapped bounds", typ, num, lo, hi, a, b)
		}
	}
	if !typeMin {
		if ab < 0 || (num >= 0 && ab != num) || (num < 0 && ab != -num) {
			return fmt.Errorf("Abs[%s](%v) = %v", typ, num, ab)
		}
	} else {
		r.Label("type minimum (Abs not asserted)")
	}
	r.NonTrivialIf(lo <= hi, "lo <= hi (Clamp and InRange exact)")
	switch {
	case lo > hi:
		r.Label("lo > hi (Clamp not asserted)")
	case num < lo:
		r.Label("num < lo")
	case num > hi:
		r.Label("num > hi")
	case num == lo || num == hi:
		r.Label("num on a bound")
	default:
		r.Label("num strictly inside")
	}
	if num < 0 {
		r.Label("negative num")
	}
	return nil
}

func numProp(c numCase, r *pbt.R) error {
	k := norm(c.Kind, nNumKinds)
	typ := numKindNames[k]
	switch k {
	case nkInt64:
		return numRun(c.Num, c.Lo, c.Hi, typ, r)
	case nkInt32:
		return numRun(int32(c.Num), int32(c.Lo), int32(c.Hi), typ, r)
	case nkUint8:
		return numRun(uint8(c.Num), uint8(c.Lo), uint8(c.Hi), typ, r)
	case nkUint64:
		return numRun(uint64(c.Num), uint64(c.Lo), uint64(c.Hi), typ, r)
	case nkFloat64:
		return numRun(float64(c.Num)/4, float64(c.Lo)/4, float64(c.Hi)/4, typ, r)
	case nkFloat32:
		return numRun(float32(c.Num)/4, float32(c.Lo)/4, float32(c.Hi)/4, typ, r)
	}
	return numRun(int(c.Num), int(c.Lo), int(c.Hi), typ, r)
}

// ---------------------------------------------------------------------------
// compare: Compare, Less, Equal

type cmpCase struct {
	A    int `json:"a"`
	B    int `json:"b"`
	Comp int `json:"comp"`
	Kind int `json:"kind"`
}

// All comparators are asymmetric (never comp(a,b) && comp(b,a)), so the result of Compare is determined.
var compNames = []string{"a < b", "a > b", "never", "rank(a) < rank(b)"}

func compOf[T cmp.Ordered](i int, rank func(T) int) gogu.CompFn[T] {
	switch i {
	case 0:
		return func(a, b T) bool { return a < b }
	case 1:
		return func(a, b T) bool { return a > b }
	case 2:
		return func(a, b T) bool { return false }
	}
	return func(a, b T) bool { return rank(a) < rank(b) }
}

const cmpBound = 4

func cmpEnum(s pbt.Src, _ bool) cmpCase {
	return cmpCase{A: pbt.Range(s, -cmpBound, cmpBound), B: pbt.Range(s, -cmpBound, cmpBound), Comp: s.Intn(len(compNames)), Kind: s.Intn(nElemKinds)}
}

func cmpGen(s pbt.Src, _ bool) cmpCase {
	c := cmpCase{Comp: s.Intn(len(compNames)), Kind: s.Intn(nElemKinds)}
	width := pbt.Pick(s, 12, 1000, 1<<40)
	c.A = pbt.Range(s, -width, width)
	switch s.Intn(4) {
	case 0:
		c.B = c.A
	case 1:
		c.B = -c.A
	default:
		c.B = pbt.Range(s, -width, width)
	}
	return c
}

func cmpOut(c cmpCase, _ bool) bool {
	return absInt(c.A) > cmpBound || absInt(c.B) > cmpBound
}

func cmpRun[T cmp.Ordered](a, b T, compIdx int, rank func(T) int, r *pbt.R) error {
	comp := compOf(compIdx, rank)
	var got int
	var less, eq bool
	what := ""
	if err := try(func() string {
		return fmt.Sprintf("%s with a=%#v b=%#v comparator (%s)", what, a, b, compNames[compIdx])
	}, func() {
		what = "Compare"
		got = gogu.Compare(a, b, comp)
		what = "Less"
		less = gogu.Less(a, b)
		what = "Equal"
		eq = gogu.Equal(a, b)
	}); err != nil {
		return err
	}
	want := 0
	if comp(a, b) {
		want = 1
	} else if comp(b, a) {
		want = -1
	}
	if got != want {
		return fmt.Errorf("Compare(%#v, %#v, %s) = %d, want %d", a, b, compNames[compIdx], got, want)
	}
	if less != (a < b) {
		return fmt.Errorf("Less(%#v, %#v) = %v", a, b, less)
	}
	if eq != (a == b) {
		return fmt.Errorf("Equal(%#v, %#v) = %v", a, b, eq)
	}
	r.NonTrivialIf(a != b, "different operands")
	switch want {
	case 1:
		r.Label("Compare = 1")
	case -1:
		r.Label("Compare = -1")
	default:
		r.Label("Compare = 0")
		if a != b {
			r.Label("Compare = 0 for different operands")
		}
	}
	return nil
}

// specialFloats: operands whose comparison is not what a naive or "improved" ordering would give: the two zeros are
// equal and neither is less; NaN is neither less than, nor equal to, anything (itself included).
// Neighbouring representable values (0.3 and 0.1+0.2, 1e300 and the next one, zero and the smallest subnormal, +-1e-10)
// are different and ordered: equality or ordering "up to a tolerance" is not what the comparator helpers promise.
var specialFloats = []float64{math.NaN(), math.Copysign(0, -1), 0, math.Inf(-1), math.Inf(1), 1.5, -1.5,
	0.3, 0.1 + 0.2, 1e300, math.Nextafter(1e300, math.Inf(1)), 5e-324, -5e-324, 1e-10, -1e-10, 1, math.Nextafter(1, 2)}

// cmpSpecial: Less and Equal on every ordered pair of specialFloats reflect < and == of the language.
// cmpIdentity: Equal on types whose == is identity, not content: two pointers to equal integers are different values,
// and so are structs, arrays and interface values that hold them.
func cmpIdentity() error {
	x, y := 7, 7
	px, py := &x, &y
	type holder struct {
		P *int
		N int
	}
	ca, cb := make(chan int), make(chan int)
	checks := []struct {
		what      string
		got, want bool
	}{
		{"Equal(&x, &y) for two variables holding 7", gogu.Equal(px, py), px == py},
		{"Equal(&x, &x)", gogu.Equal(px, px), true},
		{"Equal(struct{&x,1}, struct{&y,1})", gogu.Equal(holder{px, 1}, holder{py, 1}), holder{px, 1} == holder{py, 1}},
		{"Equal(struct{&x,1}, struct{&x,1})", gogu.Equal(holder{px, 1}, holder{px, 1}), true},
		{"Equal([2]*int{&x,&y}, [2]*int{&y,&x})", gogu.Equal([2]*int{px, py}, [2]*int{py, px}), false},
		{"Equal[any](&x, &y)", gogu.Equal[any](px, py), false},
		{"Equal[any](1, int64(1))", gogu.Equal[any](1, int64(1)), false},
		{"Equal[any](1, 1)", gogu.Equal[any](1, 1), true},
		{"Equal(two different channels)", gogu.Equal(ca, cb), false},
		{"Equal(one channel with itself)", gogu.Equal(ca, ca), true},
	}
	for _, c := range checks {
		if c.got != c.want {
			return fmt.Errorf("%s = %v, but == says %v (Equal is ==: pointers, channels and what holds them compare by identity)", c.what, c.got, c.want)
		}
	}
	if got := gogu.Compare(px, py, func(a, b *int) bool { return a == b }); got != 0 {
		return fmt.Errorf("Compare(&x, &y, a == b) = %d, want 0 (the comparator says no both ways)", got)
	}
	return nil
}

func cmpSpecial() error {
	if err := cmpIdentity(); err != nil {
		return err
	}
	for _, a := range specialFloats {
		for _, b := range specialFloats {
			if got := gogu.Less(a, b); got != (a < b) {
				return fmt.Errorf("Less(%v, %v) = %v, but %v < %v is %v (signbit of a: %v, of b: %v)", a, b, got, a, b, a < b, math.Signbit(a), math.Signbit(b))
			}
			if got := gogu.Equal(a, b); got != (a == b) {
				return fmt.Errorf("Equal(%v, %v) = %v, but %v == %v is %v", a, b, got, a, b, a == b)
			}
			lt := func(x, y float64) bool { return x < y }
			want := 0
			if a < b {
				want = 1
			} else if b < a {
				want = -1
			}
			if got := gogu.Compare(a, b, lt); got != want {
				return fmt.Errorf("Compare(%v, %v, a<b) = %d, want %d", a, b, got, want)
			}
			// a total order that tells apart what == calls equal (-0 before +0) and ranks NaN first: Compare reflects the comparator, not ==
			tot := func(x, y float64) bool {
				return cmp.Compare(x, y) < 0 || (x == 0 && y == 0 && math.Signbit(x) && !math.Signbit(y))
			}
			want = 0
			if tot(a, b) {
				want = 1
			} else if tot(b, a) {
				want = -1
			}
			if got := gogu.Compare(a, b, tot); got != want {
				return fmt.Errorf("Compare(%v, %v, total order with NaN first and -0 before +0) = %d, want %d (signbit of a: %v, of b: %v)", a, b, got, want, math.Signbit(a), math.Signbit(b))
			}
			a32, b32 := float32(a), float32(b)
			if got := gogu.Less(a32, b32); got != (a32 < b32) {
				return fmt.Errorf("Less[float32](%v, %v) = %v", a32, b32, got)
			}
			if got := gogu.Equal(a32, b32); got != (a32 == b32) {
				return fmt.Errorf("Equal[float32](%v, %v) = %v, but == is %v", a32, b32, got, a32 == b32)
			}
			n32 := math.Nextafter32(a32, float32(math.Inf(1)))
			if got := gogu.Equal(a32, n32); got != (a32 == n32) {
				return fmt.Errorf("Equal[float32](%v, %v) = %v, but == is %v (neighbouring values)", a32, n32, got, a32 == n32)
			}
			if got := gogu.Less(a32, n32); got != (a32 < n32) {
				return fmt.Errorf("Less[float32](%v, %v) = %v, but < is %v (neighbouring values)", a32, n32, got, a32 < n32)
			}
		}
	}
	return nil
}

func cmpProp(c cmpCase, r *pbt.R) error {
	if c.Kind == -1 {
		return cmpSpecial()
	}
	k := norm(c.Comp, len(compNames))
	switch norm(c.Kind, nElemKinds) {
	case kString:
		return cmpRun(strOf(c.A), strOf(c.B), k, func(v string) int { return len(v) }, r)
	case kFloat:
		return cmpRun(fltOf(c.A), fltOf(c.B), k, func(v float64) int { return int(math.Floor(v)) }, r)
	}
	return cmpRun(c.A, c.B, k, absInt, r)
}

// ---------------------------------------------------------------------------
// range: Range, RangeRight

const (
	rkInt = iota
	rkInt8
	rkFloat64 // arguments are code/4 (binary-exact, two decimals)
	rkInt64
	rkInt16
	rkFloat32 // arguments are code/4
	rkNamedInt   // type level int: a defined type, same progression
	rkNamedFloat // type ratio float64, arguments are code/4
	rkNamedInt8  // type grade int8
	nRangeKinds
)

type (
	level int
	ratio float64
	grade int8
)

const nRangeEnumKinds = 3 // int, int8, float64

var rangeKindNames = []string{"int", "int8", "float64", "int64", "int16", "float32", "level (defined as int)", "ratio (defined as float64)", "grade (defined as int8)"}

type rangeCase struct {
	Args []int `json:"args"`
	Kind int   `json:"kind"`
}

func rangeBound(thorough bool) int {
	if thorough {
		return 16
	}
	return 10
}

func rangeEnum(s pbt.Src, thorough bool) rangeCase {
	b := rangeBound(thorough)
	c := rangeCase{Args: []int{}}
	n := s.Intn(5)
	for i := 0; i < n; i++ {
		if n == 4 {
			c.Args = append(c.Args, pbt.Range(s, -1, 1))
		} else {
			c.Args = append(c.Args, pbt.Range(s, -b, b))
		}
	}
	c.Kind = s.Intn(nRangeEnumKinds)
	return c
}

func rangeGen(s pbt.Src, _ bool) rangeCase {
	c := rangeCase{Kind: s.Intn(nRangeKinds), Args: []int{}}
	width := pbt.Pick(s, 12, 40, 300)
	if c.Kind == rkInt8 || c.Kind == rkNamedInt8 {
		width = pbt.Pick(s, 12, 40)
	}
	n := pbt.Pick(s, 0, 1, 1, 2, 2, 2, 3, 3, 3, 3, 3, 3, 3, 3, 4, 5)
	for i := 0; i < n; i++ {
		if n == 3 && i == 1 {
			c.Args = append(c.Args, pbt.Range(s, -9, 9)) // step
		} else {
			c.Args = append(c.Args, pbt.Range(s, -width, width))
		}
	}
	return c
}

func rangeOut(c rangeCase, thorough bool) bool {
	b := rangeBound(thorough)
	if c.Kind >= nRangeEnumKinds || len(c.Args) > 4 {
		return true
	}
	for _, v := range c.Args {
		if absInt(v) > b || (len(c.Args) == 4 && absInt(v) > 1) {
			return true
		}
	}
	return false
}

// refRange is the progression the statement defines, in closed form, for
// integer arguments: errWant = an error is required; errOpt = an error is
// accepted in place of the value. unit is the code of the number 1 (the
// default step): 1 for the integer types, 4 for the float types (code/4).
func refRange(args []int, unit int) (want []int, errWant, errOpt bool) {
	var start, step, end int
	switch len(args) {
	case 0:
		// start = end = 0: nothing to produce. The documentation admits 1 to 3 arguments, so an error is tolerated.
		return []int{}, false, true
	case 1:
		step, end = unit, args[0]
	case 2:
		start, step, end = args[0], unit, args[1]
		// not validated in this form (empty result); the 3-argument form rejects it, so an error is tolerated
		errOpt = start > end && end > 0
	case 3:
		start, step, end = args[0], args[1], args[2]
		if step == 0 || (start > end && end > 0) || (step < 0 && end > start) {
			return nil, true, false
		}
	default:
		return nil, true, false
	}
	d := absInt(step)
	want = []int{}
	if end > 0 {
		// ascending: start + k*d < end  <=>  k < (end-start)/d
		if end > start {
			for k, n := 0, (end-start+d-1)/d; k < n; k++ {
				want = append(want, start+k*d)
			}
		}
	} else if start > end {
		// descending: start - k*d > end  <=>  k < (start-end)/d
		for k, n := 0, (start-end+d-1)/d; k < n; k++ {
			want = append(want, start-k*d)
		}
	}
	return want, false, errOpt
}

func rangeUnit(kind int) int {
	if kind == rkFloat64 || kind == rkFloat32 || kind == rkNamedFloat {
		return 4
	}
	return 1
}

func rangeRun[T number](args []int, conv func(int) T, typ string) error {
	unit := 1
	if isFloatType[T]() {
		unit = 4
	}
	want, errWant, errOpt := refRange(args, unit)
	targs := mapTo(args, conv)
	twant := mapTo(want, conv)
	tol := tolOf[T]()
	for _, right := range []bool{false, true} {
		name := "Range"
		if right {
			name = "RangeRight"
		}
		call := func() string { return fmt.Sprintf("%s[%s](%v)", name, typ, targs) }
		var got []T
		var err error
		if e := try(call, func() {
			if right {
				got, err = gogu.RangeRight(targs...)
			} else {
				got, err = gogu.Range(targs...)
			}
		}); e != nil {
			return e
		}
		if errWant {
			if err == nil {
				return fmt.Errorf("%s = %v with a nil error, want an error (invalid argument combination)", call(), got)
			}
			continue
		}
		if err != nil {
			if errOpt {
				continue
			}
			return fmt.Errorf("%s returned the error %q, want %v", call(), err, twant)
		}
		ok := len(got) == len(twant)
		for i := 0; ok && i < len(got); i++ {
			w := twant[i]
			if right {
				w = twant[len(twant)-1-i]
			}
			ok = eqNum(got[i], w, tol)
		}
		if !ok {
			if right {
				return fmt.Errorf("%s = %v, want the reverse of %v", call(), got, twant)
			}
			return fmt.Errorf("%s = %v, want %v", call(), got, twant)
		}
	}
	return nil
}

func rangeProp(c rangeCase, r *pbt.R) error {
	k := norm(c.Kind, nRangeKinds)
	limit := 100000
	switch k {
	case rkInt8, rkNamedInt8:
		limit = 60 // start/end +- |step| stays inside int8
	case rkInt16:
		limit = 16000
	}
	for _, v := range c.Args {
		if absInt(v) > limit {
			r.Label("outside the overflow-free domain (not checked)")
			return nil
		}
	}
	typ := rangeKindNames[k]
	var err error
	switch k {
	case rkInt:
		err = rangeRun(c.Args, idOf, typ)
	case rkInt8:
		err = rangeRun(c.Args, func(v int) int8 { return int8(v) }, typ)
	case rkInt16:
		err = rangeRun(c.Args, func(v int) int16 { return int16(v) }, typ)
	case rkInt64:
		err = rangeRun(c.Args, func(v int) int64 { return int64(v) }, typ)
	case rkFloat64:
		err = rangeRun(c.Args, fltOf, typ)
	case rkFloat32:
		err = rangeRun(c.Args, func(v int) float32 { return float32(v) / 4 }, typ)
	case rkNamedInt:
		err = rangeRun(c.Args, func(v int) level { return level(v) }, typ)
	case rkNamedFloat:
		err = rangeRun(c.Args, func(v int) ratio { return ratio(v) / 4 }, typ)
	case rkNamedInt8:
		err = rangeRun(c.Args, func(v int) grade { return grade(v) }, typ)
	}
	if err != nil {
		return err
	}
	want, errWant, _ := refRange(c.Args, rangeUnit(k))
	if len(c.Args) >= 4 {
		r.Label("4 or more arguments")
	} else {
		r.Label(fmt.Sprintf("%d arguments", len(c.Args)))
	}
	r.NonTrivialIf(errWant, "invalid arguments: error")
	r.NonTrivialIf(len(want) >= 2, "two or more elements")
	if !errWant {
		end := 0
		if len(c.Args) > 0 {
			end = c.Args[len(c.Args)-1]
		}
		if len(want) == 0 {
			r.Label("empty result")
		} else if end > 0 {
			r.Label("ascending")
		} else {
			r.Label("descending")
		}
		if end < 0 && len(want) > 0 {
			r.Label("negative end, non-empty")
		}
		if len(c.Args) == 3 && len(want) > 0 {
			step, span := absInt(c.Args[1]), absInt(c.Args[2]-c.Args[0])
			if step > 1 && span%step != 0 {
				r.Label("step does not divide the span")
			}
			if c.Args[1] < 0 {
				r.Label("negative step, non-empty")
			}
		}
	}
	return nil
}

// ---------------------------------------------------------------------------

// ---------------------------------------------------------------------------
// the helpers are pure: several goroutines calling them at the same time, each on its own input, get what they get alone

type ParCase struct {
	H    int `json:"h"`
	Size int `json:"size"`
	W    int `json:"workers"`
}

var parNames = []string{"Range", "RangeRight", "Range[float64]", "Sum+Mean", "FindMin+FindMax", "IndexOf+LastIndexOf", "FindAll", "Nth", "FindMinBy"}

func parInput(w, size int) []int {
	out := make([]int, size)
	for i := range out {
		out[i] = (i*i*(w+3) + 7*i + w) % (size/2 + 11)
	}
	return out
}

func parProp(c ParCase, r *pbt.R) error {
	h := norm(c.H, len(parNames))
	size := 64 + norm(c.Size, 6000)
	workers := 2 + norm(c.W, 7)
	f := func(w int) string {
		switch h {
		case 0:
			v, err := gogu.Range(-7000-w, 7, -7000-w-size)
			return pbt.Digest(fmt.Sprint(v, err))
		case 1:
			v, err := gogu.RangeRight(w, 3, w+size)
			return pbt.Digest(fmt.Sprint(v, err))
		case 2:
			v, err := gogu.Range(float64(w)/4, 0.25, float64(w)/4+float64(size)/8)
			return pbt.Digest(fmt.Sprint(v, err))
		case 3:
			in := parInput(w, size)
			return fmt.Sprint(gogu.Sum(in), gogu.Mean(in))
		case 4:
			in := parInput(w, size)
			return fmt.Sprint(gogu.FindMin(in), gogu.FindMax(in))
		case 5:
			in := parInput(w, size)
			return fmt.Sprint(gogu.IndexOf(in, in[size/2]), gogu.LastIndexOf(in, in[size/3]))
		case 6:
			in := parInput(w, size)
			return pbt.Digest(gogu.FindAll(in, func(v int) bool { return v%3 == w%3 }))
		case 7:
			in := parInput(w, size)
			a, e1 := gogu.Nth(in, -1-w)
			b, e2 := gogu.Nth(in, size+w)
			return fmt.Sprint(a, e1, b, e2)
		default:
			in := parInput(w, size)
			return fmt.Sprint(gogu.FindMinBy(in, func(v int) int { return (v*7 + w) % 101 }))
		}
	}
	if err := pbt.Concurrently(workers, 6, f); err != nil {
		return fmt.Errorf("%s on inputs of about %d elements: %v", parNames[h], size, err)
	}
	r.NonTrivial()
	r.Label(parNames[h])
	return nil
}

func TestProp(t *testing.T) {
	pbt.Run(t, "C13",
		&pbt.Check[searchCase]{
			Name: "search",
			Rule: "IndexOf/LastIndexOf/Contains with a probe value p and FindIndex/FindLastIndex/FindAll/Some/Every with one of the predicates (v==p, v!=p, v<p, v>=p, true, false), " +
				"decided by the definitions (smallest/largest matching index or -1, exact index->value map, quantifiers). Element types int, string (decimal text, 0 -> \"\") and float64 (v/4), no NaN. " +
				"Enumerated: every slice up to length 6 (thorough 8) over {0..3} x every probe in -1..4 x every predicate x every element type; random: up to 40 (150) elements of width 2..1e6, probe mostly taken from the slice. The helpers are handed a window of a longer array whose three elements behind the window hold the probe value and another value of the case in turn: the answers must not depend on them and the whole array must read the same afterwards; then the window is rewritten in place (probe moved to another position) and every helper is asked again on the same array. " +
				"Non-trivial = the probe value occurs at least twice, or the predicate holds for some but not all elements. Distinct = enumerated cases (injective) + hash-distinct random cases outside the enumerated scope.",
			Enum: searchEnum, Gen: searchGen, Prop: searchProp, OutOfEnum: searchOut,
			RapidQuick: 1500, RapidThorough: 20000,
		},
		&pbt.Check[nthCase]{
			Name: "nth",
			Rule: "Nth(s,i) = s[i] for 0<=i<len, s[len+i] for -len<=i<0, otherwise an error; a panic is a violation for every int i. Element types int, string, float64. " +
				"Enumerated: every slice up to length 6 (thorough 8) over {0,1,2} x every index in [-len-2, len+2] x element type; random: up to 40 (150) elements, index in the window, on a boundary, or far outside (MinInt, MinInt+1, MaxInt, ...). " +
				"Non-trivial = boundary index (-len-1, -len, -1, 0, len-1, len), or out of range, or in range with at least two different elements.",
			Enum: nthEnum, Gen: nthGen, Prop: nthProp, OutOfEnum: nthOut,
			RapidQuick: 1500, RapidThorough: 20000,
			Fixed: []nthCase{
				{S: []int{}, I: 0}, {S: []int{}, I: -1}, {S: []int{}, I: math.MinInt}, {S: []int{1}, I: math.MinInt},
				{S: []int{1, 2, 3}, I: math.MaxInt}, {S: []int{1, 2, 3}, I: math.MinInt + 1}, {S: []int{1, 2, 3}, I: -3, Kind: kString},
			},
		},
		&pbt.Check[extCase]{
			Name: "extremum",
			Rule: "FindMin/FindMax/Min/Max: the result is an element of the input and no element is smaller/larger; FindMinBy/FindMaxBy: the element at the first index whose key is extremal; zero value for an empty slice " +
				"(Min/Max only called with >= 1 argument). Key functions per type: int identity, negate, abs, v%3, constant; float64 identity, negate, abs, floor, constant; string identity, length, last byte, first byte, constant. No NaN. " +
				"Enumerated: every slice up to length 6 (thorough 7) over {-2..2} x key x element type; random: up to 40 (150) elements of width 3..1e6. " +
				"Non-trivial = at least two different elements.",
			Enum: extEnum, Gen: extGen, Prop: extProp, OutOfEnum: extOut,
			RapidQuick: 1500, RapidThorough: 20000,
		},
		&pbt.Check[byKeyCase]{
			Name: "bykey",
			Rule: "FindMinByKey/FindMaxByKey on []map[string]int and the same collection with string values: empty collection -> zero value (error optional), never a panic; no map has the key -> error; " +
				"first map has the key -> nil error and the extremum over the maps that have the key; first map lacks the key but a later one has it -> an error (documented) or that extremum (lenient). " +
				"Enumerated: every collection of up to 4 (thorough 5) maps with a in {absent,-1,0,2} and b in {absent,1,3}, key in {a,b,c}; random: up to 12 (40) maps over keys a..d, values of width 3..1e5, key also \"zz\" and \"\". " +
				"Non-trivial = empty collection, or at least two different values under the key, or the first map lacks the key.",
			Enum: byKeyEnum, Gen: byKeyGen, Prop: byKeyProp, OutOfEnum: byKeyOut,
			RapidQuick: 1500, RapidThorough: 20000,
			Fixed: []byKeyCase{{Maps: []map[string]int{}, Key: "a"}, {Maps: nil, Key: ""}},
		},
		&pbt.Check[aggCase]{
			Name: "aggregate",
			Rule: "Sum/Mean against an int64 (integers) or float64 (floats) reference, SumBy with 2v, v*v, 1, float64(v)/4 and len(text). Domain: Mean only on non-empty slices; magnitudes bounded so that no sum can overflow the element type " +
				"(int8: |v|<=10, len<=12; uint8: v+10; 64-bit integers also with |v| up to 2^60 on up to 4 elements, where a detour through float64 loses bits); integer Mean may be any integer less than 1 away from sum/len; floats within 1e-9 (float32: 1e-5) of the reference relative to the sum of magnitudes; no NaN/Inf. " +
				"Enumerated: every slice up to length 6 (thorough 8) over {-2,-1,0,1,3}, each run as int, int8, uint8, float64 (v/4), float32 (v/4); random: small (|v|<=10), wide ints (|v|<=1e6, up to 60 (200) elements, int and int64), inexact float64 (v/1000). " +
				"Non-trivial = two or more elements.",
			Enum: aggEnum, Gen: aggGen, Prop: aggProp, OutOfEnum: aggOut,
			RapidQuick: 1500, RapidThorough: 20000,
		},
		&pbt.Check[i8Case]{
			Name: "int8",
			Rule: "every int8 triple: one case is a pair (lo, hi), the property loops over all 256 values of num (so 65536 cases = 16777216 triples). Clamp(num,lo,hi) asserted for lo <= hi (num inside -> num, below -> lo, above -> hi); " +
				"InRange(num,lo,hi) == (lo <= num <= hi) for lo <= hi, and for lo > hi it must be false, or - consistently for the whole pair - membership in the swapped interval (a true answer is only accepted if both ends of the swapped interval answer true as well); Abs(num) >= 0 and equal to num or -num for every num except -128. " +
				"Non-trivial = lo <= hi.",
			Enum: i8Enum, Prop: i8Prop,
		},
		&pbt.Check[numCase]{
			Name: "numeric",
			Rule: "Clamp/InRange/Abs as in [int8] for int, int64, int32, uint8, uint64 (wrapping conversions of the generated int64), float64 and float32 (value/4); Abs is not asserted for the minimum of a signed integer type; Clamp only for lo <= hi; no NaN. " +
				"Enumerated: every triple in [-3,3]^3 (thorough [-5,5]^3) x type; random: values near 0, near the int8/int32/int64 limits, up to 2^40, num often next to a bound. " +
				"Non-trivial = lo <= hi.",
			Enum: numEnum, Gen: numGen, Prop: numProp, OutOfEnum: numOut,
			RapidQuick: 1500, RapidThorough: 20000,
		},
		&pbt.Check[cmpCase]{
			Name: "compare",
			Rule: "Compare(a,b,comp) = 1 if comp(a,b), -1 if comp(b,a), else 0, for the asymmetric comparators a<b, a>b, never, rank(a)<rank(b) (rank: |v|, len, floor); Less(a,b) == a<b; Equal(a,b) == (a==b). Types int, string, float64. One fixed case runs Less, Equal and Compare(a<b) over every ordered pair of {NaN, -0.0, +0.0, -Inf, +Inf, 1.5, -1.5} (float64 and float32): they must agree with < and == of the language (NaN is neither less nor equal, the two zeros are equal). " +
				"Enumerated: all (a,b) in [-4,4]^2 x comparator x type; random: width 12..2^40, b often a or -a. Non-trivial = a != b.",
			Enum: cmpEnum, Gen: cmpGen, Prop: cmpProp, OutOfEnum: cmpOut,
			RapidQuick: 1000, RapidThorough: 10000,
			Fixed: []cmpCase{{Kind: -1}},
		},
		&pbt.Check[rangeCase]{
			Name: "range",
			Rule: "Range and RangeRight against a closed-form reference of the statement: 1 arg = end, 2 = start,end (step 1), 3 = start,step,end; > 3 args, step 0, start > end > 0, step < 0 with end > start (3-argument form) -> error; " +
				"otherwise start, start+|step|, ... < end when end > 0, else start, start-|step|, ... > end; RangeRight the reverse. Lenient: with 0 arguments, and in the 2-argument form with start > end > 0, an error is accepted in place of the empty result. " +
				"Types: int, int8, float64 (arguments/4, binary exact); random also int64, int16, float32; magnitudes small enough that start/end +- |step| cannot overflow. " +
				"Enumerated: 0, 1, 2 and 3 arguments with every value in [-10,10] (thorough [-16,16]), 4 arguments in [-1,1]^4, x type; random: 0..5 arguments up to +-300, step up to +-9. " +
				"Non-trivial = an error is required, or the progression has two or more elements.",
			Enum: rangeEnum, Gen: rangeGen, Prop: rangeProp, OutOfEnum: rangeOut,
			RapidQuick: 1500, RapidThorough: 20000,
			Fixed: []rangeCase{{Args: []int{}}, {Args: []int{0, 1, 2, 3}}, {Args: []int{5, 2}}, {Args: []int{-5, 1, -2}}, {Args: []int{3, -1, 3}}},
		},
		&pbt.Check[ParCase]{
			Name: "parallel",
			Rule: "the helpers are pure functions: 2..8 goroutines call one of Range, RangeRight, Range[float64], Sum+Mean, FindMin+FindMax, IndexOf+LastIndexOf, FindAll, Nth, FindMinBy at the same time (real scheduler), each on its own input of 64..6000 elements, six times; every answer must equal the answer the same call gives when it runs alone (computed beforehand). Non-trivial = every case.",
			Gen:        func(s pbt.Src, _ bool) ParCase { return ParCase{H: s.Intn(len(parNames)), Size: s.Intn(6000), W: s.Intn(7)} },
			Prop:       parProp,
			OutOfEnum:  func(ParCase, bool) bool { return true },
			RapidQuick: 12, RapidThorough: 200,
		},
	)
}
