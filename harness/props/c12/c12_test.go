// C12: reshaping helpers conserve elements and order.
//
// Sub-checks (one per helper family, each with its own case type):
//
//	chunk    Chunk
//	drop     Drop
//	split    Partition, Filter, Reject, DropWhile, DropRightWhile
//	groupby  GroupBy
//	zip      Zip, Unzip
//	flatten  Flatten
//	merge    Merge
//	perm     Reverse, ReverseStr, Shuffle
//	iter     Map, ForEach, ForEachRight, Reduce
//
// Every oracle is a small reference implementation written from the property
// statement. Slice elements handed to the library are (value, original index)
// pairs, so "every element exactly once, in order" is observed per position and
// not only per value; predicates and key functions look at the value only.
// Every helper gets its own fresh copy of the input (Reverse and Reject work in
// place; Chunk and Drop return views of their argument) and only returned
// values and callback logs are compared.
package c12

import (
	"sync"
	"fmt"
	"math"
	"sort"
	"strings"
	"testing"

	"github.com/esimov/gogu"
	"verif/pbt"
)

// ---------------------------------------------------------------------------
// elements and small helpers

// el is a slice element: the value V the predicates look at and the index I it
// had in the input, which makes every element of an input distinct.
type el struct{ I, V int }

func (e el) String() string { return fmt.Sprintf("%d@%d", e.V, e.I) }

func els(s []int) []el {
	out := make([]el, len(s))
	for i, v := range s {
		out[i] = el{I: i, V: v}
	}
	return out
}

// clone hands a helper its argument as a callers often hold it: a window of a longer array. Behind the window (in its spare
// capacity) sit two "ghost" elements, copies of the first and the middle element: a helper that reads up to cap() instead of
// len() shows them in its result.
func clone[T any](s []T) []T {
	out := make([]T, len(s), len(s)+2)
	copy(out, s)
	if len(s) > 0 {
		g := out[:len(s)+2]
		g[len(s)], g[len(s)+1] = s[0], s[len(s)/2]
	}
	return out
}

func clone2[T any](m [][]T) [][]T {
	out := make([][]T, len(m))
	for i := range m {
		out[i] = clone(m[i])
	}
	return out
}

// same compares by length and content (nil and empty are the same sequence).
func same[T comparable](a, b []T) bool {
	if len(a) != len(b) {
		return false
	}
	for i := range a {
		if a[i] != b[i] {
			return false
		}
	}
	return true
}

func same2[T comparable](a, b [][]T) bool {
	if len(a) != len(b) {
		return false
	}
	for i := range a {
		if !same(a[i], b[i]) {
			return false
		}
	}
	return true
}

func reversed[T any](s []T) []T {
	out := make([]T, len(s))
	for i, v := range s {
		out[len(s)-1-i] = v
	}
	return out
}

// catch runs f and reports whether it panicked.
func catch(f func()) (panicked bool, val any) {
	defer func() {
		if p := recover(); p != nil {
			panicked, val = true, p
		}
	}()
	f()
	return false, nil
}

// scope of the bounded-exhaustive part: slices up to maxLen over 0..alpha-1.
func scope(thorough bool) (maxLen, alpha int) {
	if thorough {
		return 8, 5
	}
	return 7, 4
}

// short renders a slice, abbreviating long ones.
func short[T any](v []T) string {
	if len(v) <= 24 {
		return fmt.Sprint(v)
	}
	return fmt.Sprintf("%v ... %v (%d elements)", v[:8], v[len(v)-4:], len(v))
}

func enumSlice(s pbt.Src, thorough bool) []int {
	maxLen, alpha := scope(thorough)
	return pbt.Seq(s, 0, maxLen, func(s pbt.Src) int { return s.Intn(alpha) })
}

func randBounds(thorough bool) (maxLen, alpha int) {
	if thorough {
		return 120, 24
	}
	return 40, 12
}

// bigSizes: lengths around the thresholds at which an implementation might switch strategy
// (parallel segments, block copies, recursion limits).
var bigSizes = []int{255, 256, 257, 1000, 1023, 1024, 1025, 2047, 2048, 2049, 4095, 4096, 4097, 5000, 8192, 10000, 16384, 20000}

// bigSlice: n values a*i+b mod alpha (cheap to draw, and the three parameters shrink); alpha 2..12, one in three 17..1025.
func bigSlice(s pbt.Src) []int {
	n := bigSizes[s.Intn(len(bigSizes))]
	a, b, alpha := 1+s.Intn(7), s.Intn(7), 2+s.Intn(11)
	if s.Intn(3) == 0 {
		// many distinct values (groups, chunks of distinct content), each recurring
		alpha = pbt.Pick(s, 17, 65, 257, 1025)
	}
	out := make([]int, n)
	for i := range out {
		out[i] = (a*i + b) % alpha
	}
	return out
}

func randSlice(s pbt.Src, thorough bool) []int {
	maxLen, alpha := randBounds(thorough)
	// one random slice in twelve is long (hundreds to thousands of elements)
	if s.Intn(12) == 0 {
		return bigSlice(s)
	}
	// half of the random slices stay on a narrow alphabet (many repeated values)
	if pbt.Bool(s) {
		alpha = 3
	}
	return pbt.Seq(s, 0, maxLen, func(s pbt.Src) int { return s.Intn(alpha) })
}

func sliceOutOfScope(v []int, thorough bool) bool {
	maxLen, alpha := scope(thorough)
	if len(v) > maxLen {
		return true
	}
	for _, x := range v {
		if x < 0 || x >= alpha {
			return true
		}
	}
	return false
}

// abs saturates: |math.MinInt| is reported as math.MaxInt.
func abs(n int) int {
	if n == math.MinInt {
		return math.MaxInt
	}
	if n < 0 {
		return -n
	}
	return n
}

// ---------------------------------------------------------------------------
// chunk

type ChunkCase struct {
	S    []int `json:"s"`
	Size int   `json:"size"`
}

func chunkMaxSize(thorough bool) int {
	if thorough {
		return 10
	}
	return 8
}

func enumChunk(s pbt.Src, thorough bool) ChunkCase {
	c := ChunkCase{S: enumSlice(s, thorough)}
	c.Size = pbt.Range(s, -1, chunkMaxSize(thorough))
	return c
}

func genChunk(s pbt.Src, thorough bool) ChunkCase {
	c := ChunkCase{S: randSlice(s, thorough)}
	switch m := s.Intn(12); {
	case m < 3: // a divisor-like small size
		c.Size = pbt.Range(s, 1, 6)
	case m < 6: // around the length
		c.Size = len(c.S) + pbt.Range(s, -2, 2)
	case m == 6: // huge (i+size must not overflow into a wrong branch)
		c.Size = math.MaxInt - s.Intn(3)
	default:
		c.Size = pbt.Range(s, -1, len(c.S)+3)
	}
	return c
}

func chunkOutOfEnum(c ChunkCase, thorough bool) bool {
	return sliceOutOfScope(c.S, thorough) || c.Size < -1 || c.Size > chunkMaxSize(thorough)
}

func propChunk(c ChunkCase, r *pbt.R) error {
	in := els(c.S)
	n := len(in)
	if c.Size <= 0 {
		// Documented rejection: panic. Lenient alternative: an answer that satisfies the
		// statement, which for a non-positive size exists only for the empty slice (no chunks).
		r.Label("size <= 0")
		var got [][]el
		if p, _ := catch(func() { got = gogu.Chunk(clone(in), c.Size) }); p {
			r.Label("rejected by panic")
			return nil
		}
		if n == 0 && len(got) == 0 {
			return nil
		}
		return fmt.Errorf("Chunk(%v, %d): a non-positive size was neither rejected (panic) nor answered with chunks that concatenate back: got %v", in, c.Size, got)
	}
	var got [][]el
	if p, v := catch(func() { got = gogu.Chunk(clone(in), c.Size) }); p {
		return fmt.Errorf("Chunk(%v, %d) panicked for a positive size: %v", in, c.Size, v)
	}
	var cat []el
	for _, ch := range got {
		cat = append(cat, ch...)
	}
	if !same(cat, in) {
		return fmt.Errorf("Chunk(%v, %d) = %v: the chunks concatenate to %v, not to the input", in, c.Size, got, cat)
	}
	for i, ch := range got {
		last := i == len(got)-1
		switch {
		case len(ch) == 0:
			return fmt.Errorf("Chunk(%v, %d) = %v: chunk %d is empty", in, c.Size, got, i)
		case len(ch) > c.Size:
			return fmt.Errorf("Chunk(%v, %d) = %v: chunk %d has %d elements", in, c.Size, got, i, len(ch))
		case len(ch) < c.Size && !last:
			return fmt.Errorf("Chunk(%v, %d) = %v: chunk %d is short (%d elements) but not the last one", in, c.Size, got, i, len(ch))
		}
	}
	if n > 0 {
		r.NonTrivial()
		r.NonTrivialIf(n%c.Size == 0, "len % size == 0")
		r.NonTrivialIf(c.Size > n, "size > len")
		r.NonTrivialIf(n%c.Size != 0 && c.Size < n, "short last chunk after full ones")
		if c.Size == n {
			r.Label("size == len")
		}
	}
	return nil
}

// ---------------------------------------------------------------------------
// drop

type DropCase struct {
	S []int `json:"s"`
	N int   `json:"n"`
}

func dropMax(thorough bool) int {
	if thorough {
		return 11
	}
	return 9
}

func enumDrop(s pbt.Src, thorough bool) DropCase {
	c := DropCase{S: enumSlice(s, thorough)}
	m := dropMax(thorough)
	c.N = pbt.Range(s, -m, m)
	return c
}

func genDrop(s pbt.Src, thorough bool) DropCase {
	c := DropCase{S: randSlice(s, thorough)}
	n := len(c.S)
	switch m := s.Intn(12); {
	case m < 4: // |n| within 2 of the length
		c.N = n + pbt.Range(s, -2, 2)
	case m == 4: // extreme counts; with the sign flip below: +-MaxInt, +-(MaxInt-1), MinInt (= -MinInt)
		c.N = pbt.Pick(s, math.MaxInt, math.MinInt, math.MaxInt-1)
	default:
		c.N = pbt.Range(s, 0, n+4)
	}
	if pbt.Bool(s) {
		c.N = -c.N
	}
	return c
}

func dropOutOfEnum(c DropCase, thorough bool) bool {
	return sliceOutOfScope(c.S, thorough) || abs(c.N) > dropMax(thorough)
}

func propDrop(c DropCase, r *pbt.R) error {
	in := els(c.S)
	n := len(in)
	k := abs(c.N) // saturating, so a replayed math.MinInt is handled by the oracle too
	if k > n {
		k = n
	}
	var want []el
	if c.N >= 0 {
		want = in[k:]
	} else {
		want = in[:n-k]
	}
	var got []el
	if p, v := catch(func() { got = gogu.Drop(clone(in), c.N) }); p {
		return fmt.Errorf("Drop(%v, %d) panicked (%v), want %v", in, c.N, v, want)
	}
	if !same(got, want) {
		side := "front"
		if c.N < 0 {
			side = "back"
		}
		return fmt.Errorf("Drop(%v, %d) = %v, want %v (%d elements removed from the %s)", in, c.N, got, want, k, side)
	}
	if n > 0 {
		r.NonTrivial()
		a := abs(c.N)
		r.NonTrivialIf(a == 0, "n == 0")
		r.NonTrivialIf(a == n-1, "|n| == len-1")
		r.NonTrivialIf(a == n, "|n| == len")
		r.NonTrivialIf(a == n+1, "|n| == len+1")
		if c.N < 0 {
			r.Label("from the back")
		} else if c.N > 0 {
			r.Label("from the front")
		}
	}
	return nil
}

// ---------------------------------------------------------------------------
// predicates and the helpers that split by a predicate

const (
	predMask = iota // bit (v & 15) of K
	predLess        // v < K
	predMod3        // v % 3 == K % 3
)

// Pred is an index into the predicate family (never a func: cases are JSON).
type Pred struct {
	Kind int `json:"kind"`
	K    int `json:"k"`
}

func (p Pred) String() string {
	switch p.Kind {
	case predMask:
		var in []string
		for v := 0; v < 16; v++ {
			if p.K>>uint(v)&1 == 1 {
				in = append(in, fmt.Sprint(v))
			}
		}
		return "(v&15) in {" + strings.Join(in, ",") + "}"
	case predLess:
		return fmt.Sprintf("v < %d", p.K)
	default:
		return fmt.Sprintf("v %% 3 == %d", mod(p.K, 3))
	}
}

func mod(a, m int) int { return ((a % m) + m) % m }

func (p Pred) eval(v int) bool {
	switch p.Kind {
	case predMask:
		return p.K>>uint(v&15)&1 == 1
	case predLess:
		return v < p.K
	default:
		return mod(v, 3) == mod(p.K, 3)
	}
}

type SplitCase struct {
	S []int `json:"s"`
	P Pred  `json:"p"`
}

// Enumerated: every one of the 2^alpha predicates on the alphabet (as a membership
// mask), which contains always, never, even, odd, < k and mod 3 == r.
func enumSplit(s pbt.Src, thorough bool) SplitCase {
	_, alpha := scope(thorough)
	c := SplitCase{S: enumSlice(s, thorough)}
	c.P = Pred{Kind: predMask, K: s.Intn(1 << uint(alpha))}
	return c
}

func genSplit(s pbt.Src, thorough bool) SplitCase {
	_, alpha := randBounds(thorough)
	c := SplitCase{S: randSlice(s, thorough)}
	switch s.Intn(3) {
	case 0:
		c.P = Pred{Kind: predMask, K: s.Intn(1 << 16)}
	case 1:
		c.P = Pred{Kind: predLess, K: s.Intn(alpha + 2)}
	default:
		c.P = Pred{Kind: predMod3, K: s.Intn(3)}
	}
	return c
}

// Restricted to an in-scope slice every predicate of the family coincides with an
// enumerated mask, so only the slice decides.
func splitOutOfEnum(c SplitCase, thorough bool) bool { return sliceOutOfScope(c.S, thorough) }

func propSplit(c SplitCase, r *pbt.R) error {
	in := els(c.S)
	// The predicate also looks at the slice the helper was given: a helper that returns a new slice must not
	// rearrange its argument, not even for the duration of the call (Reject works in place and is exempt).
	var arg []el
	disturbed := -1
	var seen el
	f := func(e el) bool {
		if arg != nil && disturbed < 0 && e.I < len(arg) && arg[e.I] != e {
			disturbed, seen = e.I, arg[e.I]
		}
		return c.P.eval(e.V)
	}
	var yes, no []el
	for _, e := range in {
		if c.P.eval(e.V) {
			yes = append(yes, e)
		} else {
			no = append(no, e)
		}
	}
	ctx := func(name string) string { return fmt.Sprintf("%s(%s, %v)", name, short(in), c.P) }
	watch := func() []el { arg = clone(in); disturbed = -1; return arg }
	intact := func(name string) error {
		defer func() { arg = nil }()
		if disturbed >= 0 {
			return fmt.Errorf("%s: while the predicate ran for element %d the argument slice held %v at that index (the helper rearranges its argument during the call)", ctx(name), disturbed, seen)
		}
		if !same(arg, in) {
			return fmt.Errorf("%s left its argument as %s", ctx(name), short(arg))
		}
		return nil
	}

	if p := gogu.Partition(watch(), f); !same(p[0], yes) || !same(p[1], no) {
		return fmt.Errorf("%s = %v, want [%v %v] (satisfying first, each part in input order)", ctx("Partition"), p, yes, no)
	}
	if err := intact("Partition"); err != nil {
		return err
	}
	if got := gogu.Filter(watch(), f); !same(got, yes) {
		return fmt.Errorf("%s = %v, want %v (the satisfying elements in input order)", ctx("Filter"), got, yes)
	}
	if err := intact("Filter"); err != nil {
		return err
	}
	if got := gogu.Reject(clone(in), f); !same(got, no) {
		return fmt.Errorf("%s = %v, want %v (the non-satisfying elements in input order)", ctx("Reject"), got, no)
	}
	if got := gogu.DropWhile(watch(), f); !same(got, no) {
		return fmt.Errorf("%s = %v, want %v (the non-satisfying elements in input order)", ctx("DropWhile"), got, no)
	}
	if err := intact("DropWhile"); err != nil {
		return err
	}
	if got, want := gogu.DropRightWhile(watch(), f), reversed(no); !same(got, want) {
		return fmt.Errorf("%s = %v, want %v (the non-satisfying elements in reverse order)", ctx("DropRightWhile"), got, want)
	}
	if err := intact("DropRightWhile"); err != nil {
		return err
	}

	if len(in) > 0 {
		r.NonTrivial()
		r.NonTrivialIf(len(yes) == 0, "satisfying part empty")
		r.NonTrivialIf(len(no) == 0, "non-satisfying part empty")
		r.NonTrivialIf(len(yes) > 0 && len(no) > 0, "both parts non-empty")
		if len(no) >= 2 {
			r.Label("DropRightWhile result has >= 2 elements")
		}
	}
	return nil
}

// Values that compare equal with == but are told apart by the predicate: +0.0 and -0.0 under math.Signbit.
// (A helper that remembers the predicate's verdict per distinct value would route -0.0 like an earlier +0.0.)
var floatTab = []float64{0, math.Copysign(0, -1), 1.5, -2.5}

func propSplitFloat(c SliceCase, r *pbt.R) error {
	in := make([]float64, len(c.S))
	for i, v := range c.S {
		in[i] = floatTab[mod(v, len(floatTab))]
	}
	bits := func(fs []float64) []uint64 {
		out := make([]uint64, len(fs))
		for i, f := range fs {
			out[i] = math.Float64bits(f)
		}
		return out
	}
	neg := func(f float64) bool { return math.Signbit(f) }
	var yes, no []float64
	for _, f := range in {
		if neg(f) {
			yes = append(yes, f)
		} else {
			no = append(no, f)
		}
	}
	show := func(fs []float64) string { return fmt.Sprintf("%v", fs) }
	if p := gogu.Partition(clone(in), neg); !same(bits(p[0]), bits(yes)) || !same(bits(p[1]), bits(no)) {
		return fmt.Errorf("Partition(%s, Signbit) = [%s %s], want [%s %s] (-0 is negative, +0 is not)", show(in), show(p[0]), show(p[1]), show(yes), show(no))
	}
	if got := gogu.Filter(clone(in), neg); !same(bits(got), bits(yes)) {
		return fmt.Errorf("Filter(%s, Signbit) = %s, want %s", show(in), show(got), show(yes))
	}
	if got := gogu.Reject(clone(in), neg); !same(bits(got), bits(no)) {
		return fmt.Errorf("Reject(%s, Signbit) = %s, want %s", show(in), show(got), show(no))
	}
	if got := gogu.DropWhile(clone(in), neg); !same(bits(got), bits(no)) {
		return fmt.Errorf("DropWhile(%s, Signbit) = %s, want %s", show(in), show(got), show(no))
	}
	if got := gogu.DropRightWhile(clone(in), neg); !same(bits(got), bits(reversed(no))) {
		return fmt.Errorf("DropRightWhile(%s, Signbit) = %s, want %s", show(in), show(got), show(reversed(no)))
	}
	groups := gogu.GroupBy(clone(in), func(f float64) bool { return math.Signbit(f) })
	if !same(bits(groups[true]), bits(yes)) || !same(bits(groups[false]), bits(no)) || len(groups) > 2 {
		return fmt.Errorf("GroupBy(%s, Signbit) = %v, want true:%s false:%s", show(in), groups, show(yes), show(no))
	}
	mapped := gogu.Map(clone(in), func(f float64) bool { return math.Signbit(f) })
	for i, f := range in {
		if i >= len(mapped) || mapped[i] != neg(f) {
			return fmt.Errorf("Map(%s, Signbit) = %v: element %d", show(in), mapped, i)
		}
	}
	pz, nz := false, false
	for _, v := range c.S {
		pz, nz = pz || mod(v, 4) == 0, nz || mod(v, 4) == 1
	}
	r.NonTrivialIf(pz && nz, "holds both +0.0 and -0.0")
	return nil
}

// ---------------------------------------------------------------------------
// GroupBy

const (
	keyConst = iota // 0
	keyIdent        // v
	keyMod2         // v % 2
	keyMod3         // v % 3
	keyHalf         // v / 2
	keyBelow        // 1 if v < K else 0
)

type KeyFn struct {
	Kind int `json:"kind"`
	K    int `json:"k"`
}

func (k KeyFn) String() string {
	switch k.Kind {
	case keyConst:
		return "v -> 0"
	case keyIdent:
		return "v -> v"
	case keyMod2:
		return "v -> v%2"
	case keyMod3:
		return "v -> v%3"
	case keyHalf:
		return "v -> v/2"
	default:
		return fmt.Sprintf("v -> [v < %d]", k.K)
	}
}

func (k KeyFn) eval(v int) int {
	switch k.Kind {
	case keyConst:
		return 0
	case keyIdent:
		return v
	case keyMod2:
		return mod(v, 2)
	case keyMod3:
		return mod(v, 3)
	case keyHalf:
		return v / 2
	default:
		if v < k.K {
			return 1
		}
		return 0
	}
}

type GroupCase struct {
	S []int `json:"s"`
	F KeyFn `json:"f"`
}

// Enumerated key family: const, identity, mod 2, mod 3, halves, and [v < k] for
// k = 1..alpha-1; on the alphabet 0..alpha-1 these are pairwise different functions.
func enumGroup(s pbt.Src, thorough bool) GroupCase {
	_, alpha := scope(thorough)
	c := GroupCase{S: enumSlice(s, thorough)}
	i := s.Intn(5 + alpha - 1)
	if i < 5 {
		c.F = KeyFn{Kind: i}
	} else {
		c.F = KeyFn{Kind: keyBelow, K: i - 4}
	}
	return c
}

func genGroup(s pbt.Src, thorough bool) GroupCase {
	_, alpha := randBounds(thorough)
	c := GroupCase{S: randSlice(s, thorough)}
	i := s.Intn(6)
	c.F = KeyFn{Kind: i}
	if i == keyBelow {
		c.F.K = pbt.Range(s, 1, alpha)
	}
	return c
}

func groupOutOfEnum(c GroupCase, thorough bool) bool {
	_, alpha := scope(thorough)
	return sliceOutOfScope(c.S, thorough) || (c.F.Kind == keyBelow && (c.F.K < 1 || c.F.K > alpha-1))
}

func propGroup(c GroupCase, r *pbt.R) error {
	in := els(c.S)
	want := map[int][]el{}
	for _, e := range in {
		k := c.F.eval(e.V)
		want[k] = append(want[k], e)
	}
	got := gogu.GroupBy(clone(in), func(e el) int { return c.F.eval(e.V) })
	keys := make([]int, 0, len(got))
	for k := range got {
		keys = append(keys, k)
	}
	sort.Ints(keys)
	show := func() string {
		var b strings.Builder
		for _, k := range keys {
			fmt.Fprintf(&b, " %d:%v", k, got[k])
		}
		return "{" + strings.TrimSpace(b.String()) + "}"
	}
	wkeys := make([]int, 0, len(want))
	for k := range want {
		wkeys = append(wkeys, k)
	}
	sort.Ints(wkeys)
	for _, k := range wkeys {
		if !same(got[k], want[k]) {
			return fmt.Errorf("GroupBy(%v, %v) = %s: group %d is %v, want %v (its elements in input order)", in, c.F, show(), k, got[k], want[k])
		}
	}
	for _, k := range keys {
		// A key that no element maps to may only carry an empty group (the statement
		// speaks about where elements go, not about which keys exist).
		if _, ok := want[k]; !ok && len(got[k]) > 0 {
			return fmt.Errorf("GroupBy(%v, %v) = %s: group %d holds %v but no element has that key", in, c.F, show(), k, got[k])
		}
	}
	if len(in) > 0 {
		r.NonTrivial()
		r.NonTrivialIf(len(want) == 1, "single group")
		r.NonTrivialIf(len(want) >= 3, ">= 3 groups")
		inter := false // some group is not a contiguous run of the input
		for _, g := range want {
			if len(g) >= 2 && g[len(g)-1].I-g[0].I != len(g)-1 {
				inter = true
			}
		}
		r.NonTrivialIf(inter, "interleaved groups")
	}
	return nil
}

// ---------------------------------------------------------------------------
// Zip / Unzip

type ZipCase struct {
	M [][]int `json:"m"`
}

func zipBounds(thorough bool) int {
	if thorough {
		return 4
	}
	return 3
}

// Enumerated: r <= side rows, every row with its own length 0..side, entries in {0,1}.
// That contains every square matrix up to side x side and every non-square or
// ragged shape within the same bounds, each once.
func enumZip(s pbt.Src, thorough bool) ZipCase {
	side := zipBounds(thorough)
	m := pbt.Seq(s, 0, side, func(s pbt.Src) []int {
		return pbt.Seq(s, 0, side, func(s pbt.Src) int { return s.Intn(2) })
	})
	return ZipCase{M: m}
}

func genZip(s pbt.Src, thorough bool) ZipCase {
	max := 6
	if thorough {
		max = 9
	}
	n := s.Intn(max + 1)
	if n == 0 {
		// rapid favours small numbers; one redraw keeps the empty call rare
		n = s.Intn(max + 1)
	}
	if s.Intn(12) == 0 {
		// a large square matrix (sides around the block sizes an implementation might tile by)
		n = []int{15, 16, 17, 31, 32, 33, 40, 63, 64, 65, 100}[s.Intn(11)]
		a, b := 1+s.Intn(9), s.Intn(9)
		m := make([][]int, n)
		for i := range m {
			m[i] = make([]int, n)
			for j := range m[i] {
				m[i][j] = (a*i*n + j + b) % 1000
			}
		}
		return ZipCase{M: m}
	}
	ragged := s.Intn(5) == 0
	m := make([][]int, n)
	for i := range m {
		l := n
		if ragged {
			l = s.Intn(max + 1)
		}
		m[i] = make([]int, l)
		for j := range m[i] {
			m[i][j] = s.Intn(100)
		}
	}
	return ZipCase{M: m}
}

func zipOutOfEnum(c ZipCase, thorough bool) bool {
	side := zipBounds(thorough)
	if len(c.M) > side {
		return true
	}
	for _, row := range c.M {
		if len(row) > side {
			return true
		}
		for _, v := range row {
			if v < 0 || v > 1 {
				return true
			}
		}
	}
	return false
}

// transpose of a rectangular r x c matrix (c taken from the first row).
func transpose(m [][]int) [][]int {
	if len(m) == 0 {
		return nil
	}
	out := make([][]int, len(m[0]))
	for j := range out {
		out[j] = make([]int, len(m))
		for i := range m {
			out[j][i] = m[i][j]
		}
	}
	return out
}

func propZip(c ZipCase, r *pbt.R) error {
	m := c.M
	n := len(m)
	rect, square := true, true
	for _, row := range m {
		if len(row) != len(m[0]) {
			rect = false
		}
		if len(row) != n {
			square = false
		}
	}
	if !square {
		// Outside the statement ("a square matrix"). The precondition is enforced by
		// an explicit panic, which is the accepted outcome. A normal return is only
		// accepted when it is the transpose of a rectangular input; there is no
		// transposition of a ragged one.
		kind := "ragged"
		if rect {
			kind = "rectangular non-square"
		}
		r.Label(kind + " input")
		for _, fn := range []struct {
			name string
			call func(...[]int) [][]int
		}{{"Zip", gogu.Zip[int]}, {"Unzip", gogu.Unzip[int]}} {
			var got [][]int
			if p, _ := catch(func() { got = fn.call(clone2(m)...) }); p {
				r.Label("rejected by panic")
				continue
			}
			if rect && same2(got, transpose(m)) {
				r.Label("non-square input transposed")
				continue
			}
			return fmt.Errorf("%s(%v...): the %s input was neither rejected (panic) nor transposed: got %v", fn.name, m, kind, got)
		}
		return nil
	}
	t := transpose(m)
	z := gogu.Zip(clone2(m)...)
	if !same2(z, t) {
		return fmt.Errorf("Zip(%v...) = %v, want the transpose %v", m, z, t)
	}
	u := gogu.Unzip(clone2(m)...)
	if !same2(u, t) {
		return fmt.Errorf("Unzip(%v...) = %v, want the transpose %v", m, u, t)
	}
	if back := gogu.Unzip(clone2(z)...); !same2(back, m) {
		return fmt.Errorf("Unzip(Zip(%v...)...) = %v, want the original matrix (Zip gave %v)", m, back, z)
	}
	if back := gogu.Zip(clone2(u)...); !same2(back, m) {
		return fmt.Errorf("Zip(Unzip(%v...)...) = %v, want the original matrix (Unzip gave %v)", m, back, u)
	}
	if n == 0 {
		r.Label("no arguments")
	}
	if n >= 2 {
		r.NonTrivial()
		r.Label(fmt.Sprintf("square side %d", min(n, 5)))
		r.NonTrivialIf(!same2(m, t), "asymmetric matrix")
	}
	return nil
}

// ---------------------------------------------------------------------------
// Flatten

const (
	nodeLeaf = iota // a bare T
	nodeInts        // a []T
	nodeList        // a []any of nodes
	nodeWin         // a []T that is the window base[Off:Off+Len] of ONE array shared by all window nodes of the case (its capacity reaches to the end of that array)
)

// Node is a JSON-able description of a nesting.
type Node struct {
	Kind int    `json:"kind"`
	V    int    `json:"v,omitempty"`
	Ints []int  `json:"ints,omitempty"`
	Kids []Node `json:"kids,omitempty"`
	Off  int    `json:"off,omitempty"`
	Len  int    `json:"len,omitempty"`
}

type FlatCase struct {
	T Node `json:"t"`
}

// winBase is the length of the array the window nodes of a case share; element i holds winVal(i).
const winBase = 8

func winVal(i int) int { return 500 + i }

func (n Node) win() (off, ln int) {
	off = mod(n.Off, winBase+1)
	ln = mod(n.Len, winBase-off+1)
	return
}

func (n Node) build() any { return n.buildOn(nil) }

// buildOn: base is the shared array of the window nodes (allocated on first use).
func (n Node) buildOn(base *[]int) any {
	if base == nil {
		var b []int
		base = &b
	}
	switch n.Kind {
	case nodeLeaf:
		return n.V
	case nodeInts:
		return clone(n.Ints)
	case nodeWin:
		if *base == nil {
			*base = make([]int, winBase)
			for i := range *base {
				(*base)[i] = winVal(i)
			}
		}
		off, ln := n.win()
		return (*base)[off : off+ln]
	default:
		out := make([]any, len(n.Kids))
		for i, k := range n.Kids {
			out[i] = k.buildOn(base)
		}
		return out
	}
}

func (n Node) leaves(acc []int) []int {
	switch n.Kind {
	case nodeLeaf:
		return append(acc, n.V)
	case nodeInts:
		return append(acc, n.Ints...)
	case nodeWin:
		off, ln := n.win()
		for i := off; i < off+ln; i++ {
			acc = append(acc, winVal(i))
		}
		return acc
	default:
		for _, k := range n.Kids {
			acc = k.leaves(acc)
		}
		return acc
	}
}

// depth counts []any levels; a bare value and a []T are depth 0.
func (n Node) depth() int {
	if n.Kind != nodeList {
		return 0
	}
	d := 0
	for _, k := range n.Kids {
		if kd := k.depth(); kd > d {
			d = kd
		}
	}
	return d + 1
}

func (n Node) String() string {
	switch n.Kind {
	case nodeLeaf:
		return fmt.Sprint(n.V)
	case nodeInts:
		return fmt.Sprintf("[]int%v", n.Ints)
	case nodeWin:
		off, ln := n.win()
		return fmt.Sprintf("base[%d:%d]", off, off+ln)
	default:
		parts := make([]string, len(n.Kids))
		for i, k := range n.Kids {
			parts[i] = k.String()
		}
		return "[]any{" + strings.Join(parts, ", ") + "}"
	}
}

func flatMaxInts(thorough bool) int {
	if thorough {
		return 3
	}
	return 2
}

// enumNode enumerates every nesting of depth <= d whose lists have at most w members
// and whose []int have at most maxInts elements. Leaves are numbered left to right
// (next), so every leaf of an enumerated nesting is distinct and the shape alone
// decides the case.
func enumNode(s pbt.Src, d, w, maxInts int, next *int) Node {
	choices := 2 + maxInts // leaf, []int of length 0..maxInts
	if d > 0 {
		choices += w + 1 // []any with 0..w members
	}
	k := s.Intn(choices)
	switch {
	case k == 0:
		*next++
		return Node{Kind: nodeLeaf, V: *next - 1}
	case k <= 1+maxInts:
		n := Node{Kind: nodeInts, Ints: make([]int, k-1)}
		for i := range n.Ints {
			n.Ints[i] = *next
			*next++
		}
		return n
	default:
		n := Node{Kind: nodeList, Kids: make([]Node, k-2-maxInts)}
		for i := range n.Kids {
			n.Kids[i] = enumNode(s, d-1, w, maxInts, next)
		}
		return n
	}
}

// Enumerated: (a) every nesting of depth <= 3 with lists of <= 2 members;
// (b) every list of exactly 3 (thorough: 3 or 4) members of depth <= 1.
func enumFlat(s pbt.Src, thorough bool) FlatCase {
	maxInts := flatMaxInts(thorough)
	next := 0
	modes := 2
	if thorough {
		modes = 3
	}
	mode := s.Intn(modes)
	if mode == 0 {
		return FlatCase{T: enumNode(s, 3, 2, maxInts, &next)}
	}
	root := Node{Kind: nodeList, Kids: make([]Node, 2+mode)}
	for i := range root.Kids {
		root.Kids[i] = enumNode(s, 1, 2, maxInts, &next)
	}
	return FlatCase{T: root}
}

func genNode(s pbt.Src, d, w, maxInts int) Node {
	kinds := 3
	if d == 0 {
		kinds = 2
	}
	switch s.Intn(kinds) {
	case 0:
		return Node{Kind: nodeLeaf, V: s.Intn(100)}
	case 1:
		return Node{Kind: nodeInts, Ints: pbt.Seq(s, 0, maxInts, func(s pbt.Src) int { return s.Intn(100) })}
	default:
		return Node{Kind: nodeList, Kids: pbt.Seq(s, 0, w, func(s pbt.Src) Node { return genNode(s, d-1, w, maxInts) })}
	}
}

// genChain: a nesting of depth d (7..48): every level is a list holding the next level between optional leaves.
func genChain(s pbt.Src, d int) Node {
	n := Node{Kind: nodeList}
	if pbt.Bool(s) {
		n.Kids = append(n.Kids, Node{Kind: nodeLeaf, V: s.Intn(100)})
	}
	if d > 1 {
		n.Kids = append(n.Kids, genChain(s, d-1))
	} else {
		n.Kids = append(n.Kids, Node{Kind: nodeInts, Ints: []int{s.Intn(100), s.Intn(100)}})
	}
	if pbt.Bool(s) {
		n.Kids = append(n.Kids, Node{Kind: nodeLeaf, V: s.Intn(100)})
	}
	return n
}

// genWindows: a list (possibly nested one level) whose []int members are windows of one shared array, mixed with bare values.
func genWindows(s pbt.Src) Node {
	member := func(s pbt.Src) Node {
		switch s.Intn(4) {
		case 0:
			return Node{Kind: nodeLeaf, V: s.Intn(100)}
		case 1:
			return Node{Kind: nodeList, Kids: pbt.Seq(s, 0, 2, func(s pbt.Src) Node { return Node{Kind: nodeWin, Off: s.Intn(winBase + 1), Len: s.Intn(winBase + 1)} })}
		default:
			return Node{Kind: nodeWin, Off: s.Intn(winBase + 1), Len: s.Intn(winBase + 1)}
		}
	}
	return Node{Kind: nodeList, Kids: pbt.Seq(s, 1, 5, member)}
}

func genFlat(s pbt.Src, thorough bool) FlatCase {
	d, w := 5, 4
	if thorough {
		d, w = 6, 5
	}
	switch s.Intn(8) {
	case 0:
		return FlatCase{T: genChain(s, 7+s.Intn(42))}
	case 1, 2:
		return FlatCase{T: genWindows(s)}
	}
	// mostly start from a list so that the nesting is not a bare terminal
	if s.Intn(8) != 0 {
		return FlatCase{T: Node{Kind: nodeList, Kids: pbt.Seq(s, 0, w, func(s pbt.Src) Node { return genNode(s, d-1, w, 6) })}}
	}
	return FlatCase{T: genNode(s, d, w, 6)}
}

func (n Node) fits(d, w, maxInts int) bool {
	switch n.Kind {
	case nodeLeaf:
		return true
	case nodeInts:
		return len(n.Ints) <= maxInts
	case nodeWin:
		return false
	default:
		if d == 0 || len(n.Kids) > w {
			return false
		}
		for _, k := range n.Kids {
			if !k.fits(d-1, w, maxInts) {
				return false
			}
		}
		return true
	}
}

// Structural (conservative): a random nesting whose shape is enumerated does not count
// as new even though its leaf values differ from the enumerated numbering.
func flatOutOfEnum(c FlatCase, thorough bool) bool {
	maxInts := flatMaxInts(thorough)
	if c.T.fits(3, 2, maxInts) {
		return false
	}
	if c.T.Kind == nodeList && (len(c.T.Kids) == 3 || (thorough && len(c.T.Kids) == 4)) {
		ok := true
		for _, k := range c.T.Kids {
			ok = ok && k.fits(1, 2, maxInts)
		}
		if ok {
			return false
		}
	}
	return true
}

func (n Node) count(kind int) int {
	c := 0
	if n.Kind == kind {
		c = 1
	}
	for _, k := range n.Kids {
		c += k.count(kind)
	}
	return c
}

func (n Node) hasEmpty() bool {
	switch n.Kind {
	case nodeLeaf:
		return false
	case nodeInts:
		return len(n.Ints) == 0
	case nodeWin:
		_, ln := n.win()
		return ln == 0
	default:
		if len(n.Kids) == 0 {
			return true
		}
		for _, k := range n.Kids {
			if k.hasEmpty() {
				return true
			}
		}
		return false
	}
}

func propFlat(c FlatCase, r *pbt.R) error {
	want := c.T.leaves(nil)
	got, err := gogu.Flatten[int](c.T.build())
	if err != nil {
		return fmt.Errorf("Flatten[int](%v) failed with %q; it is a nesting of int, []int and []any only, leaves %v", c.T, err, want)
	}
	if !same(got, want) {
		return fmt.Errorf("Flatten[int](%v) = %v, want the leaves left to right %v", c.T, got, want)
	}
	d := c.T.depth()
	if len(want) >= 2 && d >= 1 {
		r.NonTrivial()
		r.Label(fmt.Sprintf("depth %d", min(d, 4)))
		if d >= 7 {
			r.Label("depth >= 7")
		}
		if c.T.count(nodeWin) >= 2 {
			r.Label(">= 2 []int members that are windows of one array")
		}
		r.NonTrivialIf(c.T.count(nodeInts) > 0 && c.T.count(nodeLeaf) > 0, "mixes bare values and []int")
		r.NonTrivialIf(c.T.hasEmpty(), "contains an empty list")
	}
	return nil
}

// ---------------------------------------------------------------------------
// Merge

type MergeCase struct {
	Parts [][]int `json:"parts"`
}

func enumMerge(s pbt.Src, thorough bool) MergeCase {
	maxParts, maxLen := 4, 3
	if thorough {
		maxParts, maxLen = 5, 3
	}
	return MergeCase{Parts: pbt.Seq(s, 1, maxParts, func(s pbt.Src) []int {
		return pbt.Seq(s, 0, maxLen, func(s pbt.Src) int { return s.Intn(2) })
	})}
}

func genMerge(s pbt.Src, thorough bool) MergeCase {
	maxParts, maxLen := 8, 12
	if thorough {
		maxParts, maxLen = 12, 30
	}
	return MergeCase{Parts: pbt.Seq(s, 1, maxParts, func(s pbt.Src) []int {
		return pbt.Seq(s, 0, maxLen, func(s pbt.Src) int { return s.Intn(10) })
	})}
}

func mergeOutOfEnum(c MergeCase, thorough bool) bool {
	maxParts := 4
	if thorough {
		maxParts = 5
	}
	if len(c.Parts) > maxParts {
		return true
	}
	for _, p := range c.Parts {
		if len(p) > 3 {
			return true
		}
		for _, v := range p {
			if v < 0 || v > 1 {
				return true
			}
		}
	}
	return false
}

func propMerge(c MergeCase, r *pbt.R) error {
	if len(c.Parts) == 0 {
		return nil // Merge needs its first argument
	}
	// elements numbered across all parts: I = position in the concatenation
	parts := make([][]el, len(c.Parts))
	var want []el
	for i, p := range c.Parts {
		parts[i] = make([]el, len(p))
		for j, v := range p {
			parts[i][j] = el{I: len(want), V: v}
			want = append(want, parts[i][j])
		}
	}
	args := clone2(parts)
	got := gogu.Merge(args[0], args[1:]...)
	if !same(got, want) {
		return fmt.Errorf("Merge(%v) = %v, want the concatenation %v", parts, got, want)
	}
	nonEmpty := 0
	for _, p := range parts {
		if len(p) > 0 {
			nonEmpty++
		}
	}
	if nonEmpty >= 2 {
		r.NonTrivial()
		r.NonTrivialIf(nonEmpty < len(parts), "an empty slice among the arguments")
		r.NonTrivialIf(len(parts[0]) == 0, "empty first argument")
		r.NonTrivialIf(len(parts) >= 3, ">= 3 arguments")
	}
	if len(parts) == 1 {
		r.Label("no variadic argument")
	}
	return nil
}

// Merge of arguments that share storage: every argument is a window base[off:off+len] of ONE array of
// Base elements, so the first argument has spare capacity that later arguments may live in, and arguments may overlap.
type MergeWinCase struct {
	Base int      `json:"base"`
	Wins [][2]int `json:"wins"` // (off, len), normalised into the array at execution time
}

func winOf(base int, w [2]int) (off, ln int) {
	off = mod(w[0], base+1)
	ln = mod(w[1], base-off+1)
	return
}

func enumMergeWin(s pbt.Src, thorough bool) MergeWinCase {
	maxBase, maxWins := 4, 3
	if thorough {
		maxBase, maxWins = 5, 4
	}
	c := MergeWinCase{Base: pbt.Range(s, 1, maxBase)}
	// all (off, len) with off+len <= Base: enumerated injectively
	var all [][2]int
	for off := 0; off <= c.Base; off++ {
		for ln := 0; off+ln <= c.Base; ln++ {
			all = append(all, [2]int{off, ln})
		}
	}
	c.Wins = pbt.Seq(s, 1, maxWins, func(s pbt.Src) [2]int { return all[s.Intn(len(all))] })
	return c
}

func genMergeWin(s pbt.Src, thorough bool) MergeWinCase {
	c := MergeWinCase{Base: pbt.Range(s, 1, 40)}
	c.Wins = pbt.Seq(s, 1, 8, func(s pbt.Src) [2]int { return [2]int{s.Intn(c.Base + 1), s.Intn(c.Base + 1)} })
	return c
}

func mergeWinOutOfEnum(c MergeWinCase, thorough bool) bool {
	maxBase, maxWins := 4, 3
	if thorough {
		maxBase, maxWins = 5, 4
	}
	return c.Base > maxBase || len(c.Wins) > maxWins
}

func propMergeWin(c MergeWinCase, r *pbt.R) error {
	if c.Base < 1 || c.Base > 4096 || len(c.Wins) == 0 {
		return nil
	}
	base := make([]el, c.Base)
	for i := range base {
		base[i] = el{I: i, V: i % 5}
	}
	args := make([][]el, len(c.Wins))
	var want []el
	desc := ""
	overlap, inSpare := false, false
	off0, ln0 := winOf(c.Base, c.Wins[0])
	for i, w := range c.Wins {
		off, ln := winOf(c.Base, w)
		args[i] = base[off : off+ln] // capacity reaches to the end of the array
		want = append(want, base[off:off+ln]...)
		desc += fmt.Sprintf(" base[%d:%d]", off, off+ln)
		if i > 0 && ln > 0 {
			if off+ln > off0+ln0 && off < c.Base {
				inSpare = inSpare || off+ln > off0+ln0
			}
			for j := 0; j < i; j++ {
				o2, l2 := winOf(c.Base, c.Wins[j])
				if l2 > 0 && off < o2+l2 && o2 < off+ln {
					overlap = true
				}
			}
		}
	}
	want = clone(want)
	got := gogu.Merge(args[0], args[1:]...)
	if !same(got, want) {
		return fmt.Errorf("Merge(%s ) over one array of %d elements (value@index) = %s, want the concatenation %s of what the arguments held when it was called", desc, c.Base, short(got), short(want))
	}
	nonEmpty := 0
	for _, a := range args {
		if len(a) > 0 {
			nonEmpty++
		}
	}
	if nonEmpty >= 2 {
		r.NonTrivial()
		r.NonTrivialIf(inSpare, "a later argument lies (partly) in the spare capacity of the first")
		r.NonTrivialIf(overlap, "overlapping arguments")
	}
	return nil
}

// ---------------------------------------------------------------------------
// Reverse, ReverseStr, Shuffle

type SliceCase struct {
	S []int `json:"s"`
}

// runes of 1, 2, 3 and 4 bytes; a value v stands for runeTab[v % 16].
var runeTab = []rune{'a', 'é', '世', '😀', 'b', 'ß', '€', '𝄞', ' ', '\u0301', 'Z', '0', 'ñ', '中', '\n', '~'}

func enumSliceCase(s pbt.Src, thorough bool) SliceCase { return SliceCase{S: enumSlice(s, thorough)} }
func genSliceCase(s pbt.Src, thorough bool) SliceCase  { return SliceCase{S: randSlice(s, thorough)} }
func sliceCaseOutOfEnum(c SliceCase, thorough bool) bool {
	return sliceOutOfScope(c.S, thorough)
}

func propPerm(c SliceCase, r *pbt.R) error {
	in := els(c.S)
	n := len(in)

	// Reverse works in place and returns its argument: snapshot the first result
	// before reversing again.
	r1 := clone(gogu.Reverse(clone(in)))
	if want := reversed(in); !same(r1, want) {
		return fmt.Errorf("Reverse(%v) = %v, want %v", in, r1, want)
	}
	if r2 := gogu.Reverse(clone(r1)); !same(r2, in) {
		return fmt.Errorf("Reverse(Reverse(%v)) = %v: not an involution (first result %v)", in, r2, r1)
	}

	// ReverseStr over valid UTF-8 (runes of every encoded width).
	rs := make([]rune, n)
	for i, v := range c.S {
		rs[i] = runeTab[mod(v, len(runeTab))]
	}
	str := string(rs)
	s1 := gogu.ReverseStr(str)
	if want := string(reversed(rs)); s1 != want {
		return fmt.Errorf("ReverseStr(%q) = %q, want %q", str, s1, want)
	}
	if s2 := gogu.ReverseStr(s1); s2 != str {
		return fmt.Errorf("ReverseStr(ReverseStr(%q)) = %q: not an involution (first result %q)", str, s2, s1)
	}

	// Shuffle: whatever the random choices, the result is a permutation of the input.
	moved := false
	for round := 0; round < 2; round++ {
		got := gogu.Shuffle(clone(in))
		if len(got) != n {
			return fmt.Errorf("Shuffle(%v) = %v: %d elements, want %d", in, got, len(got), n)
		}
		seen := make([]int, n)
		for _, e := range got {
			if e.I < 0 || e.I >= n || in[e.I] != e {
				return fmt.Errorf("Shuffle(%v) = %v: %v is not an element of the input", in, got, e)
			}
			seen[e.I]++
		}
		for i, k := range seen {
			if k != 1 {
				return fmt.Errorf("Shuffle(%v) = %v: input element %v occurs %d times, want once", in, got, in[i], k)
			}
		}
		moved = moved || !same(got, in)
	}
	// the same on a wide element type (seven machine words): an implementation may treat wide elements differently
	// (permute indices through a scratch buffer, copy block-wise)
	{
		type wide struct {
			I    int
			Pad  [5]int
			Tail int
		}
		win := make([]wide, n)
		for i, e := range in {
			win[i] = wide{I: i, Pad: [5]int{e.V, i, -i, 7, e.V}, Tail: ^i}
		}
		got := gogu.Shuffle(append([]wide(nil), win...))
		if len(got) != n {
			return fmt.Errorf("Shuffle of %d wide (7-word) elements returned %d elements", n, len(got))
		}
		seen := make([]int, n)
		for _, e := range got {
			if e.I < 0 || e.I >= n || win[e.I] != e {
				return fmt.Errorf("Shuffle of %d wide (7-word) elements: %v is not an element of the input", n, e)
			}
			seen[e.I]++
		}
		for i, k := range seen {
			if k != 1 {
				return fmt.Errorf("Shuffle of %d wide (7-word) elements: input element %d occurs %d times in the result, want once", n, i, k)
			}
		}
	}
	if n >= 2 {
		r.NonTrivial()
		if moved {
			r.Label("Shuffle moved something")
		}
		multi := false
		for _, x := range rs {
			multi = multi || x >= 0x80
		}
		r.NonTrivialIf(multi, "multi-byte runes")
		r.NonTrivialIf(n%2 == 1, "odd length (middle element)")
		r.NonTrivialIf(same(c.S, reversed(c.S)), "palindromic values")
	}
	return nil
}

// ---------------------------------------------------------------------------
// Map, ForEach, ForEachRight, Reduce

func propIter(c SliceCase, r *pbt.R) error {
	in := els(c.S)
	n := len(in)
	limit := 4*n + 8 // bound on logged calls, so that a runaway iteration cannot exhaust memory
	var log []int
	var logMu sync.Mutex // an implementation that calls back from several goroutines must not corrupt the harness
	var arg []el         // the slice handed to the helper that is running
	disturbed := -1      // index at which a callback found the helper's argument rearranged during the call
	var seen el          // what it found there
	note := func(e el) {
		logMu.Lock()
		if len(log) < limit {
			log = append(log, e.I)
		}
		// what the callback sees when it looks at the slice it is iterating over: the helper must not have rearranged it
		if disturbed < 0 && e.I < len(arg) && arg[e.I] != e {
			disturbed, seen = e.I, arg[e.I]
		}
		logMu.Unlock()
	}
	intact := func(name string) error {
		if disturbed >= 0 {
			return fmt.Errorf("%s over %s: while the callback was running for element %d the argument slice held %v at that index (the helper rearranges its argument during the call)", name, short(in), disturbed, seen)
		}
		if !same(arg, in) {
			return fmt.Errorf("%s over %s left its argument as %s", name, short(in), short(arg))
		}
		return nil
	}
	up := make([]int, n)
	for i := range up {
		up[i] = i
	}
	down := reversed(up)
	visits := func(name string, want []int) error {
		if !same(log, want) {
			at := 0
			for at < len(log) && at < len(want) && log[at] == want[at] {
				at++
			}
			return fmt.Errorf("%s over %s visited the indices %s, want %s (every element once, in order; first difference at visit %d)", name, short(in), short(log), short(want), at)
		}
		return nil
	}

	// Map: pure transformation v -> 10*v+1 with a logging side effect.
	log = nil
	arg = clone(in)
	mapped := gogu.Map(arg, func(e el) int { note(e); return 10*e.V + 1 })
	if err := visits("Map", up); err != nil {
		return err
	}
	if err := intact("Map"); err != nil {
		return err
	}
	wantMapped := make([]int, n)
	for i, e := range in {
		wantMapped[i] = 10*e.V + 1
	}
	if !same(mapped, wantMapped) {
		return fmt.Errorf("Map(%v, v -> 10v+1) = %v, want %v", in, mapped, wantMapped)
	}

	log = nil
	arg = clone(in)
	gogu.ForEach(arg, note)
	if err := visits("ForEach", up); err != nil {
		return err
	}
	if err := intact("ForEach"); err != nil {
		return err
	}

	log = nil
	arg = clone(in)
	gogu.ForEachRight(arg, note)
	if err := visits("ForEachRight", down); err != nil {
		return err
	}
	if err := intact("ForEachRight"); err != nil {
		return err
	}

	// Reduce with an order-sensitive accumulator: acc -> 31*acc + v + 1, from 7.
	log = nil
	arg = clone(in)
	red := gogu.Reduce(arg, func(e el, acc int) int { note(e); return 31*acc + e.V + 1 }, 7)
	if err := visits("Reduce", up); err != nil {
		return err
	}
	if err := intact("Reduce"); err != nil {
		return err
	}
	wantRed := 7
	for _, e := range in {
		wantRed = 31*wantRed + e.V + 1
	}
	if red != wantRed {
		return fmt.Errorf("Reduce(%v, acc -> 31*acc+v+1, 7) = %d, want %d", in, red, wantRed)
	}

	if n >= 1 {
		r.NonTrivial()
		r.NonTrivialIf(n == 1, "single element")
		r.NonTrivialIf(n >= 2, ">= 2 elements (order observable)")
	}
	return nil
}

// ---------------------------------------------------------------------------

// ---------------------------------------------------------------------------
// the reshaping helpers are pure: concurrent callers, each with a slice of its own, get what they get alone

type ParCase struct {
	H    int `json:"h"`
	Size int `json:"size"`
	W    int `json:"workers"`
}

var parNames = []string{"ReverseStr", "Reverse(copy)", "Map", "Filter+Reject(copy)", "Partition", "Chunk", "GroupBy", "Flatten", "Zip+Unzip", "Merge", "Drop+DropWhile", "Reduce"}

func parInts(w, size int) []int {
	out := make([]int, size)
	for i := range out {
		out[i] = (i*i*(w+3) + 5*i + w) % 97
	}
	return out
}

func parProp(c ParCase, r *pbt.R) error {
	h := mod(c.H, len(parNames))
	size := 64 + mod(c.Size, 30000)
	workers := 2 + mod(c.W, 7)
	f := func(w int) string {
		in := parInts(w, size)
		switch h {
		case 0:
			rs := make([]rune, size)
			for i, v := range in {
				rs[i] = runeTab[(v+w)%len(runeTab)]
			}
			return pbt.Digest(gogu.ReverseStr(string(rs)))
		case 1:
			return pbt.Digest(gogu.Reverse(clone(in)))
		case 2:
			return pbt.Digest(gogu.Map(in, func(v int) int { return 3*v + w }))
		case 3:
			return pbt.Digest(gogu.Filter(in, func(v int) bool { return v%3 == w%3 })) + pbt.Digest(gogu.Reject(clone(in), func(v int) bool { return v%2 == 0 }))
		case 4:
			return pbt.Digest(gogu.Partition(in, func(v int) bool { return v < 40+w }))
		case 5:
			return pbt.Digest(gogu.Chunk(in, 7+w))
		case 6:
			return pbt.Digest(gogu.GroupBy(in, func(v int) int { return v % (5 + w) }))
		case 7:
			nest := []any{in[:size/3], []any{in[size/3 : size/2], 7, []any{in[size/2:]}}}
			v, err := gogu.Flatten[int](nest)
			return pbt.Digest(fmt.Sprint(v, err))
		case 8:
			n := 40 + w
			m := make([][]int, n)
			for i := range m {
				m[i] = in[(i*n)%(size-n) : (i*n)%(size-n)+n]
			}
			return pbt.Digest(gogu.Unzip(gogu.Zip(m...)...))
		case 9:
			return pbt.Digest(gogu.Merge(in[:size/2], in[size/2:], in[:9]))
		case 10:
			return pbt.Digest(gogu.Drop(in, 5+w)) + pbt.Digest(gogu.DropWhile(in, func(v int) bool { return v > 30 }))
		default:
			return fmt.Sprint(gogu.Reduce(in, func(v, acc int) int { return (31*acc + v) % 1000003 }, w))
		}
	}
	if err := pbt.Concurrently(workers, 4, f); err != nil {
		return fmt.Errorf("%s on inputs of about %d elements: %v", parNames[h], size, err)
	}
	r.NonTrivial()
	r.Label(parNames[h])
	return nil
}

// ViewsCase: one []any "row" is built from Row (entry >= 0: the int itself as a leaf; entry < 0: a []int leaf of -entry
// elements counting up from 100*position); the nesting handed to the helper mentions the row SEVERAL times: the row
// itself, prefixes of it (views of the same array that start at the same element) and a suffix, in the order given by
// Use (each entry e: e%4 == 0 whole row, 1 prefix of length e/4 mod (len+1), 2 suffix from e/4 mod (len+1), 3 the row wrapped
// in one more []any). A nesting may mention one container as often as it likes; every mention contributes its leaves.
type ViewsCase struct {
	Row []int `json:"row"`
	Use []int `json:"use"`
}

func (c ViewsCase) build() (nest []any, leaves []int, desc string) {
	row := make([]any, len(c.Row))
	flat := make([][]int, len(c.Row))
	for i, e := range c.Row {
		if e >= 0 {
			row[i], flat[i] = e, []int{e}
		} else {
			l := make([]int, ((-e)%4)+1)
			for j := range l {
				l[j] = 100*i + j
			}
			row[i], flat[i] = l, l
		}
	}
	sum := func(lo, hi int) []int {
		var out []int
		for i := lo; i < hi; i++ {
			out = append(out, flat[i]...)
		}
		return out
	}
	n := len(row)
	for _, u := range c.Use {
		if u < 0 {
			u = -u
		}
		k := (u / 4) % (n + 1)
		switch u % 4 {
		case 0:
			nest, leaves, desc = append(nest, row), append(leaves, sum(0, n)...), desc+" row"
		case 1:
			nest, leaves, desc = append(nest, row[:k]), append(leaves, sum(0, k)...), desc+fmt.Sprintf(" row[:%d]", k)
		case 2:
			nest, leaves, desc = append(nest, row[k:]), append(leaves, sum(k, n)...), desc+fmt.Sprintf(" row[%d:]", k)
		default:
			nest, leaves, desc = append(nest, []any{row}), append(leaves, sum(0, n)...), desc+" []any{row}"
		}
	}
	return nest, leaves, fmt.Sprintf("row = %v; nesting = []any{%s }", row, desc)
}

func viewsGen(s pbt.Src, thorough bool) ViewsCase {
	max := 5
	if thorough {
		max = 9
	}
	return ViewsCase{
		Row: pbt.Seq(s, 1, max, func(s pbt.Src) int { return pbt.Range(s, -3, 6) }),
		Use: pbt.Seq(s, 1, 4, func(s pbt.Src) int { return s.Intn(40) }),
	}
}

func viewsProp(c ViewsCase, r *pbt.R) error {
	if len(c.Row) > 64 || len(c.Use) > 16 {
		return nil
	}
	nest, leaves, desc := c.build()
	got, err := gogu.Flatten[int](nest)
	if err != nil || !same(got, leaves) {
		return fmt.Errorf("%s: Flatten[int] = %v, %v; want the leaves of every mention, left to right: %v", desc, got, err, leaves)
	}
	r.NonTrivialIf(len(c.Use) >= 2, "the row is mentioned at least twice")
	return nil
}

func TestProp(t *testing.T) {
	const sl = "every slice up to length 7 over the values 0..3 (thorough: length 8 over 0..4)"
	const rnd = "random: slices up to length 40 over up to 12 values (thorough: 120 over 24), half of them over 3 values only"
	const ident = "Elements given to the library are (value, input index) pairs, so positions are observed, not only values. "
	const dist = " Distinct = enumerated cases (injective encoding) + hash-distinct random cases outside the enumerated scope."
	pbt.Run(t, "C12",
		&pbt.Check[ChunkCase]{
			Name: "chunk",
			Rule: ident + "Chunk(s,size) against the statement: chunks concatenate to s, all of length size except a shorter non-empty last one. " +
				"Enumerated: " + sl + " x every size -1..8 (thorough ..10); " + rnd + ", size small, around len, huge (MaxInt-2..MaxInt) or anywhere in -1..len+3. " +
				"size <= 0 must be rejected by a panic (or, for the empty slice only, answered with no chunks). " +
				"Non-trivial = non-empty slice and size >= 1 (labels: len%size==0, size>len, short last chunk)." + dist,
			Enum: enumChunk, Gen: genChunk, Prop: propChunk, OutOfEnum: chunkOutOfEnum,
			RapidQuick: 1200, RapidThorough: 30000,
			Fixed: []ChunkCase{
				{S: []int{0, 1, 2, 3, 4, 5}, Size: 3}, {S: []int{0, 1, 2, 3, 4, 5}, Size: 6}, {S: []int{0, 1, 2, 3, 4, 5}, Size: 7},
				{S: []int{0, 1, 2, 3, 4, 5, 6}, Size: 3}, {S: []int{}, Size: 1}, {S: []int{0, 1}, Size: 0},
			},
		},
		&pbt.Check[DropCase]{
			Name: "drop",
			Rule: ident + "Drop(s,n) against: n>0 removes min(n,len) elements from the front, n<0 min(|n|,len) from the back, n=0 nothing. " +
				"Enumerated: " + sl + " x every n in -9..9 (thorough -11..11); " + rnd + ", |n| within 2 of len, anywhere in 0..len+4, or extreme (MaxInt, MaxInt-1, MinInt), either sign; fixed cases: n in {MinInt, MinInt+1, MaxInt} on slices of length 0, 1, 3. " +
				"Non-trivial = non-empty slice (labels: |n| in {0, len-1, len, len+1}, side)." + dist,
			Enum: enumDrop, Gen: genDrop, Prop: propDrop, OutOfEnum: dropOutOfEnum,
			RapidQuick: 1200, RapidThorough: 30000,
			Fixed: []DropCase{
				// |n| >= len for the extreme counts (math.MinInt has no positive counterpart; MinInt+1 == -MaxInt)
				{S: []int{0, 1, 2}, N: math.MinInt}, {S: []int{0, 1, 2}, N: math.MinInt + 1}, {S: []int{0, 1, 2}, N: -math.MaxInt}, {S: []int{0, 1, 2}, N: math.MaxInt},
				{S: []int{}, N: math.MinInt}, {S: []int{}, N: math.MaxInt}, {S: []int{3}, N: math.MinInt}, {S: []int{3}, N: math.MinInt + 1},
			},
		},
		&pbt.Check[SplitCase]{
			Name: "split",
			Rule: ident + "Partition, Filter, Reject (on a copy), DropWhile, DropRightWhile against the two reference sub-sequences (satisfying / not satisfying, input order): " +
				"Partition = [yes, no], Filter = yes, Reject = DropWhile = no, DropRightWhile = no reversed. " +
				"Enumerated: " + sl + " x every one of the 16 (32) predicates on the alphabet (membership masks; includes always, never, even, <k, mod 3); " +
				rnd + " with a 16-bit membership mask on v&15, v<k or v%3==r. Non-trivial = non-empty slice (labels: which part is empty)." + dist,
			Enum: enumSplit, Gen: genSplit, Prop: propSplit, OutOfEnum: splitOutOfEnum,
			RapidQuick: 1200, RapidThorough: 30000,
		},
		&pbt.Check[SliceCase]{
			Name: "split-signed-zero",
			Rule: "Partition, Filter, Reject, DropWhile, DropRightWhile, GroupBy and Map on float64 slices over {+0.0, -0.0, 1.5, -2.5} with math.Signbit as predicate / key: +0.0 == -0.0, yet the predicate tells them apart, so each element must be routed by the predicate's answer for THAT element (results compared bit-wise). " +
				sl + "; " + rnd + ". Non-trivial = the slice holds both zeros.",
			Enum: enumSliceCase, Gen: genSliceCase, Prop: propSplitFloat, OutOfEnum: sliceCaseOutOfEnum,
			RapidQuick: 300, RapidThorough: 5000,
		},
		&pbt.Check[GroupCase]{
			Name: "groupby",
			Rule: ident + "GroupBy(s,key): every key that occurs maps to exactly the elements with that key in input order; any other key may only hold an empty group. " +
				"Enumerated: " + sl + " x key functions {0, v, v%2, v%3, v/2, [v<k] for k=1..3 (..4)}; " + rnd + " with the same family, k up to the alphabet size. " +
				"Non-trivial = non-empty slice (labels: single group, >=3 groups, interleaved groups)." + dist,
			Enum: enumGroup, Gen: genGroup, Prop: propGroup, OutOfEnum: groupOutOfEnum,
			RapidQuick: 1200, RapidThorough: 30000,
		},
		&pbt.Check[ZipCase]{
			Name: "zip",
			Rule: "Zip(m...) = Unzip(m...) = transpose(m) and Unzip(Zip(m)) = Zip(Unzip(m)) = m for square m (no arguments: empty result). " +
				"Enumerated: up to 3 (thorough 4) rows, every row with its own length 0..3 (0..4), entries in {0,1}: all square matrices up to 3x3 (4x4) plus every non-square and ragged shape in the bounds; " +
				"random: side up to 6 (9), entries 0..99, one in five with independent row lengths. Non-square input: a panic is the accepted rejection; a normal return must be the transpose of a rectangular input. " +
				"Non-trivial = square matrix of side >= 2 (label: asymmetric)." + dist,
			Enum: enumZip, Gen: genZip, Prop: propZip, OutOfEnum: zipOutOfEnum,
			RapidQuick: 1200, RapidThorough: 30000,
		},
		&pbt.Check[FlatCase]{
			Name: "flatten",
			Rule: "Flatten[int](nesting) = leaves left to right, no error, for nestings built from int, []int and []any (depth = number of []any levels). " +
				"Enumerated (leaves numbered left to right, so the shape is the case): every nesting of depth <= 3 with lists of <= 2 members and []int of <= 2 (thorough 3) elements, " +
				"plus every list of exactly 3 (thorough: 3 or 4) members of depth <= 1; random: depth <= 5 (6), lists of <= 4 (5) members, []int of <= 6, values 0..99. " +
				"Non-trivial = at least one []any level and >= 2 leaves. Distinct = enumerated cases + hash-distinct random cases whose shape is outside the enumerated shapes.",
			Enum: enumFlat, Gen: genFlat, Prop: propFlat, OutOfEnum: flatOutOfEnum,
			RapidQuick: 1200, RapidThorough: 30000,
		},
		&pbt.Check[MergeCase]{
			Name: "merge",
			Rule: "Merge(p0, p1..pk) = concatenation (elements numbered across all arguments). Enumerated: 1..4 (thorough 5) arguments of length 0..3 over {0,1}; " +
				"random: up to 8 (12) arguments of length up to 12 (30). Non-trivial = at least two non-empty arguments." + dist,
			Enum: enumMerge, Gen: genMerge, Prop: propMerge, OutOfEnum: mergeOutOfEnum,
			RapidQuick: 1200, RapidThorough: 30000,
		},
		&pbt.Check[MergeWinCase]{
			Name: "merge-windows",
			Rule: "Merge(a0, a1...) where every argument is a window base[off:off+len] of ONE array (so the first argument has spare capacity in which later arguments may live, and arguments may overlap): the result must be the concatenation of what the arguments held at the call. " +
				"Enumerated: arrays of 1..4 (thorough 5) elements x 1..3 (4) windows, every (off,len); random: arrays up to 40 elements, up to 8 windows. Non-trivial = >= 2 non-empty arguments.",
			Enum: enumMergeWin, Gen: genMergeWin, Prop: propMergeWin, OutOfEnum: mergeWinOutOfEnum,
			RapidQuick: 600, RapidThorough: 8000,
		},
		&pbt.Check[SliceCase]{
			Name: "perm",
			Rule: ident + "Reverse (on a copy; result snapshotted) equals the reference reversal and applied twice gives the input back; ReverseStr likewise on the valid UTF-8 string whose runes are runeTab[v%16] " +
				"(1- to 4-byte runes; invalid UTF-8 is outside the scope: a string has no characters to reverse there); Shuffle (called twice, and once more on a 7-word struct element type) returns every input element exactly once. " +
				"Enumerated: " + sl + "; " + rnd + ". Non-trivial = length >= 2." + dist,
			Enum: enumSliceCase, Gen: genSliceCase, Prop: propPerm, OutOfEnum: sliceCaseOutOfEnum,
			RapidQuick: 1200, RapidThorough: 30000,
		},
		&pbt.Check[SliceCase]{
			Name: "iter",
			Rule: ident + "Map, ForEach, ForEachRight, Reduce with a callback that logs the index of the element it is given: the log must be 0..len-1 (ForEachRight: len-1..0), each once; " +
				"Map's result is f(s[i]) at i for the pure f = 10v+1, Reduce's result is the left fold of acc -> 31*acc+v+1 from 7. " +
				"Enumerated: " + sl + "; " + rnd + ". Non-trivial = non-empty slice." + dist,
			Enum: enumSliceCase, Gen: genSliceCase, Prop: propIter, OutOfEnum: sliceCaseOutOfEnum,
			RapidQuick: 1200, RapidThorough: 30000,
		},
		&pbt.Check[ViewsCase]{
			Name: "flatten-views",
			Rule: "Flatten[int] of a nesting that mentions ONE []any container several times: the container itself, prefixes of it (views of one array that start at the same element), suffixes, and the container wrapped once more; the result lists the leaves of every mention left to right, without an error. Random: rows of 1..5 (9) entries, 1..4 mentions. Non-trivial = at least two mentions.",
			Gen: viewsGen, Prop: viewsProp, OutOfEnum: func(ViewsCase, bool) bool { return true },
			RapidQuick: 1500, RapidThorough: 20000,
		},
		&pbt.Check[ParCase]{
			Name: "parallel",
			Rule: "the reshaping helpers are pure functions: 2..8 goroutines call one of ReverseStr, Reverse, Map, Filter+Reject, Partition, Chunk, GroupBy, Flatten, Zip+Unzip (40..46 rows), Merge, Drop+DropWhile, Reduce at the same time (real scheduler), each on an input of its own of 64..30000 elements, four times; every answer must equal the answer of the same call running alone. Non-trivial = every case.",
			Gen:        func(s pbt.Src, _ bool) ParCase { return ParCase{H: s.Intn(len(parNames)), Size: pbt.Pick(s, 200, 3000, 30000), W: s.Intn(7)} },
			Prop:       parProp,
			OutOfEnum:  func(ParCase, bool) bool { return true },
			RapidQuick: 12, RapidThorough: 150,
		},
	)
}

// ---------------------------------------------------------------------------
// native fuzzing (thorough tier extra; never part of quick):
//
//	cd /verif/harness && go1.26.8 test -tags verif -run '^$' -fuzz '^FuzzReshape$' -fuzztime 60s ./props/c12/
//
// The first byte selects the helper, the remaining bytes are the choice list of the
// same generators the random search uses (pbt.ListSrc), so a crasher is a Chunk /
// Drop / Flatten case and its message prints the case.
func FuzzReshape(f *testing.F) {
	// chunk: [narrow alphabet?][len][elements...][size mode of 12][size choice]
	f.Add([]byte{0, 1, 6, 0, 1, 2, 0, 1, 2, 0, 2})    // Chunk(6 elements, 3)
	f.Add([]byte{0, 0, 7, 5, 4, 3, 2, 1, 0, 9, 3, 2}) // Chunk(7 elements, 7)
	f.Add([]byte{0, 1, 2, 0, 1, 6, 1})                // Chunk(2 elements, MaxInt-1)
	// drop: [narrow alphabet?][len][elements...][mode of 12][count choice][negative?]
	f.Add([]byte{1, 1, 5, 0, 1, 2, 0, 1, 5, 2, 0}) // Drop(5 elements, 2)
	f.Add([]byte{1, 0, 4, 9, 8, 7, 6, 0, 2, 1})    // Drop(4 elements, -4)
	f.Add([]byte{1, 1, 3, 0, 1, 2, 4, 0, 1})       // Drop(3 elements, -MaxInt)
	f.Add([]byte{1, 1, 3, 0, 1, 2, 4, 1, 0})       // Drop(3 elements, MinInt)
	// flatten: [root is a list?][members][kind, ...] recursively
	f.Add([]byte{2, 1, 3, 0, 7, 1, 2, 8, 9, 2, 2, 0, 1, 2, 1, 1, 1, 5}) // []any{7, []int{8,9}, []any{1, []any{[]int{5}}}}
	f.Add([]byte{2, 0, 1, 3, 1, 2, 3})                                  // []int{1,2,3}
	f.Fuzz(func(t *testing.T, data []byte) {
		if len(data) == 0 {
			return
		}
		choices := make([]int, len(data)-1)
		for i, b := range data[1:] {
			choices[i] = int(b)
		}
		src := &pbt.ListSrc{Choices: choices}
		var r pbt.R
		var err error
		var c any
		switch data[0] % 3 {
		case 0:
			cc := genChunk(src, true)
			c, err = cc, propChunk(cc, &r)
		case 1:
			cc := genDrop(src, true)
			c, err = cc, propDrop(cc, &r)
		default:
			cc := genFlat(src, true)
			c, err = cc, propFlat(cc, &r)
		}
		if err != nil {
			t.Fatalf("case %+v: %v", c, err)
		}
	})
}
