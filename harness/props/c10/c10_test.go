// C10: B-tree behaves as an ordered map and stays balanced.
//
// Three sub-checks share one executor (type tree): every call made on the
// btree.BTree is mirrored on an array-backed map model, and the observers
// named by the property (Get, Size, IsEmpty, Height, Traverse) are compared
// with what the model predicts.
//
//	small  - every Put/Remove/Get/Traverse sequence up to a length bound over keys 0..5
//	orders - every insertion order of n distinct keys (all permutations)
//	long   - histories over hundreds of keys put in sorted, reversed, shuffled and
//	         zigzag order mixed with removes, double removes, overwrites and re-puts
package c10

import (
	"cmp"
	"fmt"
	"math"
	"runtime/debug"
	"strings"
	"testing"

	"github.com/esimov/gogu/btree"
	"verif/pbt"
)

// ---------------------------------------------------------------------------
// operations

const (
	opPut = iota
	opRemove
	opGet
	opTraverse
)

// Op is one call. The value put is never part of a case: every Put stores a
// fresh value (see tree.next), so "the last value put" is unambiguous.
type Op struct {
	Kind int `json:"kind"`
	Key  int `json:"key"`
}

func (o Op) String() string {
	switch o.Kind {
	case opPut:
		return fmt.Sprintf("Put(%d)", o.Key)
	case opRemove:
		return fmt.Sprintf("Remove(%d)", o.Key)
	case opGet:
		return fmt.Sprintf("Get(%d)", o.Key)
	case opTraverse:
		return "Traverse"
	}
	return fmt.Sprintf("?%d(%d)", o.Kind, o.Key)
}

// ---------------------------------------------------------------------------
// executor: the tree under test next to its model

type stopTraverse struct{}

// tree couples a btree.BTree[int,int] with a map model over the key universe
// lo .. lo+len(val)-1 (an array, so that the ascending order of Traverse is a
// plain scan and no map iteration order is involved).
type tree struct {
	t    *btree.BTree[int, int]
	lo   int
	val  []int  // current value of a live key
	live []bool // put and not since removed
	ever []bool // put at least once
	size int    // number of live keys
	n    int    // number of distinct keys ever put (N of the height bound)
	next int    // next fresh value
	maxH int    // largest Height() seen
	// what the history exercised (for the evidence labels)
	overwrite, getRemoved, rmAbsent, rmRemoved, reput bool
}

func newTree(lo, hi int) *tree {
	if hi < lo {
		hi = lo
	}
	w := hi - lo + 1
	return &tree{t: btree.New[int, int](), lo: lo, val: make([]int, w), live: make([]bool, w), ever: make([]bool, w), next: 1000}
}

func (x *tree) put(k int) {
	i := k - x.lo
	v := x.next
	x.next++
	switch {
	case x.live[i]:
		x.overwrite = true
	case x.ever[i]:
		x.reput = true
		x.size++
	default:
		x.ever[i] = true
		x.n++
		x.size++
	}
	x.live[i], x.val[i] = true, v
	x.t.Put(k, v)
}

func (x *tree) remove(k int) {
	i := k - x.lo
	switch {
	case x.live[i]:
		x.live[i] = false
		x.size--
	case x.ever[i]:
		x.rmRemoved = true
	default:
		x.rmAbsent = true
	}
	x.t.Remove(k)
}

// checkGet compares Get(k) with the model. For an absent key only the flag is
// compared: the statement says "reports absence" and nothing about the value.
func (x *tree) checkGet(k int) error {
	gv, gok := x.t.Get(k)
	in := k >= x.lo && k <= x.lo+len(x.val)-1 // no k-lo before this: k may be an extreme int
	i := 0
	if in {
		i = k - x.lo
	}
	if in && x.live[i] {
		if !gok || gv != x.val[i] {
			return fmt.Errorf("Get(%d) = (%d,%v), want (%d,true)", k, gv, gok, x.val[i])
		}
		return nil
	}
	why := "never put"
	if in && x.ever[i] {
		x.getRemoved = true
		why = "removed"
	}
	if gok {
		return fmt.Errorf("Get(%d) = (%d,true), want absent (key %s)", k, gv, why)
	}
	return nil
}

// checkCounters compares Size, IsEmpty and the height bound. The bound is the
// one of the statement, Height <= log2(max(1, N)), decided in integers:
// for h >= 1, h <= log2(N) iff 2^h <= N; h <= 0 satisfies it for every N.
func (x *tree) checkCounters() error {
	if s := x.t.Size(); s != x.size {
		return fmt.Errorf("Size() = %d, want %d", s, x.size)
	}
	if e := x.t.IsEmpty(); e != (x.size == 0) {
		return fmt.Errorf("IsEmpty() = %v with %d live keys", e, x.size)
	}
	h := x.t.Height()
	if h > x.maxH {
		x.maxH = h
	}
	nn := x.n
	if nn < 1 {
		nn = 1
	}
	if h > 0 && (h > 60 || 1<<uint(h) > nn) {
		return fmt.Errorf("Height() = %d exceeds log2(max(1,N)) with N = %d distinct keys ever put (2^%d > %d)", h, x.n, h, nn)
	}
	return nil
}

func pairs(ks, vs []int, from int) string {
	var b strings.Builder
	b.WriteByte('[')
	if from > 0 {
		fmt.Fprintf(&b, "...%d more... ", from)
	}
	for i := from; i < len(ks); i++ {
		if i >= from+10 {
			fmt.Fprintf(&b, "...%d more...", len(ks)-i)
			break
		}
		fmt.Fprintf(&b, "%d:%d ", ks[i], vs[i])
	}
	return strings.TrimRight(b.String(), " ") + "]"
}

// checkTraverse compares the key/value sequence Traverse produces with the
// live keys of the model in ascending order. The callback is bounded: one
// visit more than the model holds is already a violation, so the walk is cut
// shortly after that (a damaged structure must not keep the check busy).
func (x *tree) checkTraverse() error {
	limit := x.size + 4
	gk := make([]int, 0, x.size)
	gv := make([]int, 0, x.size)
	cut := false
	func() {
		defer func() {
			if p := recover(); p != nil {
				if _, ok := p.(stopTraverse); !ok {
					panic(p)
				}
				cut = true
			}
		}()
		x.t.Traverse(func(k, v int) {
			if len(gk) >= limit {
				panic(stopTraverse{})
			}
			gk = append(gk, k)
			gv = append(gv, v)
		})
	}()
	wk := make([]int, 0, x.size)
	wv := make([]int, 0, x.size)
	for i, l := range x.live {
		if l {
			wk = append(wk, x.lo+i)
			wv = append(wv, x.val[i])
		}
	}
	bad := -1
	for j := 0; j < len(wk) && j < len(gk); j++ {
		if gk[j] != wk[j] || gv[j] != wv[j] {
			bad = j
			break
		}
	}
	if bad < 0 && len(gk) != len(wk) {
		bad = len(wk)
		if len(gk) < bad {
			bad = len(gk)
		}
	}
	if bad >= 0 {
		from := bad - 3
		if from < 0 {
			from = 0
		}
		more := ""
		if cut {
			more = " (walk cut off)"
		}
		return fmt.Errorf("Traverse visited %d entries%s, want %d; first difference at position %d: got key:value %s, want %s",
			len(gk), more, len(wk), bad, pairs(gk, gv, from), pairs(wk, wv, from))
	}
	return nil
}

// sweep is the full observation: Get of every key of the universe, of one
// never-put key on either side of it and of the two extreme ints (never put
// either), Size/IsEmpty/Height, Traverse.
func (x *tree) sweep() error {
	for k := x.lo - 1; k <= x.lo+len(x.val); k++ {
		if err := x.checkGet(k); err != nil {
			return err
		}
	}
	for _, k := range [2]int{math.MinInt, math.MaxInt} {
		if err := x.checkGet(k); err != nil {
			return err
		}
	}
	if err := x.checkCounters(); err != nil {
		return err
	}
	return x.checkTraverse()
}

// apply performs one operation; obs is the amount of extra observation:
// 0 = counters only, 1 = also Get of the touched key and its two neighbours, 2 = full sweep.
func (x *tree) apply(o Op, obs int) error {
	switch o.Kind {
	case opPut:
		x.put(o.Key)
	case opRemove:
		x.remove(o.Key)
	case opGet:
		if err := x.checkGet(o.Key); err != nil {
			return err
		}
	case opTraverse:
		if err := x.checkTraverse(); err != nil {
			return err
		}
	default:
		return fmt.Errorf("malformed case: operation kind %d", o.Kind)
	}
	switch {
	case obs >= 2:
		return x.sweep()
	case obs == 1 && o.Kind != opTraverse:
		for k := o.Key - 1; k <= o.Key+1; k++ {
			if err := x.checkGet(k); err != nil {
				return err
			}
		}
	}
	return x.checkCounters()
}

// labels records what the history exercised; it returns whether any of the
// situations that make a case non-trivial occurred.
func (x *tree) labels(r *pbt.R) bool {
	nt := false
	for _, l := range []struct {
		c bool
		s string
	}{
		{x.overwrite, "Put of a live key (overwrite)"},
		{x.getRemoved, "Get of a removed key"},
		{x.rmRemoved, "Remove of an already removed key"},
		{x.rmAbsent, "Remove of a never-put key"},
		{x.reput, "re-Put after Remove"},
		{x.maxH >= 1, "root split"},
	} {
		if l.c {
			nt = true
			r.NonTrivialIf(true, l.s)
		}
	}
	if x.maxH >= 2 {
		r.Label(fmt.Sprintf("height reached %s", bucket(x.maxH)))
	}
	return nt
}

func bucket(h int) string {
	switch {
	case h <= 3:
		return fmt.Sprint(h)
	case h <= 5:
		return "4-5"
	case h <= 7:
		return "6-7"
	}
	return ">=8"
}

// ---------------------------------------------------------------------------
// sub-check "small": every operation sequence over a few keys

// Case is an operation sequence, run after an optional preset prefix.
type Case struct {
	// Pre selects a prefix of Puts executed first: 0 none, 1 Put 1,3,5 (the root
	// leaf is full: the next new key splits it), 2 Put 0..5 ascending (root split
	// done, three leaves of two keys).
	Pre int `json:"pre"`
	// Obs is the extra observation after every operation (see tree.apply). The
	// enumeration uses 0: observations happen through the explicit Get and
	// Traverse operations and the final sweep only.
	Obs int  `json:"obs"`
	Ops []Op `json:"ops"`
}

var presets = [][]int{nil, {1, 3, 5}, {0, 1, 2, 3, 4, 5}}

const smallKeys = 6

func genOp(s pbt.Src, nkeys int) Op {
	i := s.Intn(3*nkeys + 1)
	if i == 3*nkeys {
		return Op{Kind: opTraverse}
	}
	return Op{Kind: i / nkeys, Key: i % nkeys}
}

func smallLen(thorough bool) int {
	if thorough {
		return 6
	}
	return 5
}

func enumSmall(s pbt.Src, thorough bool) Case {
	c := Case{Pre: s.Intn(len(presets))}
	c.Ops = pbt.Seq(s, 0, smallLen(thorough), func(s pbt.Src) Op { return genOp(s, smallKeys) })
	return c
}

func genSmall(s pbt.Src, thorough bool) Case {
	c := Case{Pre: s.Intn(len(presets)), Obs: s.Intn(3)}
	nkeys := pbt.Pick(s, 6, 7, 10, 20, 60, 200)
	if nkeys > 20 && c.Obs == 2 {
		c.Obs = 1 // a full sweep after every operation is quadratic; keep it for the narrow universes
	}
	max := 150
	if thorough {
		max = 400
	}
	c.Ops = pbt.Seq(s, 0, max, func(s pbt.Src) Op { return genOp(s, nkeys) })
	return c
}

func smallOutOfEnum(c Case, thorough bool) bool {
	if c.Obs != 0 || len(c.Ops) > smallLen(thorough) {
		return true
	}
	for _, o := range c.Ops {
		if o.Key >= smallKeys {
			return true
		}
	}
	return false
}

func propSmall(c Case, r *pbt.R) error {
	pre := c.Pre
	if pre < 0 || pre >= len(presets) {
		pre = 0
	}
	hi := smallKeys - 1
	for _, o := range c.Ops {
		if o.Key < 0 {
			return fmt.Errorf("malformed case: negative key %d", o.Key)
		}
		if o.Key > hi {
			hi = o.Key
		}
	}
	x := newTree(0, hi)
	if err := x.sweep(); err != nil {
		return fmt.Errorf("fresh tree: %v", err)
	}
	for i, k := range presets[pre] {
		if err := x.apply(Op{Kind: opPut, Key: k}, 0); err != nil {
			return fmt.Errorf("after preset Puts %v: %v", presets[pre][:i+1], err)
		}
	}
	for i, o := range c.Ops {
		if err := x.apply(o, c.Obs); err != nil {
			return fmt.Errorf("after preset Puts %v, ops %v: %v", presets[pre], c.Ops[:i+1], err)
		}
	}
	if err := x.sweep(); err != nil {
		return fmt.Errorf("after preset Puts %v, ops %v: final sweep: %v", presets[pre], c.Ops, err)
	}
	x.labels(r)
	if len(c.Ops) > 0 {
		r.Label("preset " + []string{"none", "1,3,5", "0..5"}[pre])
	}
	return nil
}

// ---------------------------------------------------------------------------
// sub-check "orders": every insertion order

// OrderCase is an insertion order of distinct keys.
type OrderCase struct {
	Keys []int `json:"keys"`
}

func ordersMax(thorough bool) int {
	if thorough {
		return 10
	}
	return 9
}

func perm(s pbt.Src, n int) []int {
	pool := make([]int, n)
	for i := range pool {
		pool[i] = i
	}
	out := make([]int, 0, n)
	for len(pool) > 0 {
		j := s.Intn(len(pool))
		out = append(out, pool[j])
		pool = append(pool[:j], pool[j+1:]...)
	}
	return out
}

func enumOrders(s pbt.Src, thorough bool) OrderCase {
	return OrderCase{Keys: perm(s, s.Intn(ordersMax(thorough)+1))}
}

func genOrders(s pbt.Src, thorough bool) OrderCase {
	max := 96
	if thorough {
		max = 200
	}
	return OrderCase{Keys: perm(s, pbt.Range(s, ordersMax(thorough)+1, max))}
}

func ordersOutOfEnum(c OrderCase, thorough bool) bool { return len(c.Keys) > ordersMax(thorough) }

// propOrders puts the keys in the given order and observes after every Put;
// then it removes the keys put at even positions, removes them a second time,
// and puts every key again in reverse order (re-put of removed keys,
// overwrite of live ones), with a full sweep after each of these phases.
func propOrders(c OrderCase, r *pbt.R) error {
	n := len(c.Keys)
	lo, hi := 0, 0
	for i, k := range c.Keys {
		if i == 0 || k < lo {
			lo = k
		}
		if i == 0 || k > hi {
			hi = k
		}
	}
	if hi-lo > 1<<16 {
		return fmt.Errorf("malformed case: key range %d..%d", lo, hi)
	}
	x := newTree(lo, hi)
	obs := 1
	if n <= 16 {
		obs = 2
	}
	if err := x.sweep(); err != nil {
		return fmt.Errorf("fresh tree: %v", err)
	}
	for i, k := range c.Keys {
		if err := x.apply(Op{Kind: opPut, Key: k}, obs); err != nil {
			return fmt.Errorf("after Put of %v in this order: %v", c.Keys[:i+1], err)
		}
	}
	if err := x.sweep(); err != nil {
		return fmt.Errorf("after Put of %v in this order: %v", c.Keys, err)
	}
	for round := 1; round <= 2; round++ {
		for i := 0; i < n; i += 2 {
			if err := x.apply(Op{Kind: opRemove, Key: c.Keys[i]}, 1); err != nil {
				return fmt.Errorf("after Put of %v in this order, then Remove (round %d) of the keys at positions 0,2,..,%d: %v", c.Keys, round, i, err)
			}
		}
		if err := x.sweep(); err != nil {
			return fmt.Errorf("after Put of %v in this order, then %d round(s) of Remove of the keys at the even positions: %v", c.Keys, round, err)
		}
	}
	for i := n - 1; i >= 0; i-- {
		if err := x.apply(Op{Kind: opPut, Key: c.Keys[i]}, 1); err != nil {
			return fmt.Errorf("after Put of %v in this order, two rounds of Remove of the keys at the even positions, then Put again of positions %d..%d (descending): %v", c.Keys, n-1, i, err)
		}
	}
	if err := x.sweep(); err != nil {
		return fmt.Errorf("after Put of %v in this order, two rounds of Remove of the keys at the even positions, then Put of every key again in reverse order: %v", c.Keys, err)
	}
	r.NonTrivialIf(x.maxH >= 1, "root split")
	if x.maxH >= 2 {
		r.Label("height reached " + bucket(x.maxH))
	}
	return nil
}

// ---------------------------------------------------------------------------
// sub-check "long": histories over hundreds of keys

// Phase applies one kind of operation to the keys Lo, Lo+Step, .., Lo+(N-1)*Step
// in a given order.
type Phase struct {
	Kind  int `json:"kind"`  // opPut, opRemove, opGet
	Order int `json:"order"` // 0 ascending, 1 descending, 2 shuffled (Fisher-Yates driven by Seed), 3 zigzag (lowest, highest, second lowest, ..)
	Lo    int `json:"lo"`
	N     int `json:"n"`
	Step  int `json:"step"`
	Seed  int `json:"seed"`
}

var orderNames = []string{"ascending", "descending", "shuffled", "zigzag"}

func (p Phase) String() string {
	o := "?"
	if p.Order >= 0 && p.Order < len(orderNames) {
		o = orderNames[p.Order]
		if p.Order == 2 {
			o += fmt.Sprintf("(seed %d)", p.Seed)
		}
	}
	k := "?"
	if p.Kind >= opPut && p.Kind <= opGet {
		k = []string{"Put", "Remove", "Get"}[p.Kind]
	}
	return fmt.Sprintf("%s %d keys %d,%d,.. %s", k, p.N, p.Lo, p.Lo+p.Step, o)
}

// LongCase is a sequence of phases.
type LongCase struct {
	Phases []Phase `json:"phases"`
}

func (p Phase) norm() Phase {
	clamp := func(v, lo, hi int) int {
		if v < lo {
			return lo
		}
		if v > hi {
			return hi
		}
		return v
	}
	p.Kind = clamp(p.Kind, opPut, opGet)
	p.Order = clamp(p.Order, 0, 3)
	p.Lo = clamp(p.Lo, 0, 1<<14)
	p.N = clamp(p.N, 0, 4096)
	p.Step = clamp(p.Step, 1, 8)
	return p
}

// keys expands a (normalised) phase into its key sequence. The shuffle is a
// Fisher-Yates walk driven by splitmix64 over the case's Seed field, so the
// order is a pure function of the case.
func (p Phase) keys() []int {
	ks := make([]int, p.N)
	for i := range ks {
		ks[i] = p.Lo + i*p.Step
	}
	switch p.Order {
	case 1:
		for i, j := 0, len(ks)-1; i < j; i, j = i+1, j-1 {
			ks[i], ks[j] = ks[j], ks[i]
		}
	case 2:
		z := uint64(p.Seed)*0x9E3779B97F4A7C15 + 0x1234567
		for i := len(ks) - 1; i > 0; i-- {
			z += 0x9E3779B97F4A7C15
			v := z
			v = (v ^ (v >> 30)) * 0xBF58476D1CE4E5B9
			v = (v ^ (v >> 27)) * 0x94D049BB133111EB
			v ^= v >> 31
			j := int(v % uint64(i+1))
			ks[i], ks[j] = ks[j], ks[i]
		}
	case 3:
		out := make([]int, 0, len(ks))
		for i, j := 0, len(ks)-1; i <= j; i, j = i+1, j-1 {
			out = append(out, ks[i])
			if j != i {
				out = append(out, ks[j])
			}
		}
		ks = out
	}
	return ks
}

func longMaxN(thorough bool) int {
	if thorough {
		return 1500
	}
	return 600
}

func genLong(s pbt.Src, thorough bool) LongCase {
	maxN := longMaxN(thorough)
	first := Phase{Kind: opPut, Order: s.Intn(4), Lo: s.Intn(64), N: pbt.Range(s, 100, maxN), Step: 1 + s.Intn(2), Seed: s.Intn(1 << 16)}
	rest := pbt.Seq(s, 0, 6, func(s pbt.Src) Phase {
		return Phase{Kind: s.Intn(3), Order: s.Intn(4), Lo: s.Intn(700), N: pbt.Range(s, 1, maxN), Step: 1 + s.Intn(3), Seed: s.Intn(1 << 16)}
	})
	return LongCase{Phases: append([]Phase{first}, rest...)}
}

// fixedLong: for every order, 600 keys put in that order, half of them removed
// (shuffled), everything removed (half of it for the second time), everything
// put again ascending, overwritten descending, and looked up.
func fixedLong() []LongCase {
	var out []LongCase
	for o := 0; o < 4; o++ {
		out = append(out, LongCase{Phases: []Phase{
			{Kind: opPut, Order: o, Lo: 0, N: 600, Step: 1, Seed: 7},
			{Kind: opRemove, Order: 2, Lo: 0, N: 300, Step: 2, Seed: 11},
			{Kind: opRemove, Order: 1, Lo: 0, N: 600, Step: 1},
			{Kind: opPut, Order: 0, Lo: 0, N: 600, Step: 1},
			{Kind: opPut, Order: 1, Lo: 0, N: 600, Step: 1},
			{Kind: opGet, Order: 3, Lo: 0, N: 601, Step: 1},
		}})
	}
	return out
}

func propLong(c LongCase, r *pbt.R) error {
	ph := make([]Phase, len(c.Phases))
	lo, hi := 0, 0
	first := true
	for i, p := range c.Phases {
		ph[i] = p.norm()
		if ph[i].N == 0 {
			continue
		}
		a, b := ph[i].Lo, ph[i].Lo+(ph[i].N-1)*ph[i].Step
		if first || a < lo {
			lo = a
		}
		if first || b > hi {
			hi = b
		}
		first = false
	}
	x := newTree(lo, hi)
	if err := x.sweep(); err != nil {
		return fmt.Errorf("fresh tree: %v", err)
	}
	for i, p := range ph {
		ks := p.keys()
		for j, k := range ks {
			if err := x.apply(Op{Kind: p.Kind, Key: k}, 1); err != nil {
				from := j - 5
				if from < 0 {
					from = 0
				}
				return fmt.Errorf("phases %v, in phase %d at its operation %d (keys %d.. of the phase: %v): %v", ph[:i+1], i, j, from, ks[from:j+1], err)
			}
		}
		if err := x.sweep(); err != nil {
			return fmt.Errorf("after phases %v: %v", ph[:i+1], err)
		}
	}
	// Non-trivial: the history made the tree at least three levels deep (a split
	// propagated through an internal node and split the root again).
	r.NonTrivialIf(x.maxH >= 2, "multi-level split")
	r.Label("height reached " + bucket(x.maxH))
	if len(ph) > 0 {
		r.Label("first phase " + orderNames[ph[0].Order])
	}
	if x.getRemoved {
		r.Label("Get of a removed key")
	}
	if x.rmRemoved {
		r.Label("Remove of an already removed key")
	}
	if x.rmAbsent {
		r.Label("Remove of a never-put key")
	}
	if x.reput {
		r.Label("re-Put after Remove")
	}
	if x.overwrite {
		r.Label("Put of a live key (overwrite)")
	}
	if x.n >= 600 {
		r.Label("N >= 600")
	}
	return nil
}

// ---------------------------------------------------------------------------

// ---------------------------------------------------------------------------
// other instantiations: the same map semantics with string, float64 and uint8 keys and struct values

// TypesCase: Ops are (kind, key code) pairs: kind 0 Put(fresh value), 1 Remove, 2 Get; the key code c (0..N-1) is mapped to a
// key of the chosen type by an order-preserving function. KT: 0 string ("k007"), 1 float64 (c/4 - 3, incl. -0.25, 0),
// 2 uint8 (3*c), 3 string with a multi-byte prefix ("é" + ...), 4..6 float64 keys that are consecutive representable
// values (at 0.3, at 1e300, subnormals from zero): equality up to a tolerance would merge them.
type TypesCase struct {
	KT  int      `json:"kt"`
	N   int      `json:"n"`
	Ops [][2]int `json:"ops"`
}

type tval struct {
	A int
	B string
}

func runTypes[K cmp.Ordered](c TypesCase, mk func(int) K, r *pbt.R) error {
	n := c.N
	if n < 1 || n > 512 || len(c.Ops) > 5000 {
		return nil
	}
	t := btree.New[K, tval]()
	model := map[int]tval{}
	ever := map[int]bool{}
	next := 0
	name := []string{"string", "float64", "uint8", "string with multi-byte prefix", "float64 (neighbouring values at 0.3)", "float64 (neighbouring values at 1e300)", "float64 (subnormals)"}[c.KT]
	for i, op := range c.Ops {
		k := ((op[1] % n) + n) % n
		switch ((op[0] % 3) + 3) % 3 {
		case 0:
			next++
			v := tval{A: next, B: fmt.Sprint("v", next)}
			t.Put(mk(k), v)
			model[k] = v
			ever[k] = true
		case 1:
			t.Remove(mk(k))
			delete(model, k)
		default:
			got, ok := t.Get(mk(k))
			want, wok := model[k]
			if ok != wok || (ok && got != want) {
				return fmt.Errorf("btree.New[%s, struct] after %d of ops %v: Get(%v) = (%v, %v), want (%v, %v)", name, i+1, c.Ops, mk(k), got, ok, want, wok)
			}
		}
		if t.Size() != len(model) || t.IsEmpty() != (len(model) == 0) {
			return fmt.Errorf("btree.New[%s, struct] after %d of ops %v: Size() = %d, IsEmpty() = %v, want %d keys", name, i+1, c.Ops, t.Size(), t.IsEmpty(), len(model))
		}
	}
	for k := 0; k < n; k++ {
		got, ok := t.Get(mk(k))
		want, wok := model[k]
		if ok != wok || (ok && got != want) {
			return fmt.Errorf("btree.New[%s, struct] after ops %v: Get(%v) = (%v, %v), want (%v, %v)", name, c.Ops, mk(k), got, ok, want, wok)
		}
	}
	var keys []K
	bad := ""
	t.Traverse(func(k K, v tval) {
		if len(keys) <= len(model)+4 {
			keys = append(keys, k)
		}
	})
	if len(keys) != len(model) {
		bad = fmt.Sprintf("visits %d keys, want %d", len(keys), len(model))
	}
	for i := 1; i < len(keys) && bad == ""; i++ {
		if !(keys[i-1] < keys[i]) {
			bad = fmt.Sprintf("visits %v before %v", keys[i-1], keys[i])
		}
	}
	if bad != "" {
		return fmt.Errorf("btree.New[%s, struct] after ops %v: Traverse %s", name, c.Ops, bad)
	}
	if h, e := t.Height(), len(ever); e >= 1 && 1<<uint(h) > maxInt(1, e) {
		return fmt.Errorf("btree.New[%s, struct] after ops %v: Height() = %d exceeds log2 of the %d distinct keys ever put", name, c.Ops, h, e)
	}
	r.NonTrivialIf(len(ever) >= 5, ">= 5 distinct keys (a split happened)")
	return nil
}

func maxInt(a, b int) int {
	if a > b {
		return a
	}
	return b
}

func typesProp(c TypesCase, r *pbt.R) error {
	switch ((c.KT % 7) + 7) % 7 {
	case 4:
		// consecutive representable values: 0.3, 0.1+0.2, ... are different keys
		return runTypes(c, func(i int) float64 { return math.Float64frombits(math.Float64bits(0.3) + uint64(i)) }, r)
	case 5:
		return runTypes(c, func(i int) float64 { return math.Float64frombits(math.Float64bits(1e300) + uint64(i)) }, r)
	case 6:
		// 0, 5e-324, 1e-323, ...: zero and the smallest subnormals
		return runTypes(c, func(i int) float64 { return math.Float64frombits(uint64(i)) }, r)
	case 0:
		return runTypes(c, func(i int) string { return fmt.Sprintf("k%03d", i) }, r)
	case 1:
		// key code 12 is zero: it is spelled -0.0 and +0.0 in turn (one key: they are equal)
		flip := false
		return runTypes(c, func(i int) float64 {
			if i == 12 {
				flip = !flip
				if flip {
					return math.Copysign(0, -1)
				}
				return 0
			}
			return float64(i)/4 - 3
		}, r)
	case 2:
		return runTypes(c, func(i int) uint8 { return uint8(i % 85 * 3) }, r)
	default:
		return runTypes(c, func(i int) string { return "é" + strings.Repeat("z", i/26) + string(rune('a'+i%26)) }, r)
	}
}

func typesGen(s pbt.Src, thorough bool) TypesCase {
	c := TypesCase{KT: s.Intn(7), N: pbt.Pick(s, 3, 6, 20, 80)}
	if c.KT == 2 && c.N > 80 {
		c.N = 80
	}
	max := 150
	if thorough {
		max = 600
	}
	c.Ops = pbt.Seq(s, 1, max, func(s pbt.Src) [2]int { return [2]int{pbt.Pick(s, 0, 0, 0, 1, 2), s.Intn(c.N)} })
	return c
}

// ---------------------------------------------------------------------------
// ptrvalues: values are pointers (identity matters, equal contents do not); Remove of the key being visited from inside
// the Traverse callback (the repository's own test drains its tree that way)

// PtrCase: Ops are (kind, key): kind 0 Put(k, a NEW pointer to the integer k%3), 1 Remove(k), 2 Get(k), 3 Traverse whose
// callback removes every visited key that is a multiple of the op's key+2 (the model removes the same keys).
type PtrCase struct {
	N   int      `json:"n"`
	Ops [][2]int `json:"ops"`
}

func ptrProp(c PtrCase, r *pbt.R) error {
	n := c.N
	if n < 1 || n > 512 || len(c.Ops) > 5000 {
		return nil
	}
	t := btree.New[int, *int]()
	model := map[int]*int{}
	rePut, drained := false, false
	for i, op := range c.Ops {
		k := ((op[1] % n) + n) % n
		ctx := func() string {
			return fmt.Sprintf("btree.New[int, *int] over keys 0..%d, after %d of ops %v (0 Put a new pointer to k%%3, 1 Remove, 2 Get, 3 Traverse removing the visited multiples of k+2)", n-1, i+1, c.Ops)
		}
		switch ((op[0] % 4) + 4) % 4 {
		case 0:
			v := new(int)
			*v = k % 3
			if old, ok := model[k]; ok && *old == *v {
				rePut = true
			}
			t.Put(k, v)
			model[k] = v
		case 1:
			t.Remove(k)
			delete(model, k)
		case 2:
			got, ok := t.Get(k)
			want, wok := model[k]
			if ok != wok || (ok && got != want) {
				return fmt.Errorf("%s: Get(%d) = (%p, %v), want the pointer put last (%p, %v); both point to %d", ctx(), k, got, ok, want, wok, k%3)
			}
		default:
			m := k + 2
			var seen []int
			bad := ""
			t.Traverse(func(key int, val *int) {
				if len(seen) > len(model)+4 {
					return
				}
				seen = append(seen, key)
				if want, ok := model[key]; !ok || want != val {
					if bad == "" {
						bad = fmt.Sprintf("visits key %d with %p, the model has (%p, present %v)", key, val, want, ok)
					}
					return
				}
				if key%m == 0 {
					t.Remove(key)
					delete(model, key)
					drained = true
				}
			})
			if bad != "" {
				return fmt.Errorf("%s: Traverse %s; visited %v", ctx(), bad, seen)
			}
			for j := 1; j < len(seen); j++ {
				if seen[j-1] >= seen[j] {
					return fmt.Errorf("%s: Traverse visited %v: not ascending, or a key twice", ctx(), seen)
				}
			}
		}
		if t.Size() != len(model) || t.IsEmpty() != (len(model) == 0) {
			return fmt.Errorf("%s: Size() = %d, IsEmpty() = %v, want %d keys", ctx(), t.Size(), t.IsEmpty(), len(model))
		}
	}
	for k := 0; k < n; k++ {
		got, ok := t.Get(k)
		want, wok := model[k]
		if ok != wok || (ok && got != want) {
			return fmt.Errorf("btree.New[int, *int] after ops %v: Get(%d) = (%p, %v), want (%p, %v)", c.Ops, k, got, ok, want, wok)
		}
	}
	cnt := 0
	t.Traverse(func(key int, val *int) {
		if want, ok := model[key]; ok && want == val {
			cnt++
		} else {
			cnt += 1000000
		}
	})
	if cnt != len(model) {
		return fmt.Errorf("btree.New[int, *int] after ops %v: the final Traverse does not visit exactly the %d present keys with their current pointers", c.Ops, len(model))
	}
	r.NonTrivialIf(rePut, "a live key was put again with another pointer to an equal integer")
	if drained {
		r.Label("the Traverse callback removed a visited key")
	}
	return nil
}

func TestProp(t *testing.T) {
	// Millions of tiny short-lived cases on a live heap of a few kilobytes: with the default
	// setting the collector runs every 4 MB of allocation and dominates the run time.
	defer debug.SetGCPercent(debug.SetGCPercent(1600))
	pbt.Run(t, "C10",
		&pbt.Check[Case]{
			Name: "small",
			Rule: "operation sequences (Put(k, fresh value), Remove(k), Get(k) for k in 0..5, and Traverse: 19 operations) on btree.New[int,int]() against an array-backed map model, " +
				"each run after one of three preset prefixes (none; Put 1,3,5 = full root leaf; Put 0..5 = root already split). Size, IsEmpty and Height <= log2(max(1,N)) are checked after every " +
				"operation (preset Puts included), Get/Traverse operations against the model, and a full sweep (Get of keys -1..6 and of the two extreme ints, counters, Traverse) opens and closes every case. " +
				"Enumerated: every sequence up to length 5 (thorough 6) for each preset. Random: up to 150 (400) operations over 6..200 keys with 0/1/2 levels of extra observation after every operation. " +
				"Non-trivial = the history contains at least one of: Put of a live key, a checked Get of a removed key, Remove of a removed key, Remove of a never-put key, re-Put after Remove, a root split (Height >= 1; the preset 0..5 brings one along). " +
				"Distinct = enumerated cases (injective encoding) + hash-distinct random cases outside the enumerated scope.",
			Enum: enumSmall, Gen: genSmall, Prop: propSmall, OutOfEnum: smallOutOfEnum,
			RapidQuick: 1500, RapidThorough: 15000,
		},
		&pbt.Check[OrderCase]{
			Name: "orders",
			Rule: "insertion orders: the keys 0..n-1 are put in a given order with a full sweep (Get of every key and both neighbours of the range, Size, IsEmpty, Height bound, Traverse) after every Put, " +
				"then the keys put at even positions are removed, removed again, and every key is put again in reverse order, with a sweep after each phase. " +
				"Enumerated: every permutation for n = 0..9 (thorough 0..10). Random: permutations of 10..96 (11..200) keys (Lehmer code drawn from the source; sweep after every Put only up to n = 16, " +
				"Get of the touched key and its neighbours otherwise). Non-trivial = the root split (n >= 4).",
			Enum: enumOrders, Gen: genOrders, Prop: propOrders, OutOfEnum: ordersOutOfEnum,
			RapidQuick: 600, RapidThorough: 6000,
		},
		&pbt.Check[LongCase]{
			Name: "long",
			Rule: "phase histories: a first phase puts 100..600 (thorough ..1500) keys in ascending, descending, shuffled or zigzag order, followed by 0..6 phases that Put, Remove or Get " +
				"1..600 (..1500) keys of an overlapping arithmetic range in one of these orders. After every operation: Size, IsEmpty, Height <= log2(max(1,N)), Get of the touched key and its two neighbours; " +
				"after every phase: Get of every key of the universe, Traverse. Random only (no enumeration) plus four fixed 600-key histories (one per order). " +
				"Non-trivial = Height reached 2 or more (a split propagated through an internal level).",
			Gen: genLong, Prop: propLong, OutOfEnum: func(LongCase, bool) bool { return true },
			RapidQuick: 250, RapidThorough: 2500,
			Fixed: fixedLong(),
		},
		&pbt.Check[PtrCase]{
			Name: "ptrvalues",
			Rule: "btree.New[int, *int]: every Put stores a NEW pointer to the integer k%3, so a live key is regularly put again with a different pointer to an equal integer: Get and Traverse must hand out the pointer put last (identity). One operation in six is a Traverse whose callback removes the visited keys that are multiples of a number (as the repository's own test drains its tree), after earlier removals have left tombstones; " +
				"Size/IsEmpty after every operation, Get of every key and a Traverse at the end. Random: up to 120 (500) operations over 3..40 keys. Non-trivial = a re-Put with an equal-looking value happened.",
			Gen: func(s pbt.Src, thorough bool) PtrCase {
				max := 120
				if thorough {
					max = 500
				}
				c := PtrCase{N: pbt.Pick(s, 3, 6, 12, 40)}
				c.Ops = pbt.Seq(s, 1, max, func(s pbt.Src) [2]int { return [2]int{pbt.Pick(s, 0, 0, 0, 1, 2, 3), s.Intn(c.N)} })
				return c
			},
			Prop: ptrProp, OutOfEnum: func(PtrCase, bool) bool { return true },
			RapidQuick: 600, RapidThorough: 8000,
		},
		&pbt.Check[TypesCase]{
			Name: "types",
			Rule: "the same map semantics on other instantiations: btree.New[K, struct] with K = string (\"k007\"), float64 (c/4-3, negative, fractional and zero keys, the zero spelled -0.0 and +0.0 in turn; consecutive representable values at 0.3, at 1e300 and from zero up through the subnormals), uint8 and strings with a multi-byte prefix; random Put/Remove/Get sequences of up to 150 (600) operations over 3..80 keys against a Go map: Get, Size, IsEmpty after every operation, ascending Traverse and the height bound at the end. Non-trivial = >= 5 distinct keys.",
			Gen:  typesGen, Prop: typesProp, OutOfEnum: func(TypesCase, bool) bool { return true },
			RapidQuick: 400, RapidThorough: 5000,
		},
	)
}
