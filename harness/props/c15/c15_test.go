// C15: String helpers cut, pad, wrap and re-case without losing or inventing text.
//
// Sub-checks (one case type each, so that a replay file names the exact call):
//
//	substr  Substr(s, offset, length)        against a byte-level reference of the PHP substr rules
//	split   SplitAtIndex(s, index)           two parts, concatenation = input
//	pad     Pad / PadLeft / PadRight         unchanged if long enough, else exact length, input in place, padding = prefix of token^k
//	wrap    Wrap / Unwrap / WrapAllRune      round trip, identity on unwrapped strings, per-rune wrapping
//	case    ToLower / ToUpper / Capitalize / ReverseStr   rune-wise unicode mapping, rune reversal
//	styles  CamelCase / SnakeCase / KebabCase  the clauses listed in the statement, nothing more
package c15

import (
	"encoding/hex"
	"encoding/json"
	"fmt"
	"hash/fnv"
	"math"
	"os"
	"path/filepath"
	"runtime/debug"
	"strings"
	"testing"
	"unicode"
	"unicode/utf8"

	"github.com/esimov/gogu"
	"verif/pbt"
)

// ---------------------------------------------------------------------------
// Str: a string that survives the JSON round trip even when it is not valid UTF-8.

// Str is written as a plain JSON string when it is valid UTF-8 and as {"hex": "..."} otherwise.
type Str string

func (s Str) MarshalJSON() ([]byte, error) {
	if utf8.ValidString(string(s)) {
		return json.Marshal(string(s))
	}
	return json.Marshal(map[string]string{"hex": hex.EncodeToString([]byte(s))})
}

func (s *Str) UnmarshalJSON(b []byte) error {
	var plain string
	if err := json.Unmarshal(b, &plain); err == nil {
		*s = Str(plain)
		return nil
	}
	var h struct {
		Hex string `json:"hex"`
	}
	if err := json.Unmarshal(b, &h); err != nil {
		return err
	}
	raw, err := hex.DecodeString(h.Hex)
	if err != nil {
		return err
	}
	*s = Str(raw)
	return nil
}

// try runs f and turns a panic into an error that names the call.
func try[T any](what func() string, f func() T) (out T, err error) {
	defer func() {
		if p := recover(); p != nil {
			err = fmt.Errorf("%s panicked: %v", what(), p)
		}
	}()
	return f(), nil
}

// ---------------------------------------------------------------------------
// scopes

type scope struct {
	alpha    []string // alphabet of the enumerated strings (one rune each)
	maxLen   int      // in runes
	tokAlpha []string // alphabet of the enumerated tokens
	maxTok   int      // in runes
	sizeHi   int      // pad sizes len-3 .. len+sizeHi
	styleMax int      // length of the enumerated case-style inputs
}

// The alphabet mixes ASCII (a lower-case letter, an upper-case letter, a digit), the
// two-byte rune 'ö' and the token characters '-' and the apostrophe; every token character
// is also a text character, so tokens occur inside, at the start and at the end of the text.
var (
	quickScope = scope{
		alpha: []string{"a", "B", "1", "ö", "-", "'"}, maxLen: 5,
		tokAlpha: []string{"'", "-", "a", "ö"}, maxTok: 2,
		sizeHi: 3, styleMax: 6,
	}
	thoroughScope = scope{
		alpha: []string{"a", "B", "1", "ö", "-", "'", "€"}, maxLen: 6,
		tokAlpha: []string{"'", "-", "a", "ö", "€"}, maxTok: 2,
		sizeHi: 6, styleMax: 7,
	}
	styleAlpha = []string{"a", "b", "C", "1", " ", "-", "_", "&"}
)

func scopeOf(thorough bool) scope {
	if thorough {
		return thoroughScope
	}
	return quickScope
}

var extremes = []int{math.MinInt, math.MinInt + 1, math.MaxInt - 1, math.MaxInt}

// enumString enumerates every string of 0..max symbols of alpha. All shards walk the whole
// choice tree, so the odometer path avoids allocations: it draws the same choices as
// pbt.Seq (length first, then the symbols) and memoises the last string built, which the
// depth-first walk asks for again on every leaf below it. The memo is a pure function of
// the choices drawn.
func enumString(s pbt.Src, alpha []string, max int) string {
	od, ok := s.(*pbt.Odometer)
	if !ok || max > len(lastEnum.key) {
		parts := pbt.Seq(s, 0, max, func(s pbt.Src) string { return alpha[s.Intn(len(alpha))] })
		return strings.Join(parts, "")
	}
	n := od.Intn(max + 1)
	var key [8]int8
	for i := 0; i < n; i++ {
		key[i] = int8(od.Intn(len(alpha)))
	}
	if lastEnum.ok && lastEnum.n == n && lastEnum.key == key && lastEnum.alpha == &alpha[0] {
		return lastEnum.val
	}
	var b strings.Builder
	for i := 0; i < n; i++ {
		b.WriteString(alpha[key[i]])
	}
	lastEnum.ok, lastEnum.n, lastEnum.key, lastEnum.alpha, lastEnum.val = true, n, key, &alpha[0], b.String()
	return lastEnum.val
}

var lastEnum struct {
	ok    bool
	n     int
	key   [8]int8
	alpha *string
	val   string
}

// enumWindow enumerates -(n+3)..n+3 and the four int extremes (all distinct).
func enumWindow(s pbt.Src, n int) int {
	w := 2*n + 7
	k := s.Intn(w + len(extremes))
	if k < w {
		return k - (n + 3)
	}
	return extremes[k-w]
}

func inWindow(v, n int) bool {
	if v >= -(n+3) && v <= n+3 {
		return true
	}
	for _, e := range extremes {
		if v == e {
			return true
		}
	}
	return false
}

// inAlphabet reports whether str consists of at most max symbols of alpha.
func inAlphabet(str string, alpha []string, max int) bool {
	if !utf8.ValidString(str) || utf8.RuneCountInString(str) > max {
		return false
	}
	for _, r := range str {
		ok := false
		for _, a := range alpha {
			if a == string(r) {
				ok = true
				break
			}
		}
		if !ok {
			return false
		}
	}
	return true
}

// ---------------------------------------------------------------------------
// random generators (rapid): longer strings over a wider alphabet

var (
	// valid UTF-8 symbols: the enumerated alphabet, more ASCII, separators, quotes,
	// 2-, 3- and 4-byte runes, cased and uncased, NUL and newline
	wideSyms = []string{"a", "B", "1", "ö", "-", "'", "a", "'", "-", "z", "Z", "9", " ", "_", "&", "*", "\"", ".",
		// characters that mean something to formatting, pattern and escaping machinery an implementation might route text through
		"%", "%s", "%%", "\\", "$", "$1", "^", "+", "?", "(", "[", "{", "|", "\t",
		"é", "Ö", "ß", "я", "Σ", "€", "ⓐ", "世", "𐐨", "😀", "\x00", "\n"}
	// byte fragments that make the string invalid UTF-8 (only for the byte-level helpers)
	rawSyms = []string{"\xc3", "\xb6", "\xff", "\x80", "\xe2\x82", "\xf0\x90"}
	// runes with remarkable case mappings (length-changing, title case != upper case, no mapping)
	caseSyms = []string{"a", "Z", "ö", "Ö", "ß", "ǆ", "ǅ", "Ǆ", "ı", "İ", "ſ", "K", "ⱥ", "Ⱥ", "σ", "ς", "Σ", "я", "Я",
		"ⓐ", "Ⓐ", "𐐨", "𐐀", "世", "1", " ", "-", "€", "ǈ", "ᾳ", "ŉ", "ﬁ", "ͅ", "µ"}
)

// longLens: byte lengths around which an implementation might switch strategy (buffers, block copies).
var longLens = []int{255, 256, 257, 1000, 1023, 1024, 1025, 4095, 4096, 4097, 10000, 65536}

func genText(s pbt.Src, max int, raw bool) string {
	// one text in fourteen is long: a short random unit repeated up to one of longLens bytes
	if max >= 8 && s.Intn(14) == 0 {
		unit := genText(s, 6, raw)
		if unit == "" {
			unit = "a"
		}
		n := longLens[s.Intn(len(longLens))]
		return strings.Repeat(unit, n/len(unit)+1)[:n/len(unit)*len(unit)]
	}
	parts := pbt.Seq(s, 0, max, func(s pbt.Src) string {
		n := len(wideSyms)
		if raw {
			n += len(rawSyms)
		}
		k := s.Intn(n)
		if k < len(wideSyms) {
			return wideSyms[k]
		}
		return rawSyms[k-len(wideSyms)]
	})
	return strings.Join(parts, "")
}

// genToken draws a token of 0..3 symbols, or (more interesting) a byte range of the text itself.
func genToken(s pbt.Src, text string, minSyms int, raw bool) string {
	if len(text) > 0 && s.Intn(3) == 0 {
		i := s.Intn(len(text))
		j := i + 1 + s.Intn(3)
		if j > len(text) {
			j = len(text)
		}
		if raw || utf8.ValidString(text[i:j]) {
			return text[i:j]
		}
	}
	n := pbt.Range(s, minSyms, 3)
	var b strings.Builder
	for i := 0; i < n; i++ {
		k := s.Intn(len(wideSyms) + 2)
		switch {
		case k < len(wideSyms):
			b.WriteString(wideSyms[k])
		case raw:
			b.WriteString(rawSyms[s.Intn(len(rawSyms))])
		default:
			b.WriteString("'")
		}
	}
	return b.String()
}

// genInt draws an integer around a string of n bytes: mostly a window, sometimes
// values next to the int extremes (where offset+length overflows), sometimes powers of two.
func genInt(s pbt.Src, n int) int {
	switch s.Intn(6) {
	case 0:
		return math.MaxInt - s.Intn(n+4)
	case 1:
		return math.MinInt + s.Intn(n+4)
	case 2:
		v := 1 << uint(s.Intn(63))
		if pbt.Bool(s) {
			return -v
		}
		return v
	default:
		return pbt.Range(s, -(n + 6), n+6)
	}
}

// ---------------------------------------------------------------------------
// substr

type SubstrCase struct {
	S   Str `json:"s"`
	Off int `json:"offset"`
	Len int `json:"length"`
}

// refSubstr is a byte-level reading of the PHP substr rules named by the doc comment
// and the statement. alt reports the one corner that is left open: a negative offset
// that reaches before the start of the string. PHP clamps it to the start; the
// statement says "out-of-range selections give the empty string"; both are accepted.
func refSubstr(s string, off, length int) (want string, alt bool) {
	n := len(s)
	start := off
	if off < 0 {
		if off < -n {
			alt = true
			start = 0
		} else {
			start = n + off
		}
	}
	if start > n {
		return "", alt // the string is shorter than offset
	}
	end := n
	if length < 0 {
		if length < -n {
			return "", alt
		}
		end = n + length // that many bytes omitted from the end
		if end < start {
			return "", alt
		}
	} else if length < n-start {
		end = start + length
	}
	return s[start:end], alt
}

func cutsRune(s string, i int) bool {
	return i > 0 && i < len(s) && !utf8.RuneStart(s[i])
}

func substrProp(c SubstrCase, r *pbt.R) error {
	s := string(c.S)
	what := func() string { return fmt.Sprintf("Substr(%q, %d, %d)", s, c.Off, c.Len) }
	got, err := try(what, func() string { return gogu.Substr(s, c.Off, c.Len) })
	if err != nil {
		return err
	}
	want, alt := refSubstr(s, c.Off, c.Len)
	if got != want && !(alt && got == "") {
		if alt {
			return fmt.Errorf("%s = %q, want %q (offset clamped to the start) or \"\"", what(), got, want)
		}
		return fmt.Errorf("%s = %q, want %q", what(), got, want)
	}
	n := len(s)
	extreme := !(c.Off > -(1<<40) && c.Off < 1<<40 && c.Len > -(1<<40) && c.Len < 1<<40)
	proper := want != "" && want != s
	outOfRange := n > 0 && (c.Off > n || c.Off < -n || (c.Len < 0 && want == ""))
	if n > 0 {
		r.NonTrivialIf(proper, "proper substring")
		r.NonTrivialIf(c.Off < 0, "negative offset")
		r.NonTrivialIf(c.Len < 0, "negative length")
		r.NonTrivialIf(outOfRange, "out of range")
		r.NonTrivialIf(extreme, "int extreme")
		if c.Off >= 0 && c.Off < n && c.Len > n-c.Off {
			r.Label("length beyond the end")
		}
		if alt {
			r.Label("offset before the start (either reading accepted)")
		}
		if proper {
			// where does the selection start/end relative to rune boundaries?
			st := strings.Index(s, want)
			if c.Off >= 0 {
				st = c.Off
			} else if c.Off >= -n {
				st = n + c.Off
			}
			if cutsRune(s, st) || cutsRune(s, st+len(want)) {
				r.Label("cuts a multi-byte rune")
			}
		}
	}
	return nil
}

func substrEnum(s pbt.Src, thorough bool) SubstrCase {
	sc := scopeOf(thorough)
	str := enumString(s, sc.alpha, sc.maxLen)
	return SubstrCase{S: Str(str), Off: enumWindow(s, len(str)), Len: enumWindow(s, len(str))}
}

func substrGen(s pbt.Src, thorough bool) SubstrCase {
	str := genText(s, 40, true)
	return SubstrCase{S: Str(str), Off: genInt(s, len(str)), Len: genInt(s, len(str))}
}

func substrOut(c SubstrCase, thorough bool) bool {
	sc := scopeOf(thorough)
	return !(inAlphabet(string(c.S), sc.alpha, sc.maxLen) && inWindow(c.Off, len(c.S)) && inWindow(c.Len, len(c.S)))
}

// ---------------------------------------------------------------------------
// split

type SplitCase struct {
	S   Str `json:"s"`
	Idx int `json:"index"`
}

func splitProp(c SplitCase, r *pbt.R) error {
	s := string(c.S)
	what := func() string { return fmt.Sprintf("SplitAtIndex(%q, %d)", s, c.Idx) }
	got, err := try(what, func() []string { return gogu.SplitAtIndex(s, c.Idx) })
	if err != nil {
		return err
	}
	if len(got) != 2 {
		return fmt.Errorf("%s = %q: %d parts, want 2", what(), got, len(got))
	}
	if got[0]+got[1] != s {
		return fmt.Errorf("%s = %q: the parts concatenate to %q, not to the input", what(), got, got[0]+got[1])
	}
	n := len(s)
	inside := c.Idx >= 0 && c.Idx <= n-1
	r.NonTrivialIf(inside, "index inside the string")
	r.NonTrivialIf(n > 0 && c.Idx < 0, "negative index")
	r.NonTrivialIf(n > 0 && c.Idx > n-1, "index beyond the end")
	if inside && cutsRune(s, c.Idx+1) {
		r.Label("cut inside a multi-byte rune")
	}
	if inside && cutsRune(s, c.Idx) {
		r.Label("index inside a multi-byte rune")
	}
	// not demanded by the statement, only recorded: where the cut was made
	if inside && got[0] == s[:c.Idx+1] {
		r.Label("observed: cut after byte index")
	}
	return nil
}

func splitEnum(s pbt.Src, thorough bool) SplitCase {
	sc := scopeOf(thorough)
	str := enumString(s, sc.alpha, sc.maxLen)
	return SplitCase{S: Str(str), Idx: enumWindow(s, len(str))}
}

func splitGen(s pbt.Src, thorough bool) SplitCase {
	str := genText(s, 40, true)
	return SplitCase{S: Str(str), Idx: genInt(s, len(str))}
}

func splitOut(c SplitCase, thorough bool) bool {
	sc := scopeOf(thorough)
	return !(inAlphabet(string(c.S), sc.alpha, sc.maxLen) && inWindow(c.Idx, len(c.S)))
}

// ---------------------------------------------------------------------------
// pad

type PadCase struct {
	S    Str `json:"s"`
	Size int `json:"size"`
	Tok  Str `json:"token"`
}

// isRepeatedPrefix: p is a prefix of tok repeated for ever (byte level).
func isRepeatedPrefix(p, tok string) bool {
	for i := 0; i < len(p); i++ {
		if p[i] != tok[i%len(tok)] {
			return false
		}
	}
	return true
}

// checkPadded verifies one padded result. lefts lists the acceptable byte lengths of the left padding.
func checkPadded(call, got, s, tok string, size int, lefts []int) error {
	if size <= len(s) {
		if got != s {
			return fmt.Errorf("%s = %q: the input is long enough, want it unchanged", call, got)
		}
		return nil
	}
	if len(got) != size {
		return fmt.Errorf("%s = %q: length %d, want exactly %d", call, got, len(got), size)
	}
	for _, left := range lefts {
		if got[left:left+len(s)] == s && isRepeatedPrefix(got[:left], tok) && isRepeatedPrefix(got[left+len(s):], tok) {
			return nil
		}
	}
	return fmt.Errorf("%s = %q: not <prefix of repeated token> + input + <prefix of repeated token> with the input at byte offset %v", call, got, lefts)
}

func padProp(c PadCase, r *pbt.R) error {
	s, tok := string(c.S), string(c.Tok)
	if tok == "" {
		return nil // an empty pad token is outside the domain
	}
	if c.Size > len(s)+(1<<16) {
		return nil // no string of that size is requested by any caller (the generators stay far below)
	}
	gap := c.Size - len(s)
	type fn struct {
		name  string
		f     func(string, int, string) string
		lefts []int
	}
	fns := []fn{
		{"PadLeft", gogu.PadLeft[string], []int{gap}},
		{"PadRight", gogu.PadRight[string], []int{0}},
		// "on the left and right sides": the input is centred; which side takes the odd byte is not documented
		{"Pad", gogu.Pad[string], []int{gap / 2, gap - gap/2}},
	}
	for _, f := range fns {
		what := func() string { return fmt.Sprintf("%s(%q, %d, %q)", f.name, s, c.Size, tok) }
		got, err := try(what, func() string { return f.f(s, c.Size, tok) })
		if err != nil {
			return err
		}
		if err := checkPadded(what(), got, s, tok, c.Size, f.lefts); err != nil {
			return err
		}
	}
	if gap > 0 {
		r.NonTrivial()
		switch {
		case len(tok) > gap:
			r.Label("token longer than the gap")
		case gap%len(tok) != 0:
			r.Label("token repeated and truncated")
		default:
			r.Label("token repeated whole")
		}
		for _, p := range []int{gap, gap / 2, gap - gap/2} {
			if !utf8.ValidString(tok[:p%len(tok)]) {
				r.Label("truncation cuts a multi-byte token")
			}
		}
		if strings.Contains(s, tok) || strings.ContainsAny(s, tok) {
			r.Label("text contains token characters")
		}
		if gap%2 == 1 {
			r.Label("odd gap")
		}
	} else {
		r.Label("long enough: unchanged")
	}
	return nil
}

func enumToken(s pbt.Src, sc scope, min int) string {
	parts := pbt.Seq(s, min, sc.maxTok, func(s pbt.Src) string { return sc.tokAlpha[s.Intn(len(sc.tokAlpha))] })
	return strings.Join(parts, "")
}

func padEnum(s pbt.Src, thorough bool) PadCase {
	sc := scopeOf(thorough)
	str := enumString(s, sc.alpha, sc.maxLen)
	// sizes len-3 .. len+sizeHi and the negative extreme (the positive one asks for a string no machine can hold)
	k := s.Intn(3 + sc.sizeHi + 2)
	size := math.MinInt
	if k < 3+sc.sizeHi+1 {
		size = len(str) - 3 + k
	}
	return PadCase{S: Str(str), Size: size, Tok: Str(enumToken(s, sc, 1))}
}

func padGen(s pbt.Src, thorough bool) PadCase {
	str := genText(s, 30, true)
	tok := genToken(s, str, 1, true)
	if tok == "" {
		tok = "'"
	}
	var size int
	switch s.Intn(8) {
	case 0:
		size = math.MinInt + s.Intn(3)
	case 1:
		size = pbt.Range(s, -5, len(str))
	case 2:
		size = len(str) + pbt.Range(s, 1, 400)
	case 3:
		// long paddings: tens of thousands of bytes, i.e. thousands of copies of the token (a block-wise fill has many blocks)
		size = len(str) + pbt.Pick(s, 4097, 8193, 16385, 20481, 32769, 40001, 70000)
		if len(str) > 64 {
			str = str[:64]
			for !utf8.ValidString(str) && len(str) > 0 {
				str = str[:len(str)-1]
			}
		}
	default:
		size = len(str) + pbt.Range(s, -2, 24)
	}
	return PadCase{S: Str(str), Size: size, Tok: Str(tok)}
}

func padOut(c PadCase, thorough bool) bool {
	sc := scopeOf(thorough)
	n := len(c.S)
	sizeIn := c.Size == math.MinInt || (c.Size >= n-3 && c.Size <= n+sc.sizeHi)
	return !(inAlphabet(string(c.S), sc.alpha, sc.maxLen) && sizeIn && inAlphabet(string(c.Tok), sc.tokAlpha, sc.maxTok))
}

// ---------------------------------------------------------------------------
// wrap

type WrapCase struct {
	S   Str `json:"s"`
	Tok Str `json:"token"`
}

// wrappedBy: x = t + m + t for some m.
func wrappedBy(x, t string) bool {
	return len(x) >= 2*len(t) && x[:len(t)] == t && x[len(x)-len(t):] == t
}

func wrapProp(c WrapCase, r *pbt.R) error {
	s, t := string(c.S), string(c.Tok)

	// Wrap and the round trip
	wWhat := func() string { return fmt.Sprintf("Wrap(%q, %q)", s, t) }
	w, err := try(wWhat, func() string { return gogu.Wrap(s, t) })
	if err != nil {
		return err
	}
	if w != t+s+t {
		return fmt.Errorf("%s = %q, want %q", wWhat(), w, t+s+t)
	}
	uwWhat := func() string { return fmt.Sprintf("Unwrap(Wrap(%q, %q), %q)", s, t, t) }
	uw, err := try(uwWhat, func() string { return gogu.Unwrap(w, t) })
	if err != nil {
		return err
	}
	if uw != s {
		return fmt.Errorf("%s = %q, want the original %q", uwWhat(), uw, s)
	}

	// Unwrap of the text itself: strings not wrapped by t stay as they are; a string
	// t+m+t is Wrap(m, t), so the round trip demands m.
	uWhat := func() string { return fmt.Sprintf("Unwrap(%q, %q)", s, t) }
	u, err := try(uWhat, func() string { return gogu.Unwrap(s, t) })
	if err != nil {
		return err
	}
	if wrappedBy(s, t) {
		if want := s[len(t) : len(s)-len(t)]; u != want {
			return fmt.Errorf("%s = %q, want %q (the string is Wrap(%q, %q))", uWhat(), u, want, want, t)
		}
	} else if u != s {
		return fmt.Errorf("%s = %q: the string is not wrapped by the token, want it unchanged", uWhat(), u)
	}

	// WrapAllRune: every rune between two tokens (valid UTF-8 input only)
	if utf8.ValidString(s) {
		aWhat := func() string { return fmt.Sprintf("WrapAllRune(%q, %q)", s, t) }
		a, err := try(aWhat, func() string { return gogu.WrapAllRune(s, t) })
		if err != nil {
			return err
		}
		var b strings.Builder
		for i := 0; i < len(s); {
			_, w := utf8.DecodeRuneInString(s[i:])
			b.WriteString(t)
			b.WriteString(s[i : i+w])
			b.WriteString(t)
			i += w
		}
		if a != b.String() {
			return fmt.Errorf("%s = %q, want %q", aWhat(), a, b.String())
		}
		if len(s) != utf8.RuneCountInString(s) {
			r.Label("WrapAllRune over multi-byte runes")
		}
	} else {
		r.Label("invalid UTF-8 text (WrapAllRune skipped)")
	}

	if t != "" {
		starts, ends := strings.HasPrefix(s, t), strings.HasSuffix(s, t)
		wrapped := wrappedBy(s, t)
		r.NonTrivialIf(wrapped, "text is wrapped by the token")
		r.NonTrivialIf(starts && !ends, "text starts but does not end with the token")
		r.NonTrivialIf(ends && !starts, "text ends but does not start with the token")
		r.NonTrivialIf(starts && ends && !wrapped, "token occurrences overlap (no room for both)")
		inner := s
		if starts {
			inner = inner[len(t):]
		}
		if ends && len(inner) >= len(t) {
			inner = inner[:len(inner)-len(t)]
		}
		r.NonTrivialIf(strings.Contains(inner, t), "token occurs inside the text")
		if !utf8.ValidString(t) {
			r.Label("token is a partial rune")
		}
	} else {
		r.Label("empty token")
	}
	return nil
}

func wrapEnum(s pbt.Src, thorough bool) WrapCase {
	sc := scopeOf(thorough)
	str := enumString(s, sc.alpha, sc.maxLen)
	return WrapCase{S: Str(str), Tok: Str(enumToken(s, sc, 0))}
}

func wrapGen(s pbt.Src, thorough bool) WrapCase {
	m := genText(s, 30, true)
	t := genToken(s, m, 0, true)
	switch s.Intn(6) {
	case 0:
		m = t + m
	case 1:
		m = m + t
	case 2:
		m = t + m + t
	case 3:
		if len(t) > 1 { // ends with a proper prefix of the token
			m = t + m + t[:len(t)-1]
		}
	}
	return WrapCase{S: Str(m), Tok: Str(t)}
}

func wrapOut(c WrapCase, thorough bool) bool {
	sc := scopeOf(thorough)
	return !(inAlphabet(string(c.S), sc.alpha, sc.maxLen) && inAlphabet(string(c.Tok), sc.tokAlpha, sc.maxTok))
}

// ---------------------------------------------------------------------------
// case mapping and rune reversal

type TextCase struct {
	S Str `json:"s"`
}

func mapRunes(s string, first, rest func(rune) rune) string {
	var b strings.Builder
	for i := 0; i < len(s); {
		rn, w := utf8.DecodeRuneInString(s[i:])
		if i == 0 {
			b.WriteRune(first(rn))
		} else {
			b.WriteRune(rest(rn))
		}
		i += w
	}
	return b.String()
}

func caseProp(c TextCase, r *pbt.R) error {
	s := string(c.S)
	if !utf8.ValidString(s) {
		// The statement describes the rune-wise helpers on text, i.e. valid UTF-8. On anything else only the baseline is
		// asserted: the call returns (no panic). What it returns is not constrained.
		for name, f := range map[string]func(string) string{
			"ToLower": gogu.ToLower[string], "ToUpper": gogu.ToUpper[string], "Capitalize": gogu.Capitalize[string], "ReverseStr": gogu.ReverseStr[string],
			"CamelCase": gogu.CamelCase[string], "SnakeCase": gogu.SnakeCase[string], "KebabCase": gogu.KebabCase[string],
			"WrapAllRune(-)": func(x string) string { return gogu.WrapAllRune(x, "-") },
		} {
			if _, err := try(func() string { return fmt.Sprintf("%s(%q) (invalid UTF-8)", name, s) }, func() string { return f(s) }); err != nil {
				return err
			}
		}
		r.NonTrivialIf(true, "invalid UTF-8: the helpers return without panicking")
		return nil
	}
	lo, err := try(func() string { return fmt.Sprintf("ToLower(%q)", s) }, func() string { return gogu.ToLower(s) })
	if err != nil {
		return err
	}
	if want := mapRunes(s, unicode.ToLower, unicode.ToLower); lo != want {
		return fmt.Errorf("ToLower(%q) = %q, want %q", s, lo, want)
	}
	up, err := try(func() string { return fmt.Sprintf("ToUpper(%q)", s) }, func() string { return gogu.ToUpper(s) })
	if err != nil {
		return err
	}
	if want := mapRunes(s, unicode.ToUpper, unicode.ToUpper); up != want {
		return fmt.Errorf("ToUpper(%q) = %q, want %q", s, up, want)
	}
	cp, err := try(func() string { return fmt.Sprintf("Capitalize(%q)", s) }, func() string { return gogu.Capitalize(s) })
	if err != nil {
		return err
	}
	// first letter upper case (the title-case form is accepted as well), the rest lower case
	wantU, wantT := mapRunes(s, unicode.ToUpper, unicode.ToLower), mapRunes(s, unicode.ToTitle, unicode.ToLower)
	if cp != wantU && cp != wantT {
		return fmt.Errorf("Capitalize(%q) = %q, want %q", s, cp, wantU)
	}
	rv, err := try(func() string { return fmt.Sprintf("ReverseStr(%q)", s) }, func() string { return gogu.ReverseStr(s) })
	if err != nil {
		return err
	}
	rev := make([]byte, 0, len(s))
	for i := len(s); i > 0; {
		_, w := utf8.DecodeLastRuneInString(s[:i])
		rev = append(rev, s[i-w:i]...)
		i -= w
	}
	if rv != string(rev) {
		return fmt.Errorf("ReverseStr(%q) = %q, want %q", s, rv, string(rev))
	}
	cased := lo != s || up != s
	multi := len(s) != utf8.RuneCountInString(s)
	r.NonTrivialIf(cased, "contains a cased letter")
	r.NonTrivialIf(multi, "contains a multi-byte rune")
	if len(lo) != len(s) || len(up) != len(s) {
		r.Label("mapping changes the byte length")
	}
	if wantU != wantT {
		r.Label("title case differs from upper case")
	}
	if utf8.RuneCountInString(s) >= 2 && string(rev) != s {
		r.Label("reversal changes the string")
	}
	return nil
}

func caseEnum(s pbt.Src, thorough bool) TextCase {
	sc := scopeOf(thorough)
	return TextCase{S: Str(enumString(s, sc.alpha, sc.maxLen))}
}

func caseGen(s pbt.Src, thorough bool) TextCase {
	if s.Intn(10) == 0 {
		// text with byte fragments that are not valid UTF-8 (only "returns without panicking" is asserted there)
		return TextCase{S: Str(genText(s, 24, true))}
	}
	parts := pbt.Seq(s, 0, 24, func(s pbt.Src) string {
		k := s.Intn(len(caseSyms) + len(wideSyms))
		if k < len(caseSyms) {
			return caseSyms[k]
		}
		return wideSyms[k-len(caseSyms)]
	})
	return TextCase{S: Str(strings.Join(parts, ""))}
}

func caseOut(c TextCase, thorough bool) bool {
	sc := scopeOf(thorough)
	return !inAlphabet(string(c.S), sc.alpha, sc.maxLen)
}

// ---------------------------------------------------------------------------
// case styles

type StyleCase struct {
	S string `json:"s"`
}

func isAlnum(b byte) bool {
	return b >= 'a' && b <= 'z' || b >= 'A' && b <= 'Z' || b >= '0' && b <= '9'
}

func isSep(b byte) bool { return b == ' ' || b == '-' || b == '_' || b == '&' }

func styleProp(c StyleCase, r *pbt.R) error {
	in := c.S
	// the letters and digits of the input, lower-cased, and which of them start a word
	var alnum []byte
	var initial []bool
	words, humps, doubled, mixed := 0, 0, false, false
	for i := 0; i < len(in); i++ {
		b := in[i]
		switch {
		case isAlnum(b):
			first := i == 0 || !isAlnum(in[i-1])
			if first {
				words++
			}
			if !first && b >= 'A' && b <= 'Z' && in[i-1] >= 'a' && in[i-1] <= 'z' {
				humps++
			}
			if b >= 'A' && b <= 'Z' {
				b += 'a' - 'A'
			}
			alnum = append(alnum, b)
			initial = append(initial, first)
		case isSep(b):
			if i > 0 && isSep(in[i-1]) {
				doubled = true
				if in[i-1] != b {
					mixed = true
				}
			}
		default:
			return nil // outside the domain: words of ASCII letters and digits separated by ' ', '-', '_', '&'
		}
	}
	want := string(alnum)

	camel, err := try(func() string { return fmt.Sprintf("CamelCase(%q)", in) }, func() string { return gogu.CamelCase(in) })
	if err != nil {
		return err
	}
	for i := 0; i < len(camel); i++ {
		if !isAlnum(camel[i]) {
			return fmt.Errorf("CamelCase(%q) = %q: contains %q, which is neither a letter nor a digit", in, camel, camel[i])
		}
	}
	if strings.ToLower(camel) != want {
		return fmt.Errorf("CamelCase(%q) = %q: letters and digits are %q, the input has %q (case-insensitively)", in, camel, strings.ToLower(camel), want)
	}
	upperInitials, letterInitials := 0, 0
	for i := 0; i < len(camel); i++ {
		if camel[i] >= 'A' && camel[i] <= 'Z' && !initial[i] {
			return fmt.Errorf("CamelCase(%q) = %q: upper-case %q at position %d is not the initial of a word", in, camel, camel[i], i)
		}
		if initial[i] && i > 0 && want[i] >= 'a' && want[i] <= 'z' {
			letterInitials++
			if camel[i] >= 'A' && camel[i] <= 'Z' {
				upperInitials++
			}
		}
	}

	type style struct {
		name string
		f    func(string) string
		del  byte
	}
	var outs [2]string
	for k, st := range []style{{"SnakeCase", gogu.SnakeCase[string], '_'}, {"KebabCase", gogu.KebabCase[string], '-'}} {
		out, err := try(func() string { return fmt.Sprintf("%s(%q)", st.name, in) }, func() string { return st.f(in) })
		if err != nil {
			return err
		}
		outs[k] = out
		kept := make([]byte, 0, len(out))
		for i := 0; i < len(out); i++ {
			b := out[i]
			switch {
			case b == st.del:
			case b >= 'A' && b <= 'Z':
				return fmt.Errorf("%s(%q) = %q: upper-case %q", st.name, in, out, b)
			case isAlnum(b):
				kept = append(kept, b)
			default:
				return fmt.Errorf("%s(%q) = %q: contains %q, which is neither a letter, a digit nor the delimiter %q", st.name, in, out, b, st.del)
			}
		}
		if string(kept) != want {
			return fmt.Errorf("%s(%q) = %q: letters and digits are %q, the input has %q (case-insensitively)", st.name, in, out, kept, want)
		}
		again, err := try(func() string { return fmt.Sprintf("%s(%q)", st.name, out) }, func() string { return st.f(out) })
		if err != nil {
			return err
		}
		if again != out {
			return fmt.Errorf("%s is not idempotent: %s(%q) = %q, applied again = %q", st.name, st.name, in, out, again)
		}
	}
	if strings.ReplaceAll(outs[0], "_", "-") != outs[1] || strings.ReplaceAll(outs[1], "-", "_") != outs[0] {
		return fmt.Errorf("SnakeCase(%q) = %q and KebabCase = %q differ in more than the delimiter", in, outs[0], outs[1])
	}

	r.NonTrivialIf(words >= 2, "two or more words")
	r.NonTrivialIf(humps > 0, "lower->UPPER transition inside a word")
	if doubled {
		r.Label("repeated separator")
	}
	if mixed {
		r.Label("different separators in a row")
	}
	if len(in) > 0 && isSep(in[0]) {
		r.Label("leading separator")
	}
	if len(in) > 0 && isSep(in[len(in)-1]) {
		r.Label("trailing separator")
	}
	if words == 0 {
		r.Label("no word")
	}
	// not demanded by the statement, only recorded
	if letterInitials > 0 && upperInitials == letterInitials {
		r.Label("observed: CamelCase upper-cases every later word initial")
	} else if letterInitials > 0 {
		r.Label("observed: CamelCase leaves a later word initial in lower case")
	}
	return nil
}

func styleEnum(s pbt.Src, thorough bool) StyleCase {
	return StyleCase{S: enumString(s, styleAlpha, scopeOf(thorough).styleMax)}
}

const (
	letters = "abcxyzABCXYZ019"
	seps    = " -_&"
)

func styleGen(s pbt.Src, thorough bool) StyleCase {
	var b strings.Builder
	sep := func(min int) {
		for n := pbt.Range(s, min, 3); n > 0; n-- {
			b.WriteByte(seps[s.Intn(len(seps))])
		}
	}
	if s.Intn(4) == 0 {
		sep(1)
	}
	words := pbt.Seq(s, 0, 6, func(s pbt.Src) string {
		w := pbt.Seq(s, 1, 8, func(s pbt.Src) byte { return letters[s.Intn(len(letters))] })
		return string(w)
	})
	if len(words) > 0 && s.Intn(14) == 0 {
		// many words: the drawn ones repeated (hundreds to thousands of words)
		reps := []int{40, 171, 700, 2000}[s.Intn(4)]
		base := words
		for i := 1; i < reps; i++ {
			words = append(words, base...)
		}
	}
	for i, w := range words {
		if i > 0 {
			sep(1)
		}
		b.WriteString(w)
	}
	if s.Intn(4) == 0 {
		sep(1)
	}
	return StyleCase{S: b.String()}
}

func styleOut(c StyleCase, thorough bool) bool {
	return !inAlphabet(c.S, styleAlpha, scopeOf(thorough).styleMax)
}

// ---------------------------------------------------------------------------

// ---------------------------------------------------------------------------
// the string helpers are pure: concurrent callers, each with a string of its own, get what they get alone

type ParCase struct {
	H    int `json:"h"`
	Size int `json:"size"`
	W    int `json:"workers"`
}

var parNames = []string{"ToLower", "ToUpper", "Capitalize", "ReverseStr", "CamelCase", "SnakeCase", "KebabCase", "Pad", "Wrap+Unwrap", "WrapAllRune", "Substr", "SplitAtIndex"}

func parText(w, size int) string {
	units := []string{"aBc", "Ö", "x1_", "世", "Q-", "é ", "zz", "😀"}
	var b strings.Builder
	for i := 0; b.Len() < size; i++ {
		b.WriteString(units[(i*(w+2)+w)%len(units)])
		if i%7 == w%7 {
			b.WriteByte(byte('A' + (i+w)%26))
		}
	}
	return b.String()
}

func parProp(c ParCase, r *pbt.R) error {
	h := ((c.H % len(parNames)) + len(parNames)) % len(parNames)
	size := 64 + ((c.Size%60000)+60000)%60000
	workers := 2 + ((c.W%7)+7)%7
	f := func(w int) string {
		in := parText(w, size)
		switch h {
		case 0:
			return pbt.Digest(gogu.ToLower(in))
		case 1:
			return pbt.Digest(gogu.ToUpper(in))
		case 2:
			return pbt.Digest(gogu.Capitalize(in))
		case 3:
			return pbt.Digest(gogu.ReverseStr(in))
		case 4:
			return pbt.Digest(gogu.CamelCase(in))
		case 5:
			return pbt.Digest(gogu.SnakeCase(in))
		case 6:
			return pbt.Digest(gogu.KebabCase(in))
		case 7:
			return pbt.Digest(gogu.Pad(in, len(in)+9+w, "-=")) + pbt.Digest(gogu.PadLeft(in, len(in)+3+w, "ab"))
		case 8:
			return pbt.Digest(gogu.Unwrap(gogu.Wrap(in, "**"), "**"))
		case 9:
			return pbt.Digest(gogu.WrapAllRune(in, "'"))
		case 10:
			return pbt.Digest(gogu.Substr(in, 3+w, size/2))
		default:
			return pbt.Digest(gogu.SplitAtIndex(in, size/3+w))
		}
	}
	if err := pbt.Concurrently(workers, 4, f); err != nil {
		return fmt.Errorf("%s on strings of about %d bytes: %v", parNames[h], size, err)
	}
	r.NonTrivial()
	r.Label(parNames[h])
	return nil
}

// ---------------------------------------------------------------------------
// named: the helpers are generic over ~string; a defined string type with methods of its own gets the same text

// Sev and Fault are defined string types with the methods formatting verbs look for. A helper that builds its result
// through fmt (or any other route that consults the method set) would print "Sev(...)" / "fault: ..." into it.
type Sev string

func (s Sev) String() string { return "Sev(" + string(s) + ")" }

type Fault string

func (f Fault) Error() string    { return "fault: " + string(f) }
func (f Fault) GoString() string { return "Fault!" }

type NamedCase struct {
	Text  Str `json:"text"`
	Token Str `json:"token"`
	A     int `json:"a"`
	B     int `json:"b"`
}

func namedRun[T ~string](c NamedCase, typ string) error {
	text, tok, a, b := string(c.Text), string(c.Token), c.A, c.B
	in := T(text)
	type row struct {
		name      string
		got, want string
	}
	var rows []row
	add := func(name string, got T, want string) { rows = append(rows, row{name, string(got), want}) }
	var err error
	_, err = try(func() string {
		return fmt.Sprintf("string helpers on %s(%q), token %q, numbers %d %d", typ, text, tok, a, b)
	}, func() string {
		add("Substr", gogu.Substr(in, a, b), gogu.Substr(text, a, b))
		add("ToLower", gogu.ToLower(in), gogu.ToLower(text))
		add("ToUpper", gogu.ToUpper(in), gogu.ToUpper(text))
		add("Capitalize", gogu.Capitalize(in), gogu.Capitalize(text))
		add("CamelCase", gogu.CamelCase(in), gogu.CamelCase(text))
		add("SnakeCase", gogu.SnakeCase(in), gogu.SnakeCase(text))
		add("KebabCase", gogu.KebabCase(in), gogu.KebabCase(text))
		size := len(text) + ((a%7)+7)%7
		ptok := tok // the pad token must not be empty (see the pad sub-check)
		if ptok == "" {
			ptok = "*"
		}
		add("PadLeft", gogu.PadLeft(in, size, ptok), gogu.PadLeft(text, size, ptok))
		add("PadRight", gogu.PadRight(in, size, ptok), gogu.PadRight(text, size, ptok))
		add("Pad", gogu.Pad(in, size, ptok), gogu.Pad(text, size, ptok))
		add("Wrap", gogu.Wrap(in, tok), gogu.Wrap(text, tok))
		add("Unwrap(Wrap)", gogu.Unwrap(gogu.Wrap(in, tok), tok), gogu.Unwrap(gogu.Wrap(text, tok), tok))
		add("WrapAllRune", gogu.WrapAllRune(in, tok), gogu.WrapAllRune(text, tok))
		add("ReverseStr", gogu.ReverseStr(in), gogu.ReverseStr(text))
		idx := a
		ps, pt := gogu.SplitAtIndex(in, idx), gogu.SplitAtIndex(text, idx)
		if len(ps) != len(pt) {
			add("SplitAtIndex (number of parts)", T(fmt.Sprint(len(ps))), fmt.Sprint(len(pt)))
		} else {
			for i := range ps {
				add(fmt.Sprintf("SplitAtIndex part %d", i), ps[i], pt[i])
			}
		}
		return ""
	})
	if err != nil {
		return err
	}
	for _, rw := range rows {
		if rw.got != rw.want {
			return fmt.Errorf("%s on the defined string type %s: text %q, token %q, numbers %d %d: got %q, the same call on a plain string gives %q", rw.name, typ, text, tok, a, b, rw.got, rw.want)
		}
	}
	return nil
}

func namedProp(c NamedCase, r *pbt.R) error {
	if !utf8.ValidString(string(c.Text)) || !utf8.ValidString(string(c.Token)) || len(c.Text) > 5000 {
		return nil
	}
	if err := namedRun[Sev](c, "Sev (has a String method)"); err != nil {
		return err
	}
	if err := namedRun[Fault](c, "Fault (has Error and GoString methods)"); err != nil {
		return err
	}
	r.NonTrivialIf(len(c.Text) > 0, "non-empty text")
	return nil
}

func TestProp(t *testing.T) {
	// tiny live heap, millions of short-lived strings: collect less often
	defer debug.SetGCPercent(debug.SetGCPercent(800))
	pbt.Run(t, "C15",
		&pbt.Check[SubstrCase]{
			Name: "substr",
			Rule: "Substr(s, offset, length) must not panic and must equal a byte-level reference of the PHP substr rules (negative offset counts from the end, offset beyond the string -> \"\", " +
				"negative length omits that many bytes from the end, length beyond the end is cut at the end, selection ending before it starts -> \"\"); for a negative offset reaching before the start both the PHP reading (clamp to the start) and \"\" are accepted. " +
				"Enumerated: every string of <= 5 symbols over {a,B,1,ö,-,'} (thorough: <= 6 over the same plus €) x every offset and every length in -(len+3)..len+3 (len in bytes) plus MinInt, MinInt+1, MaxInt-1, MaxInt. " +
				"Random: up to 40 symbols incl. 3/4-byte runes and invalid UTF-8 fragments, ints from a window, next to the int extremes and +-2^k. " +
				"Non-trivial = non-empty input and (proper non-empty substring selected, or a negative argument, or an out-of-range selection, or an int extreme). Distinct = enumerated (injective) + hash-distinct random cases outside the enumerated scope.",
			Enum: substrEnum, Gen: substrGen, Prop: substrProp, OutOfEnum: substrOut,
			RapidQuick: 1500, RapidThorough: 20000,
			Fixed: []SubstrCase{{"abc", 1, math.MaxInt}, {"", math.MinInt, math.MinInt}, {"ö", -1, 1}, {"abc", -5, 2}},
		},
		&pbt.Check[SplitCase]{
			Name: "split",
			Rule: "SplitAtIndex(s, index) must not panic and must return exactly two parts whose concatenation is s (the position of the cut is recorded, not asserted). " +
				"Enumerated: every string of the substr scope x every index in -(len+3)..len+3 plus the four int extremes. Random: as substr. " +
				"Non-trivial = non-empty input (index inside / negative / beyond labelled; byte indices inside a multi-byte rune labelled).",
			Enum: splitEnum, Gen: splitGen, Prop: splitProp, OutOfEnum: splitOut,
			RapidQuick: 1500, RapidThorough: 20000,
		},
		&pbt.Check[PadCase]{
			Name: "pad",
			Rule: "Pad, PadLeft, PadRight with a non-empty token (an empty token is outside the domain): size <= len(s) -> s unchanged; otherwise the result has exactly size bytes and is " +
				"L+s+R with L and R each a prefix of the token repeated, |L| = gap for PadLeft, 0 for PadRight, floor(gap/2) or ceil(gap/2) for Pad (which side takes the odd byte is not documented). " +
				"Enumerated: every string of the substr scope x sizes len-3..len+3 (thorough len+6) and MinInt x every token of 1..2 symbols over {',-,a,ö} (thorough plus €); MaxInt is left out: no string of that size can exist. " +
				"Random: up to 30 symbols, tokens of 1..3 symbols or a byte range of the text (may be a partial rune), sizes up to len+400. Non-trivial = padding was required (size > len).",
			Enum: padEnum, Gen: padGen, Prop: padProp, OutOfEnum: padOut,
			RapidQuick: 1500, RapidThorough: 20000,
		},
		&pbt.Check[WrapCase]{
			Name: "wrap",
			Rule: "Wrap(s,t) = t+s+t; Unwrap(Wrap(s,t),t) = s; Unwrap(s,t) = s unless s = t+m+t (then m, by the round trip on m); WrapAllRune(s,t) = concatenation of t+rune+t over the runes of s (valid UTF-8 s only); no panic. " +
				"Enumerated: every string of the substr scope x every token of 0..2 symbols over {',-,a,ö} (thorough plus €). Random: up to 30 symbols, token drawn from the text or 0..3 symbols, text shaped as m, t+m, m+t, t+m+t, t+m+t[:len-1]. " +
				"Non-trivial = non-empty token that occurs in the text (as prefix, suffix, both, overlapping or inside).",
			Enum: wrapEnum, Gen: wrapGen, Prop: wrapProp, OutOfEnum: wrapOut,
			RapidQuick: 1500, RapidThorough: 20000,
			Fixed: []WrapCase{{"'abc", "'"}, {"'ab'c", "'"}, {"\x00", "\x00"}, {"a", "a"}, {"aa", "a"}, {"ö", "\xc3"}},
		},
		&pbt.Check[TextCase]{
			Name: "case",
			Rule: "(on invalid UTF-8, one random case in ten, only: every rune-wise helper returns without panicking) valid UTF-8: ToLower / ToUpper = rune-wise unicode.ToLower / unicode.ToUpper; Capitalize = first rune upper (or title) case, rest lower case; ReverseStr = runes in reverse order. " +
				"Enumerated: every string of the substr scope. Random: up to 24 runes from a table of cased/uncased 1..4-byte runes incl. length-changing and title-case mappings. " +
				"Non-trivial = contains a cased letter or a multi-byte rune.",
			Enum: caseEnum, Gen: caseGen, Prop: caseProp, OutOfEnum: caseOut,
			RapidQuick: 1500, RapidThorough: 20000,
		},
		&pbt.Check[StyleCase]{
			Name: "styles",
			Rule: "inputs: words of ASCII letters and digits separated by single, repeated or mixed ' ', '-', '_', '&', also leading and trailing (anything else is skipped as outside the domain). Asserted, as listed by the statement: " +
				"each output keeps exactly the input's letters and digits in order (case-insensitively); CamelCase contains nothing else and upper case only at word initials; SnakeCase/KebabCase contain besides lower-case letters and digits only their own delimiter, are idempotent and equal up to the delimiter. " +
				"Enumerated: every string of <= 6 (thorough 7) symbols over {a,b,C,1,' ',-,_,&}. Random: 0..6 words of 1..8 characters from [abcxyzABCXYZ019], separators of 1..3 characters. " +
				"Non-trivial = two or more words or a lower->UPPER transition inside a word.",
			Enum: styleEnum, Gen: styleGen, Prop: styleProp, OutOfEnum: styleOut,
			RapidQuick: 1000, RapidThorough: 10000,
		},
		&pbt.Check[NamedCase]{
			Name: "named",
			Rule: "the helpers are generic over ~string: Substr, ToLower, ToUpper, Capitalize, CamelCase, SnakeCase, KebabCase, PadLeft, PadRight, Pad, Wrap, Unwrap(Wrap), WrapAllRune, ReverseStr and SplitAtIndex instantiated with two defined string types that carry methods (String; Error and GoString) " +
				"must return byte for byte what the same call returns on a plain string (differential between instantiations; what that text has to be is the business of the other sub-checks). Random valid-UTF-8 texts of up to 12 symbols (one in fourteen long), tokens of 0..3 symbols, offsets/sizes -3..12. Non-trivial = non-empty text.",
			Gen: func(s pbt.Src, _ bool) NamedCase {
				text := genText(s, 12, false)
				return NamedCase{Text: Str(text), Token: Str(genToken(s, text, 0, false)), A: pbt.Range(s, -3, 12), B: pbt.Range(s, -3, 12)}
			},
			Prop: namedProp, OutOfEnum: func(NamedCase, bool) bool { return true },
			RapidQuick: 600, RapidThorough: 10000,
		},
		&pbt.Check[ParCase]{
			Name: "parallel",
			Rule: "the string helpers are pure functions: 2..8 goroutines call one of ToLower, ToUpper, Capitalize, ReverseStr, CamelCase, SnakeCase, KebabCase, Pad/PadLeft, Wrap+Unwrap, WrapAllRune, Substr, SplitAtIndex at the same time (real scheduler), each on a mixed ASCII / multi-byte string of its own of 64..60000 bytes, four times; every answer must equal the answer of the same call running alone. Non-trivial = every case.",
			Gen: func(s pbt.Src, _ bool) ParCase {
				return ParCase{H: s.Intn(len(parNames)), Size: pbt.Pick(s, 100, 3000, 20000, 60000), W: s.Intn(7)}
			},
			Prop:       parProp,
			OutOfEnum:  func(ParCase, bool) bool { return true },
			RapidQuick: 12, RapidThorough: 150,
		},
	)
}

// ---------------------------------------------------------------------------
// native fuzzing (thorough tier only):
//
//	cd /verif/harness && go1.26.8 test -tags verif -run '^$' -fuzz '^FuzzStrings$' -fuzztime 60s ./props/c15/
//
// A failing input is written as an ordinary replay file replays/C15/fail-fuzz-<check>-<hash>.json.

func fuzzFail(t *testing.T, check string, c any, err error) {
	root := os.Getenv("VERIF_ROOT")
	if root == "" {
		root = "/verif"
	}
	body, _ := json.Marshal(c)
	h := fnv.New64a()
	h.Write(body)
	doc := map[string]any{"property": "C15", "check": check, "message": err.Error(), "case": json.RawMessage(body)}
	out, _ := json.MarshalIndent(doc, "", " ")
	dir := filepath.Join(root, "replays", "C15")
	os.MkdirAll(dir, 0o755)
	path := filepath.Join(dir, fmt.Sprintf("fail-fuzz-%s-%016x.json", check, h.Sum64()))
	os.WriteFile(path, append(out, '\n'), 0o644)
	t.Fatalf("VIOLATION property=C15 check=%s replay=%s\n  %v", check, path, err)
}

func FuzzStrings(f *testing.F) {
	f.Add("abc", "'", 1, 2)
	f.Add("'abc", "'", 1, math.MaxInt)
	f.Add("'ab'c", "'", -2, -1)
	f.Add("aöb", "ö", 1, math.MinInt)
	f.Add("ö€", "\xc3", 2, 7)
	f.Add("", "", 0, 0)
	f.Add("foo Bar-baz", "_-", 5, 20)
	f.Fuzz(func(t *testing.T, s, tok string, a, b int) {
		run := func(check string, c any, err error) {
			if err != nil {
				fuzzFail(t, check, c, err)
			}
		}
		sc := SubstrCase{S: Str(s), Off: a, Len: b}
		run("substr", sc, substrProp(sc, &pbt.R{}))
		sc = SubstrCase{S: Str(s), Off: b, Len: a}
		run("substr", sc, substrProp(sc, &pbt.R{}))
		for _, i := range []int{a, b} {
			sp := SplitCase{S: Str(s), Idx: i}
			run("split", sp, splitProp(sp, &pbt.R{}))
		}
		wc := WrapCase{S: Str(s), Tok: Str(tok)}
		run("wrap", wc, wrapProp(wc, &pbt.R{}))
		wc = WrapCase{S: Str(tok + s), Tok: Str(tok)}
		run("wrap", wc, wrapProp(wc, &pbt.R{}))
		if tok != "" {
			for _, size := range []int{a, b} {
				if size > len(s)+1024 { // keep the requested size allocatable
					size = len(s) + size%1024
				}
				pc := PadCase{S: Str(s), Size: size, Tok: Str(tok)}
				run("pad", pc, padProp(pc, &pbt.R{}))
			}
		}
		tc := TextCase{S: Str(s)}
		run("case", tc, caseProp(tc, &pbt.R{}))
		st := StyleCase{S: s}
		run("styles", st, styleProp(st, &pbt.R{}))
	})
}
