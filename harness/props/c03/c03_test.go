// C03: Heap yields elements in comparator order and conserves them.
package c03

import (
	"fmt"
	"runtime/debug"
	"strings"
	"testing"

	"github.com/esimov/gogu/heap"
	"verif/pbt"
)

// Open known finding: heap.Delete never repairs the slot it vacates.
const kfDelete = "heap-delete-unsifted"

// ---------------------------------------------------------------------------
// element types and comparator tables

// El is the struct element: only K is compared, so elements with equal K and
// different ID tie under both comparators without being equal.
type El struct{ K, ID int }

type kind[T comparable] struct {
	name string
	mk   func(v int) T
	cmps [2]func(a, b T) bool
}

var cmpNames = [2][2]string{{"a<b", "a>b"}, {"a.K<b.K", "a.K>b.K"}}

var intKind = kind[int]{
	name: "int",
	mk:   func(v int) int { return v },
	cmps: [2]func(a, b int) bool{
		func(a, b int) bool { return a < b },
		func(a, b int) bool { return a > b },
	},
}

var elKind = kind[El]{
	name: "struct{K,ID}",
	mk:   func(v int) El { return El{K: v >> 1, ID: v & 1} },
	cmps: [2]func(a, b El) bool{
		func(a, b El) bool { return a.K < b.K },
		func(a, b El) bool { return a.K > b.K },
	},
}

// ---------------------------------------------------------------------------
// cases

const (
	opPush = iota
	opPop
	opPeek
	opClear
	opConvert // A = comparator index
	opDelete  // A = value (literal)
	opMerge   // A = which heap the sequence continues with (0 result, 1 receiver, 2 argument); B bit0: argument uses the opposite comparator, bit1: argument built by NewHeap+Push instead of FromSlice; Vals = argument's elements
	opMeld    // as opMerge
	opRebuild // current = FromSlice(current.GetValues(), cmps[A])
	// only in random cases:
	opPushMany   // Push(Vals...)
	opDeleteAt   // Delete(the A mod n-th element the model holds); Delete(A) when the model is empty
	opFromSlice  // drain the current heap, continue with FromSlice(Vals, cmps[A])
	opDeleteSlot // Delete(GetValues()[A mod n]): the victim is chosen by its array slot (0 = the root, -1 = the last slot)
	nOps
)

var opNames = [nOps]string{"Push", "Pop", "Peek", "Clear", "Convert", "Delete", "Merge", "Meld", "Rebuild", "PushMany", "DeleteAt", "FromSlice", "DeleteSlot"}

type Op struct {
	Kind int   `json:"kind"`
	A    int   `json:"a,omitempty"`
	B    int   `json:"b,omitempty"`
	Vals []int `json:"vals,omitempty"`
}

func (o Op) String() string {
	if o.Kind < 0 || o.Kind >= nOps {
		return fmt.Sprintf("?%d", o.Kind)
	}
	n := opNames[o.Kind]
	switch o.Kind {
	case opPush, opDelete, opDeleteAt, opDeleteSlot:
		return fmt.Sprintf("%s(%d)", n, o.A)
	case opConvert, opRebuild:
		return fmt.Sprintf("%s(cmp%d)", n, o.A&1)
	case opMerge, opMeld:
		return fmt.Sprintf("%s(arg=%v b=%d, continue with %s)", n, o.Vals, o.B, [3]string{"result", "receiver", "argument"}[mod(o.A, 3)])
	case opPushMany:
		return fmt.Sprintf("Push(%v...)", o.Vals)
	case opFromSlice:
		return fmt.Sprintf("FromSlice(%v, cmp%d)", o.Vals, o.A&1)
	}
	return n
}

// Case: a heap of element type Elem (0 int, 1 struct{K,ID} built from the value v as {v>>1, v&1})
// is created with comparator Cmp from Init (Mode 0: FromSlice(init), 1: NewHeap + one variadic
// Push(init...), 2: NewHeap + one Push per element), then Ops are applied.
type Case struct {
	Elem int   `json:"elem"`
	Cmp  int   `json:"cmp"`
	Mode int   `json:"mode"`
	Init []int `json:"init,omitempty"`
	Ops  []Op  `json:"ops,omitempty"`
}

func mod(a, n int) int {
	a %= n
	if a < 0 {
		a += n
	}
	return a
}

// the argument heaps of Merge/Meld in the enumerated scope
var enumSeconds = [][]int{{1}, {2, 0}}

// enumOp draws from the enumerated operation alphabet: Push(v), Delete(v) for v < nv, Pop, Peek,
// Clear, Convert(c), Rebuild(c), Merge/Meld x argument in enumSeconds x continue with result/receiver.
func enumOp(s pbt.Src, nv int) Op {
	i := s.Intn(2*nv + 15)
	switch {
	case i < nv:
		return Op{Kind: opPush, A: i}
	case i < 2*nv:
		return Op{Kind: opDelete, A: i - nv}
	}
	i -= 2 * nv
	switch {
	case i < 3:
		return Op{Kind: opPop + i}
	case i < 5:
		return Op{Kind: opConvert, A: i - 3}
	case i < 7:
		return Op{Kind: opRebuild, A: i - 5}
	}
	i -= 7 // 0..7
	return Op{Kind: opMerge + i/4, A: i % 2, Vals: enumSeconds[(i/2)%2]}
}

// inEnumAlphabet is the inverse test of enumOp.
func inEnumAlphabet(o Op, nv int) bool {
	switch o.Kind {
	case opPush, opDelete:
		return o.A >= 0 && o.A < nv && o.B == 0 && len(o.Vals) == 0
	case opPop, opPeek, opClear:
		return o.A == 0 && o.B == 0 && len(o.Vals) == 0
	case opConvert, opRebuild:
		return (o.A == 0 || o.A == 1) && o.B == 0 && len(o.Vals) == 0
	case opMerge, opMeld:
		if (o.A != 0 && o.A != 1) || o.B != 0 {
			return false
		}
		for _, t := range enumSeconds {
			if sameInts(o.Vals, t) {
				return true
			}
		}
	}
	return false
}

func sameInts(a, b []int) bool {
	if len(a) != len(b) {
		return false
	}
	for i := range a {
		if a[i] != b[i] {
			return false
		}
	}
	return true
}

// enumerated scope, each for the 4 (element type, initial comparator) combinations:
//
//	A: every initial slice of 1..initMax values over {0,1,2}, built by FromSlice or by one variadic Push,
//	   followed by every operation sequence of length <= tailMax(len(init)) over the alphabet with 3 values;
//	B: from the empty heap (NewHeap) every operation sequence of length <= emptyMax over the alphabet with emptyNV values;
//	C: every initial slice of initMax+1..deepMax values over {0,2} (two keys also for the struct type), built
//	   by FromSlice or by one variadic Push, followed by at most one operation (depth 4 trees).
func enumBounds(thorough bool) (initMax, deepMax, emptyMax, emptyNV int) {
	if thorough {
		return 8, 14, 5, 4
	}
	return 7, 11, 4, 3
}

func tailMax(initLen int, thorough bool) int {
	initMax, _, _, _ := enumBounds(thorough)
	switch {
	case initLen > initMax:
		return 1
	case thorough && initLen <= 7:
		return 3
	case thorough || initLen <= 6:
		return 2
	}
	return 1
}

func enum(s pbt.Src, thorough bool) Case {
	initMax, deepMax, emptyMax, emptyNV := enumBounds(thorough)
	c := Case{Elem: s.Intn(2), Cmp: s.Intn(2)}
	switch s.Intn(3) {
	case 0: // B
		c.Mode = 2 // NewHeap, nothing pushed
		c.Ops = pbt.Seq(s, 0, emptyMax, func(s pbt.Src) Op { return enumOp(s, emptyNV) })
		return c
	case 1: // A
		c.Mode = s.Intn(2)
		c.Init = pbt.Seq(s, 1, initMax, func(s pbt.Src) int { return s.Intn(3) })
	default: // C
		c.Mode = s.Intn(2)
		c.Init = pbt.Seq(s, initMax+1, deepMax, func(s pbt.Src) int { return 2 * s.Intn(2) })
	}
	c.Ops = pbt.Seq(s, 0, tailMax(len(c.Init), thorough), func(s pbt.Src) Op { return enumOp(s, 3) })
	return c
}

func outOfEnum(c Case, thorough bool) bool {
	initMax, deepMax, emptyMax, emptyNV := enumBounds(thorough)
	if c.Elem < 0 || c.Elem > 1 || c.Cmp < 0 || c.Cmp > 1 {
		return true
	}
	maxOps, nv := tailMax(len(c.Init), thorough), 3
	if len(c.Init) == 0 {
		if c.Mode != 2 {
			return true
		}
		maxOps, nv = emptyMax, emptyNV
	} else {
		if c.Mode != 0 && c.Mode != 1 {
			return true
		}
		if len(c.Init) > deepMax {
			return true
		}
		for _, v := range c.Init {
			if v < 0 || v > 2 || (len(c.Init) > initMax && v == 1) {
				return true
			}
		}
	}
	if len(c.Ops) > maxOps {
		return true
	}
	for _, o := range c.Ops {
		if !inEnumAlphabet(o, nv) {
			return true
		}
	}
	return false
}

// random cases: wider alphabets, longer sequences, all operation kinds.
var genWeights = [nOps]int{
	opPush: 10, opPop: 5, opPeek: 2, opClear: 1, opConvert: 2, opDelete: 2, opMerge: 2, opMeld: 2,
	opRebuild: 1, opPushMany: 3, opDeleteAt: 2, opFromSlice: 1, opDeleteSlot: 4,
}

var genKinds = func() []int {
	var t []int
	for k, w := range genWeights {
		for i := 0; i < w; i++ {
			t = append(t, k)
		}
	}
	return t
}()

func genVal(s pbt.Src, width int) int {
	switch width {
	case 0:
		return s.Intn(8)
	case 1:
		return s.Intn(64)
	}
	return s.Intn(2_000_001) - 1_000_000
}

func gen(s pbt.Src, thorough bool) Case {
	maxOps, maxInit := 60, 24
	if thorough {
		maxOps, maxInit = 120, 48
	}
	c := Case{Elem: s.Intn(2), Cmp: s.Intn(2), Mode: s.Intn(3)}
	width := s.Intn(3)
	val := func(s pbt.Src) int { return genVal(s, width) }
	c.Init = pbt.Seq(s, 0, maxInit, val)
	c.Ops = pbt.Seq(s, 0, maxOps, func(s pbt.Src) Op {
		o := Op{Kind: genKinds[s.Intn(len(genKinds))]}
		switch o.Kind {
		case opPush, opDelete:
			o.A = val(s)
		case opConvert, opRebuild:
			o.A = s.Intn(2)
		case opDeleteAt:
			o.A = s.Intn(64)
		case opDeleteSlot:
			// mostly the two slots whose removal the open finding does not affect
			switch s.Intn(6) {
			case 0, 1:
				o.A = 0
			case 2, 3:
				o.A = -1
			default:
				o.A = 1 + s.Intn(63)
			}
		case opMerge, opMeld:
			o.A = s.Intn(3)
			o.B = 2 * s.Intn(2)
			if s.Intn(4) == 3 {
				o.B |= 1
			}
			o.Vals = pbt.Seq(s, 0, 8, val)
		case opPushMany:
			o.Vals = pbt.Seq(s, 0, 6, val)
		case opFromSlice:
			o.A = s.Intn(2)
			o.Vals = pbt.Seq(s, 0, 16, val)
		}
		return o
	})
	return c
}

// ---------------------------------------------------------------------------
// model and oracle

// model of one heap: the multiset it must hold and the comparators it may currently be using.
// mask has more than one bit only for the result of a Merge/Meld of heaps built with different
// comparators (the statement does not say which one the result uses): every Pop/Peek must then be
// consistent with at least one comparator that was consistent with all earlier answers.
type model[T comparable] struct {
	name  string
	born  int // step of the Merge/Meld that set this heap aside; 0 for the heap the sequence is applied to
	h     *heap.Heap[T]
	held  []T
	mask  uint
	taint bool // order assertions suspended (open finding heap-delete-unsifted)
	// evidence bookkeeping
	converted, merged bool
}

func (m *model[T]) label() string {
	if m.name == "heap" {
		return m.name
	}
	return fmt.Sprintf("[%s of step %d]", m.name, m.born)
}

type runner[T comparable] struct {
	k       kind[T]
	elem    int
	r       *pbt.R
	c       Case
	step    int
	scratch map[T]int
	// evidence
	askedBig, delOK, delAbsent, convThenPop, mergeThenPop, tainted, mixed, ties, suspended bool
}

func (w *runner[T]) where() string {
	var b strings.Builder
	fmt.Fprintf(&b, "%s heap, cmp%d (%s), init mode %d %v", w.k.name, w.c.Cmp&1, cmpNames[w.elem][w.c.Cmp&1], w.c.Mode, w.c.Init)
	if w.step >= 0 {
		n := w.step + 1
		if n > len(w.c.Ops) {
			n = len(w.c.Ops)
			fmt.Fprintf(&b, ", after all ops %v, final drain", w.c.Ops[:n])
		} else {
			fmt.Fprintf(&b, ", ops %v (failing at step %d)", w.c.Ops[:n], w.step)
		}
	}
	return b.String()
}

func (w *runner[T]) vals(vs []int) []T {
	out := make([]T, len(vs))
	for i, v := range vs {
		out[i] = w.k.mk(v)
	}
	return out
}

func (w *runner[T]) maskNames(mask uint) string {
	var n []string
	for i := 0; i < 2; i++ {
		if mask&(1<<i) != 0 {
			n = append(n, cmpNames[w.elem][i])
		}
	}
	return strings.Join(n, " or ")
}

func (w *runner[T]) sameMultiset(a, b []T) bool {
	if len(a) != len(b) {
		return false
	}
	if len(a) <= 8 {
		var used uint
	outer:
		for _, x := range a {
			for j, y := range b {
				if used&(1<<j) == 0 && x == y {
					used |= 1 << j
					continue outer
				}
			}
			return false
		}
		return true
	}
	if w.scratch == nil {
		w.scratch = map[T]int{}
	}
	clear(w.scratch)
	for _, x := range a {
		w.scratch[x]++
	}
	for _, y := range b {
		n := w.scratch[y]
		if n == 0 {
			return false
		}
		w.scratch[y] = n - 1
	}
	return true
}

func indexOf[T comparable](s []T, v T) int {
	for i, x := range s {
		if x == v {
			return i
		}
	}
	return -1
}

// observe: Size, IsEmpty and GetValues (as a multiset) equal the model.
func (w *runner[T]) observe(m *model[T]) error {
	if n := m.h.Size(); n != len(m.held) {
		return fmt.Errorf("%s: %s.Size() = %d, want %d (must hold %v)", w.where(), m.label(), n, len(m.held), m.held)
	}
	if e := m.h.IsEmpty(); e != (len(m.held) == 0) {
		return fmt.Errorf("%s: %s.IsEmpty() = %v with %d elements inserted and not removed", w.where(), m.label(), e, len(m.held))
	}
	got := m.h.GetValues()
	if !w.sameMultiset(got, m.held) {
		return fmt.Errorf("%s: %s.GetValues() = %v, want the multiset %v", w.where(), m.label(), got, m.held)
	}
	if len(got) >= 2 {
		// The listing is the caller's: overwriting it (here: every slot with its first value) does not reach the heap.
		for i := range got {
			got[i] = got[0]
		}
		if again := m.h.GetValues(); !w.sameMultiset(again, m.held) {
			return fmt.Errorf("%s: after the caller overwrote the listing GetValues had returned, %s.GetValues() = %v, want the multiset %v (the listing shares storage with the heap)", w.where(), m.label(), again, m.held)
		}
	}
	if len(m.held) <= 1 {
		m.taint = false // nothing to order
	}
	return nil
}

// take is Pop (remove=true) or Peek.
func (w *runner[T]) take(m *model[T], remove bool) error {
	what := "Peek"
	var got T
	if remove {
		what = "Pop"
		got = m.h.Pop()
	} else {
		got = m.h.Peek()
	}
	if len(m.held) == 0 {
		var zero T
		if got != zero {
			return fmt.Errorf("%s: %s.%s() on an empty heap returned %v, want the zero value", w.where(), m.label(), what, got)
		}
		return nil
	}
	at := indexOf(m.held, got)
	if at < 0 {
		return fmt.Errorf("%s: %s.%s() returned %v which is not held (held: %v)", w.where(), m.label(), what, got, m.held)
	}
	if m.taint {
		w.suspended = true
	} else {
		// no held element may precede the answer under the current comparator
		var keep uint
		var witness T
		for ci := 0; ci < 2; ci++ {
			if m.mask&(1<<ci) == 0 {
				continue
			}
			ok := true
			for _, x := range m.held {
				if w.k.cmps[ci](x, got) {
					ok, witness = false, x
					break
				}
			}
			if ok {
				keep |= 1 << ci
			}
		}
		if keep == 0 {
			return fmt.Errorf("%s: %s.%s() returned %v although the held element %v precedes it under the current comparator %s (held: %v)",
				w.where(), m.label(), what, got, witness, w.maskNames(m.mask), m.held)
		}
		m.mask = keep
		if len(m.held) >= 3 {
			w.askedBig = true
		}
		if m.converted {
			w.convThenPop = w.convThenPop || remove
		}
		if m.merged {
			w.mergeThenPop = w.mergeThenPop || remove
		}
		if w.elem == 1 {
			for i, x := range m.held {
				if i != at && x != got && !w.k.cmps[0](x, got) && !w.k.cmps[0](got, x) {
					w.ties = true
					break
				}
			}
		}
	}
	if remove {
		m.held = append(m.held[:at], m.held[at+1:]...)
	}
	return nil
}

// drain pops everything the model holds, then checks the heap answers as an empty one.
func (w *runner[T]) drain(m *model[T]) error {
	for n := len(m.held); n > 0; n-- {
		if err := w.take(m, true); err != nil {
			return err
		}
		if err := w.observe(m); err != nil {
			return err
		}
	}
	if err := w.take(m, false); err != nil {
		return err
	}
	if err := w.take(m, true); err != nil {
		return err
	}
	return w.observe(m)
}

func (w *runner[T]) build(name string, vals []int, ci, mode int) *model[T] {
	ci &= 1
	m := &model[T]{name: name, mask: 1 << ci, held: w.vals(vals)}
	switch mode {
	case 0:
		// FromSlice owns its argument: hand it a private copy; every other one has spare capacity (as a slice grown by append has)
		arg := w.vals(vals)
		if len(vals)%2 == 1 {
			arg = append(make([]T, 0, len(vals)+5), arg...)
		}
		m.h = heap.FromSlice(arg, w.k.cmps[ci])
	case 1:
		m.h = heap.NewHeap(w.k.cmps[ci])
		m.h.Push(w.vals(vals)...)
	default:
		m.h = heap.NewHeap(w.k.cmps[ci])
		for _, v := range vals {
			m.h.Push(w.k.mk(v))
		}
	}
	return m
}

func lowest(mask uint) int {
	if mask&1 != 0 {
		return 0
	}
	return 1
}

// validFor: the array satisfies the implicit-binary-tree heap condition under every comparator in mask.
// Only used to decide whether the open finding has materialised (never as an expectation).
func (w *runner[T]) validFor(arr []T, mask uint) bool {
	for ci := 0; ci < 2; ci++ {
		if mask&(1<<ci) == 0 {
			continue
		}
		for i := 1; i < len(arr); i++ {
			if w.k.cmps[ci](arr[i], arr[(i-1)/2]) {
				return false
			}
		}
	}
	return true
}

func (w *runner[T]) del(m *model[T], v T) error {
	at := indexOf(m.held, v)
	var before []T
	carve := at >= 0 && !m.taint && w.r.KF(kfDelete)
	if carve {
		before = m.h.GetValues()
	}
	ok, err := m.h.Delete(v)
	if at < 0 {
		w.delAbsent = true
		if ok {
			return fmt.Errorf("%s: %s.Delete(%v) = (true, %v) although %v is not held (held: %v)", w.where(), m.label(), v, err, v, m.held)
		}
		return nil
	}
	if !ok || err != nil {
		return fmt.Errorf("%s: %s.Delete(%v) = (%v, %v) although %v is held (held: %v)", w.where(), m.label(), v, ok, err, v, m.held)
	}
	w.delOK = true
	m.held = append(m.held[:at], m.held[at+1:]...)
	if carve {
		// Open finding heap-delete-unsifted: Delete moves the last array element into the slot of
		// the (first) occurrence it removes and re-sifts only the root. Removing the root slot is
		// therefore repaired, removing the last slot moves nothing; for any other slot the order is
		// lost exactly when the array it leaves is no longer a heap. Only then are the order
		// assertions of this heap suspended (until Clear/Convert/<=1 element); conservation stays exact.
		idx := indexOf(before, v)
		if idx > 0 && idx != len(before)-1 && !w.validFor(m.h.GetValues(), m.mask) {
			m.taint = true
			w.tainted = true
			w.r.Excluded(kfDelete)
		}
	}
	return nil
}

func (w *runner[T]) run() error {
	c := w.c
	w.step = -1
	cur := w.build("heap", c.Init, c.Cmp, c.Mode)
	var aside []*model[T]
	if err := w.observe(cur); err != nil {
		return err
	}
	for i, op := range c.Ops {
		w.step = i
		switch op.Kind {
		case opPush:
			v := w.k.mk(op.A)
			cur.h.Push(v)
			cur.held = append(cur.held, v)
		case opPushMany:
			vs := w.vals(op.Vals)
			cur.h.Push(vs...)
			// the batch stays the caller's: it reads as before, and what the caller writes into it afterwards
			// (here: its first value into every slot) does not reach the heap
			for j, v := range w.vals(op.Vals) {
				if vs[j] != v {
					return fmt.Errorf("%s: after Push(batch...) the caller's batch reads %v, it was %v", w.where(), vs, w.vals(op.Vals))
				}
			}
			for j := range vs {
				vs[j] = vs[0]
			}
			cur.held = append(cur.held, w.vals(op.Vals)...)
		case opPop:
			if err := w.take(cur, true); err != nil {
				return err
			}
		case opPeek:
			if err := w.take(cur, false); err != nil {
				return err
			}
		case opClear:
			cur.h.Clear()
			cur.held = cur.held[:0]
			cur.taint = false
		case opConvert:
			ci := op.A & 1
			cur.h.Convert(w.k.cmps[ci])
			cur.mask = 1 << ci
			cur.taint = false // Convert re-heapifies every internal node
			cur.converted = true
		case opDelete:
			if err := w.del(cur, w.k.mk(op.A)); err != nil {
				return err
			}
		case opDeleteAt:
			v := w.k.mk(op.A)
			if len(cur.held) > 0 {
				v = cur.held[mod(op.A, len(cur.held))]
			}
			if err := w.del(cur, v); err != nil {
				return err
			}
		case opDeleteSlot:
			v := w.k.mk(op.A)
			if arr := cur.h.GetValues(); len(arr) > 0 {
				v = arr[mod(op.A, len(arr))]
			}
			if err := w.del(cur, v); err != nil {
				return err
			}
		case opRebuild:
			ci := op.A & 1
			vals := cur.h.GetValues()
			next := &model[T]{name: "heap", mask: 1 << ci, held: cur.held, converted: true, merged: cur.merged}
			next.h = heap.FromSlice(append([]T(nil), vals...), w.k.cmps[ci])
			cur = next
		case opFromSlice:
			if err := w.drain(cur); err != nil {
				return err
			}
			cur = w.build("heap", op.Vals, op.A, 0)
			cur.converted = true
		case opMerge, opMeld:
			ci2 := lowest(cur.mask) ^ (op.B & 1)
			if op.B&1 != 0 {
				w.mixed = true
			}
			mode2 := 0
			if op.B&2 != 0 {
				mode2 = 1
			}
			arg := w.build("argument", op.Vals, ci2, mode2)
			if err := w.observe(arg); err != nil {
				return err
			}
			res := &model[T]{name: "result", mask: cur.mask | arg.mask, merged: true}
			res.held = append(append(res.held, cur.held...), arg.held...)
			if op.Kind == opMerge {
				res.h = cur.h.Merge(arg.h)
			} else {
				res.h = cur.h.Meld(arg.h)
				cur.held, arg.held = nil, nil
				cur.taint = false
			}
			if res.h == nil {
				return fmt.Errorf("%s: %s returned nil", w.where(), opNames[op.Kind])
			}
			cur.name = "receiver"
			all := [3]*model[T]{res, cur, arg}
			for _, m := range all {
				m.born = i
				if err := w.observe(m); err != nil {
					return err
				}
			}
			// The sequence continues with one of the three; the other two are set aside untouched and
			// are compared with their models and drained at the end of the case, so that whatever is
			// done to one heap in between must not show in the others.
			keep := mod(op.A, 3)
			for j, m := range all {
				if j != keep {
					aside = append(aside, m)
				}
			}
			cur = all[keep]
			cur.name = "heap"
		default:
			return nil // unknown kind in a hand-edited replay file: ignore the rest
		}
		if err := w.observe(cur); err != nil {
			return err
		}
	}
	w.step = len(c.Ops)
	for _, m := range aside {
		if err := w.observe(m); err != nil {
			return err
		}
	}
	// a heap merged with ITSELF: receiver and argument coincide; the result holds every element of "both", i.e. twice,
	// and the heap itself stays as it is
	if len(cur.held) <= 64 {
		twice := cur.h.Merge(cur.h)
		both := append(append([]T(nil), cur.held...), cur.held...)
		if got := twice.GetValues(); !w.sameMultiset(got, both) {
			return fmt.Errorf("%s: %s.Merge(itself).GetValues() = %v, want the multiset %v (the elements of both operands)", w.where(), cur.label(), got, both)
		}
		if err := w.observe(cur); err != nil {
			return err
		}
	}
	if err := w.drain(cur); err != nil {
		return err
	}
	for _, m := range aside {
		if err := w.drain(m); err != nil {
			return err
		}
	}
	return nil
}

func runCase[T comparable](k kind[T], c Case, r *pbt.R) error {
	w := &runner[T]{k: k, elem: c.Elem & 1, r: r, c: c}
	err := func() (err error) {
		// no call of this property may panic: report it with the operation sequence
		defer func() {
			if p := recover(); p != nil {
				err = fmt.Errorf("%s: panic: %v\n%s", w.where(), p, libFrames(debug.Stack()))
			}
		}()
		return w.run()
	}()
	r.NonTrivialIf(w.askedBig, "Pop/Peek order asserted on >= 3 elements")
	r.NonTrivialIf(w.delOK, "successful Delete")
	r.NonTrivialIf(w.convThenPop, "Convert/FromSlice-rebuild then Pop")
	r.NonTrivialIf(w.mergeThenPop, "Merge/Meld then Pop")
	if w.delAbsent {
		r.Label("Delete of an absent value")
	}
	if w.tainted {
		r.Label("order suspended after Delete (known finding)")
	}
	if w.suspended {
		r.Label("Pop/Peek answered while order suspended")
	}
	if w.mixed {
		r.Label("Merge/Meld of heaps with different comparators")
	}
	if w.ties {
		r.Label("answer tied with a different held element")
	}
	if c.Elem&1 == 1 {
		r.Label("struct elements")
	}
	return err
}

// libFrames keeps the frames of the library under test from a stack dump.
func libFrames(stack []byte) string {
	lines := strings.Split(string(stack), "\n")
	var keep []string
	for i := 0; i+1 < len(lines) && len(keep) < 12; i++ {
		if strings.Contains(lines[i], "github.com/esimov/gogu/") {
			keep = append(keep, lines[i], lines[i+1])
		}
	}
	return strings.Join(keep, "\n")
}

func prop(c Case, r *pbt.R) error {
	if c.Elem&1 == 0 {
		return runCase(intKind, c, r)
	}
	return runCase(elKind, c, r)
}

// ---------------------------------------------------------------------------
// Sort

type SortCase struct {
	Elem int   `json:"elem"`
	Cmp  int   `json:"cmp"`
	Data []int `json:"data,omitempty"`
	// Spare: the slice handed to Sort has this much capacity beyond its length (as a slice grown by append has)
	Spare int `json:"spare,omitempty"`
}

func sortBounds(thorough bool) (maxLen, nv int) {
	if thorough {
		return 10, 4
	}
	return 9, 3
}

func sortEnum(s pbt.Src, thorough bool) SortCase {
	maxLen, nv := sortBounds(thorough)
	c := SortCase{Elem: s.Intn(2), Cmp: s.Intn(2), Spare: s.Intn(2) * 3}
	c.Data = pbt.Seq(s, 0, maxLen, func(s pbt.Src) int { return s.Intn(nv) })
	return c
}

func sortGen(s pbt.Src, thorough bool) SortCase {
	max := 200
	if thorough {
		max = 1000
	}
	c := SortCase{Elem: s.Intn(2), Cmp: s.Intn(2), Spare: s.Intn(3) * s.Intn(40)}
	width := s.Intn(3)
	c.Data = pbt.Seq(s, 0, max, func(s pbt.Src) int { return genVal(s, width) })
	return c
}

func sortOutOfEnum(c SortCase, thorough bool) bool {
	maxLen, nv := sortBounds(thorough)
	if len(c.Data) > maxLen || (c.Spare != 0 && c.Spare != 3) {
		return true
	}
	for _, v := range c.Data {
		if v < 0 || v >= nv {
			return true
		}
	}
	return false
}

func runSort[T comparable](k kind[T], c SortCase, r *pbt.R) error {
	w := &runner[T]{k: k, elem: c.Elem & 1}
	ci := c.Cmp & 1
	cmp := k.cmps[ci]
	in := w.vals(c.Data)
	spare := c.Spare
	if spare < 0 || spare > 4096 {
		spare = 0
	}
	arg := make([]T, len(in), len(in)+spare)
	copy(arg, in)
	out := heap.Sort(arg, cmp)
	ctx := func() string {
		return fmt.Sprintf("Sort(%v as %s with %d spare capacity, %s)", c.Data, k.name, spare, cmpNames[c.Elem&1][ci])
	}
	if !w.sameMultiset(out, in) {
		return fmt.Errorf("%s = %v is not a permutation of the input", ctx(), out)
	}
	// ordered oppositely to the comparator: an earlier element never precedes a later one.
	// (the comparators are strict weak orders, so adjacent pairs decide it; all pairs are checked for short outputs)
	for i := 0; i+1 < len(out); i++ {
		last := i + 1
		if len(out) <= 32 {
			last = len(out) - 1
		}
		for j := i + 1; j <= last; j++ {
			if cmp(out[i], out[j]) {
				return fmt.Errorf("%s = %v: element %d (%v) precedes element %d (%v) under the comparator, so the output is not ordered oppositely to it",
					ctx(), out, i, out[i], j, out[j])
			}
		}
	}
	distinct := false
	for _, x := range in {
		if cmp(x, in[0]) || cmp(in[0], x) {
			distinct = true
			break
		}
	}
	r.NonTrivialIf(len(in) >= 3 && distinct, ">= 3 elements, >= 2 different keys")
	if len(in) >= 8 {
		r.Label("depth >= 4")
	}
	if spare > 0 {
		r.Label("argument with spare capacity")
	}
	return nil
}

func sortProp(c SortCase, r *pbt.R) error {
	if c.Elem&1 == 0 {
		return runSort(intKind, c, r)
	}
	return runSort(elKind, c, r)
}

// ---------------------------------------------------------------------------

var fixed = []Case{
	// the scenario of TestHeap_MaxHeap followed by pops
	{Elem: 0, Cmp: 1, Mode: 0, Init: []int{9, 3, 20, 8, 6, 5, 12, 10, 9, 18}, Ops: []Op{{Kind: opDelete, A: 12}, {Kind: opPop}, {Kind: opPeek}}},
	// an emptied receiver of Meld is used again
	{Elem: 0, Cmp: 0, Mode: 1, Init: []int{3, 1, 2}, Ops: []Op{{Kind: opMeld, A: 1, Vals: []int{5, 4}}, {Kind: opPop}, {Kind: opPush, A: 7}, {Kind: opPush, A: 6}, {Kind: opPeek}}},
	// Pop/Peek/Delete on the empty heap
	{Elem: 1, Cmp: 0, Mode: 2, Ops: []Op{{Kind: opPop}, {Kind: opPeek}, {Kind: opDelete, A: 0}, {Kind: opClear}, {Kind: opConvert, A: 1}, {Kind: opPop}}},
	// Merge of a min-heap with a max-heap: the result may use either comparator, consistently
	{Elem: 0, Cmp: 0, Mode: 0, Init: []int{4, 1, 3}, Ops: []Op{{Kind: opMerge, A: 0, B: 1, Vals: []int{2, 9, 0}}, {Kind: opPop}, {Kind: opPop}}},
}

func TestProp(t *testing.T) {
	pbt.Run(t, "C03",
		&pbt.Check[Case]{
			Name: "heap",
			Rule: "operation sequences (Push, variadic Push, Pop, Peek, Clear, Convert, Delete of a present/absent value, Merge/Meld with a second heap and continuing with result/receiver/argument, " +
				"FromSlice replacing or rebuilding the heap) on int heaps with a<b / a>b and struct{K,ID} heaps ordered by K only (ties), against a multiset model + current comparator; " +
				"after every call Size/IsEmpty/GetValues-as-multiset are compared, Pop/Peek must return a held element that no held element precedes, every heap involved (also the two heaps a Merge/Meld does not continue with, which are set aside untouched until the end of the case) is finally compared with its model and drained. " +
				"Enumerated (x 2 element types x 2 initial comparators): (A) every initial slice of 1..7 (thorough 1..8) values over {0,1,2} via FromSlice or one variadic Push, then every sequence of <= 2 operations " +
				"(<= 1 after 7 initial values; thorough: <= 3, <= 2 after 8 initial values) from a 21-operation alphabet (Push/Delete x 3 values, Pop, Peek, Clear, Convert x 2, rebuild x 2, Merge/Meld x 2 argument heaps x continue with result/receiver); (C) every initial slice of 8..11 (thorough 9..14) values over {0,2}, then <= 1 operation; (B) from empty every sequence of <= 4 operations over that alphabet (thorough <= 5 over the 23-operation alphabet with 4 values). " +
				"Random: up to 24 (48) initial + 60 (120) operations over values 0..7, 0..63 or +-10^6. Only strict comparators. " +
				"Non-trivial = the order of a Pop/Peek was asserted on >= 3 held elements, or a Delete succeeded, or a Pop followed a Convert/rebuild/Merge/Meld. " +
				"Distinct = enumerated cases (injective encoding) + hash-distinct random cases outside the enumerated scope. " +
				"Open finding heap-delete-unsifted: order assertions of a heap are suspended after a successful Delete that left a non-heap array (victim neither in the root nor in the last slot) until Clear/Convert/<= 1 element.",
			Enum: enum, Gen: gen, Prop: prop, OutOfEnum: outOfEnum,
			RapidQuick: 6000, RapidThorough: 60000,
			Fixed: fixed,
		},
		&pbt.Check[SortCase]{
			Name: "sort",
			Rule: "heap.Sort(copy of data with 0 or 3 (random: up to 78) elements of spare capacity, cmp): the returned slice is a permutation of the input and no earlier element precedes a later one under the comparator; " +
				"enumerated: every slice of <= 9 values over 3 values (thorough <= 10 over 4) x int{<,>} / struct-by-K{<,>}; random: up to 200 (1000) values from 0..7, 0..63 or +-10^6. " +
				"Non-trivial = >= 3 elements with >= 2 different keys.",
			Enum: sortEnum, Gen: sortGen, Prop: sortProp, OutOfEnum: sortOutOfEnum,
			RapidQuick: 1500, RapidThorough: 10000,
		},
	)
}
