// C06: stacks deliver elements last-in first-out without loss.
package c06

import (
	"math"
	"fmt"
	"strings"
	"testing"

	"github.com/esimov/gogu/stack"
	"verif/pbt"
)

// Open known finding: LStack.Pop returns the element below the removed one.
const kfPopBelow = "lstack-pop-returns-below"

const (
	opPush = iota
	opPop
	opPeek
	opSearch
	opSize
	opObserve // Size, Peek and Search of every value of the window, in that order
)

const (
	implSlice     = iota // stack.New[int]()
	implLinked           // stack.NewLinked(first)
	implSliceStr         // stack.New[string]()
	implLinkedStr        // stack.NewLinked("v<first>")
	nImpl
)

var implNames = []string{"slice stack", "linked stack", "slice stack of strings", "linked stack of strings"}

func linked(impl int) bool { return impl == implLinked || impl == implLinkedStr }

// Op is one call. Val is the element for Push and Search (0 = the zero value: pushed by half of the random cases only).
type Op struct {
	Kind int `json:"kind"`
	Val  int `json:"val,omitempty"`
}

func (o Op) String() string {
	switch o.Kind {
	case opPush:
		return fmt.Sprintf("Push(%d)", o.Val)
	case opPop:
		return "Pop"
	case opPeek:
		return "Peek"
	case opSearch:
		return fmt.Sprintf("Search(%d)", o.Val)
	case opSize:
		return "Size"
	case opObserve:
		return "Observe"
	}
	return fmt.Sprintf("?%d", o.Kind)
}

// Case: which implementation, the mandatory first element of a linked stack, whether the
// complete observation (Size, Peek, Search of every value) runs after every step, and the calls.
type Case struct {
	Impl  int  `json:"impl"`
	First int  `json:"first,omitempty"`
	Every bool `json:"every,omitempty"`
	Ops   []Op `json:"ops"`
}

// ---------------------------------------------------------------------------
// the two implementations (and two element types) behind one interface

type stk interface {
	Push(int)
	Pop() int
	Peek() int
	Search(int) bool
	Size() int
}

type strStack interface {
	Push(string)
	Pop() string
	Peek() string
	Search(string) bool
	Size() int
}

func enc(v int) string {
	if v == 0 {
		return ""
	}
	return fmt.Sprintf("v%d", v)
}

func dec(s string) int {
	if s == "" {
		return 0
	}
	var v int
	if n, err := fmt.Sscanf(s, "v%d", &v); n != 1 || err != nil || enc(v) != s {
		return -1 << 30 // equals nothing a case can contain
	}
	return v
}

type strAdapter struct{ s strStack }

func (a strAdapter) Push(v int)        { a.s.Push(enc(v)) }
func (a strAdapter) Pop() int          { return dec(a.s.Pop()) }
func (a strAdapter) Peek() int         { return dec(a.s.Peek()) }
func (a strAdapter) Search(v int) bool { return a.s.Search(enc(v)) }
func (a strAdapter) Size() int         { return a.s.Size() }

func newStack(c Case) (stk, error) {
	switch c.Impl {
	case implSlice:
		return stack.New[int](), nil
	case implLinked:
		return stack.NewLinked(c.First), nil
	case implSliceStr:
		return strAdapter{stack.New[string]()}, nil
	case implLinkedStr:
		return strAdapter{stack.NewLinked(enc(c.First))}, nil
	}
	return nil, fmt.Errorf("malformed case: unknown implementation %d", c.Impl)
}

// ---------------------------------------------------------------------------
// generators

func enumLens(thorough bool) (lifo, observers int) {
	if thorough {
		return 11, 6
	}
	return 9, 5
}

// start enumerates the four start configurations: the (empty) slice stack and the
// linked stack created with each value of the alphabet 1..3.
func start(s pbt.Src) Case {
	if i := s.Intn(4); i > 0 {
		return Case{Impl: implLinked, First: i}
	}
	return Case{Impl: implSlice}
}

// enumLifo: every sequence over {Push(1), Push(2), Push(3), Pop}, with and without the
// complete observation after every step.
func enumLifo(s pbt.Src, thorough bool) Case {
	maxLen, _ := enumLens(thorough)
	c := start(s)
	c.Every = pbt.Bool(s)
	c.Ops = pbt.Seq(s, 0, maxLen, func(s pbt.Src) Op {
		if i := s.Intn(4); i < 3 {
			return Op{Kind: opPush, Val: i + 1}
		}
		return Op{Kind: opPop}
	})
	return c
}

// enumObservers: every sequence over the 11 single calls
// {Push(1..3), Pop, Peek, Size, Search(0..4)}; 0 is the zero value and 4 is never pushed.
func enumObservers(s pbt.Src, thorough bool) Case {
	_, maxLen := enumLens(thorough)
	c := start(s)
	c.Ops = pbt.Seq(s, 0, maxLen, func(s pbt.Src) Op {
		switch i := s.Intn(11); {
		case i < 3:
			return Op{Kind: opPush, Val: i + 1}
		case i == 3:
			return Op{Kind: opPop}
		case i == 4:
			return Op{Kind: opPeek}
		case i == 5:
			return Op{Kind: opSize}
		default:
			return Op{Kind: opSearch, Val: i - 6}
		}
	})
	return c
}

// gen: long sequences made of bursts. Pop bursts are longer than push bursts on average,
// so the stack is drained (and popped while empty) and refilled again and again.
func gen(s pbt.Src, thorough bool) Case {
	c := Case{Impl: s.Intn(nImpl)}
	nv := 3 + s.Intn(3) // alphabet 1..nv
	// in half of the cases the zero value is an element like any other (pushed, and the linked stack may start with it)
	lo := s.Intn(2)
	if linked(c.Impl) {
		c.First = lo + s.Intn(nv+1-lo)
	}
	c.Every = s.Intn(4) == 0
	maxBursts := 80
	if thorough {
		maxBursts = 160
	}
	bursts := pbt.Seq(s, 0, maxBursts, func(s pbt.Src) []Op {
		switch k := s.Intn(10); {
		case k < 4:
			out := make([]Op, 1+s.Intn(4))
			for i := range out {
				out[i] = Op{Kind: opPush, Val: lo + s.Intn(nv+1-lo)}
			}
			return out
		case k < 8:
			out := make([]Op, 1+s.Intn(6))
			for i := range out {
				out[i] = Op{Kind: opPop}
			}
			return out
		case k == 8:
			switch s.Intn(3) {
			case 0:
				return []Op{{Kind: opPeek}}
			case 1:
				return []Op{{Kind: opSize}}
			}
			return []Op{{Kind: opSearch, Val: s.Intn(nv + 2)}}
		}
		return []Op{{Kind: opObserve}}
	})
	c.Ops = []Op{}
	for _, b := range bursts {
		c.Ops = append(c.Ops, b...)
	}
	return c
}

// outOfEnum is conservative: it only claims cases that neither enumeration can contain.
func outOfEnum(c Case, thorough bool) bool {
	maxLen, _ := enumLens(thorough)
	if c.Impl != implSlice && c.Impl != implLinked {
		return true
	}
	if len(c.Ops) > maxLen || c.First > 3 || (linked(c.Impl) && c.First < 1) {
		return true
	}
	for _, o := range c.Ops {
		if o.Kind == opPush && (o.Val > 3 || o.Val < 1) {
			return true
		}
	}
	return false
}

// ---------------------------------------------------------------------------
// oracle

func (c Case) render(upto int) string {
	var b strings.Builder
	if linked(c.Impl) {
		fmt.Fprintf(&b, "NewLinked(%d)", c.First)
	} else {
		b.WriteString("New()")
	}
	from := 0
	if upto > 24 {
		from = upto - 24
		fmt.Fprintf(&b, " ...%d calls...", from)
	}
	for _, o := range c.Ops[from:upto] {
		b.WriteByte(' ')
		b.WriteString(o.String())
	}
	return b.String()
}

func prop(c Case, r *pbt.R) error { return run(c, r, false) }

// observersProp is prop with a narrower non-triviality rule (the case must contain a
// Peek/Size/Search call), so that the cases it counts are disjoint from those of the
// "lifo" enumeration.
func observersProp(c Case, r *pbt.R) error { return run(c, r, true) }

func run(c Case, r *pbt.R, needObserver bool) error {
	s, err := newStack(c)
	if err != nil {
		return err
	}
	name := implNames[c.Impl]
	isLinked := linked(c.Impl)

	// Reference model: m holds the elements, top at the end; at[i] is the number of
	// mutators (Push/Pop calls) executed when m[i] had just been pushed (0 = constructor).
	var m, at []int
	if isLinked {
		m, at = append(m, c.First), append(at, 0)
	}
	// Search window: zero value, every value of the case, and one value never pushed.
	maxVal := 3
	if c.First > maxVal {
		maxVal = c.First
	}
	for _, o := range c.Ops {
		if (o.Kind == opPush || o.Kind == opSearch) && o.Val > maxVal {
			maxVal = o.Val
		}
	}
	holds := func(v int) bool {
		for _, x := range m {
			if x == v {
				return true
			}
		}
		return false
	}
	top := func() int {
		if len(m) == 0 {
			return 0
		}
		return m[len(m)-1]
	}

	step := 0 // number of calls of c.Ops executed (for messages)
	phase := ""
	where := func() string {
		return fmt.Sprintf("after %s%s (model, top last: %v)", c.render(step), phase, m)
	}
	checkSize := func() error {
		if n := s.Size(); n != len(m) {
			return fmt.Errorf("%s: %s Size() = %d, want %d (pushes minus successful pops)", where(), name, n, len(m))
		}
		return nil
	}
	checkPeek := func() error {
		if g, w := s.Peek(), top(); g != w {
			if len(m) == 0 {
				return fmt.Errorf("%s: %s Peek on an empty stack returned %d, want the zero value", where(), name, g)
			}
			return fmt.Errorf("%s: %s Peek returned %d, want %d (the most recently pushed element not yet popped)", where(), name, g, w)
		}
		return nil
	}
	checkSearch := func(v int) error {
		if g, w := s.Search(v), holds(v); g != w {
			return fmt.Errorf("%s: %s Search(%d) = %v, want %v", where(), name, v, g, w)
		}
		return nil
	}
	observe := func() error {
		if err := checkSize(); err != nil {
			return err
		}
		if err := checkPeek(); err != nil {
			return err
		}
		for v := 0; v <= maxVal+1; v++ {
			if err := checkSearch(v); err != nil {
				return err
			}
		}
		return nil
	}

	muts := 0
	emptied := false // a successful Pop has removed the last element at some point
	refills, popsOnEmpty, maxDepth := 0, 0, len(m)
	deep, dup, observedEmptied := false, false, false

	push := func(v int) {
		if len(m) == 0 && emptied {
			refills++
		}
		if holds(v) {
			dup = true
		}
		s.Push(v)
		muts++
		m, at = append(m, v), append(at, muts)
		if len(m) > maxDepth {
			maxDepth = len(m)
		}
	}
	pop := func() error {
		g := s.Pop()
		defer func() { muts++ }()
		if len(m) == 0 {
			popsOnEmpty++
			if g != 0 {
				return fmt.Errorf("%s: %s Pop on an empty stack returned %d, want the zero value", where(), name, g)
			}
			return nil
		}
		w := m[len(m)-1]
		if muts > at[len(at)-1] {
			deep = true
		}
		m, at = m[:len(m)-1], at[:len(at)-1]
		if len(m) == 0 {
			emptied = true
		}
		if isLinked && r.KF(kfPopBelow) {
			// Open finding: the value LStack.Pop returns for a non-empty stack is not
			// compared; what the call does to the stack is (every later observation).
			r.Excluded(kfPopBelow)
			return nil
		}
		if g != w {
			return fmt.Errorf("%s: %s Pop returned %d, want %d (the most recently pushed element not yet popped)", where(), name, g, w)
		}
		return nil
	}

	for i, op := range c.Ops {
		step = i + 1
		var err error
		switch op.Kind {
		case opPush:
			push(op.Val)
		case opPop:
			err = pop()
		case opPeek:
			err = checkPeek()
		case opSearch:
			err = checkSearch(op.Val)
		case opSize:
			err = checkSize()
		case opObserve:
			err = observe()
		default:
			return fmt.Errorf("malformed case: unknown operation kind %d", op.Kind)
		}
		if err == nil && c.Every {
			err = observe()
		}
		if err != nil {
			return err
		}
		if (c.Every || op.Kind >= opPeek) && emptied && len(m) == 0 {
			observedEmptied = true
		}
	}

	// Evidence bookkeeping (about the generated calls only, not about the epilogue below).
	counts := true
	if needObserver {
		counts = false
		for _, o := range c.Ops {
			if o.Kind >= opPeek {
				counts = true
			}
		}
	}
	r.NonTrivialIf(counts && refills > 0, "emptied and refilled")
	r.NonTrivialIf(counts && deep, "pop of an element pushed >= 2 mutators earlier")
	r.Label("impl: " + name)
	if refills >= 3 {
		r.Label("refilled >= 3 times")
	}
	if popsOnEmpty > 0 {
		r.Label("pop on empty")
	}
	if observedEmptied {
		r.Label("observed while empty after having been emptied")
	}
	if maxDepth >= 5 {
		r.Label("depth >= 5")
	}
	if dup {
		r.Label("pushed a value already held")
	}
	if c.Every {
		r.Label("complete observation after every step")
	}

	// Epilogue, the same for every case: complete observation, drain (the number of
	// successful pops must be exactly the number of elements held), empty-stack
	// behaviour, refill with two elements and take them off again.
	phase = " [final observation]"
	if err := observe(); err != nil {
		return err
	}
	phase = " [final drain]"
	for n := len(m); n > 0; n-- {
		if err := pop(); err != nil {
			return err
		}
		if err := checkSize(); err != nil {
			return err
		}
		if err := checkPeek(); err != nil {
			return err
		}
	}
	phase = " [drained]"
	for k := 0; k < 2; k++ {
		if err := pop(); err != nil {
			return err
		}
		if err := observe(); err != nil {
			return err
		}
	}
	phase = " [drained, then Push(1) Push(2)]"
	push(1)
	push(2)
	if err := observe(); err != nil {
		return err
	}
	phase = " [drained, then Push(1) Push(2) Pop]"
	if err := pop(); err != nil {
		return err
	}
	if err := observe(); err != nil {
		return err
	}
	phase = " [drained, then Push(1) Push(2) Pop Pop]"
	if err := pop(); err != nil {
		return err
	}
	return observe()
}

// ---------------------------------------------------------------------------
// pointer elements: "the elements currently held" are the pointers that were pushed, not whatever they point to

// PtrCase: Ops[i] = k >= 0: Push(the k-th pointer of a table of 4 pointers, of which 0 and 1 point to EQUAL integers),
// -1: Pop. After every call Search of all four pointers, of a fifth pointer (to an equal integer) that is never pushed,
// and of nil is compared with the model; Peek/Size too.
type PtrCase struct {
	Ops []int `json:"ops"`
}

type ptrStack interface {
	Push(*int)
	Pop() *int
	Peek() *int
	Search(*int) bool
	Size() int
}

func ptrProp(c PtrCase, r *pbt.R) error {
	if len(c.Ops) > 200 {
		return nil
	}
	a, b, x, y, twin := 7, 7, 9, 0, 7
	tab := []*int{&a, &b, &x, &y}
	run := func(name string, st ptrStack, model []*int, linked bool) error {
		for i, op := range c.Ops {
			switch {
			case op >= 0:
				p := tab[op%len(tab)]
				st.Push(p)
				model = append(model, p)
			default:
				got := st.Pop()
				if len(model) == 0 {
					if got != nil {
						return fmt.Errorf("%s of *int, ops %v: Pop on an empty stack returned a non-nil pointer", name, c.Ops[:i+1])
					}
				} else {
					// (the value the linked stack's Pop returns is subject to the open finding; its effect is checked below)
					if !(linked && r.KF(kfPopBelow)) && got != model[len(model)-1] {
						return fmt.Errorf("%s of *int, ops %v: Pop did not return the pointer pushed last", name, c.Ops[:i+1])
					}
					model = model[:len(model)-1]
				}
			}
			if st.Size() != len(model) {
				return fmt.Errorf("%s of *int, ops %v: Size() = %d, want %d", name, c.Ops[:i+1], st.Size(), len(model))
			}
			var top *int
			if len(model) > 0 {
				top = model[len(model)-1]
			}
			if got := st.Peek(); got != top {
				return fmt.Errorf("%s of *int, ops %v: Peek does not return the pointer pushed last (nil when empty)", name, c.Ops[:i+1])
			}
			for j, p := range append(append([]*int(nil), tab...), &twin) {
				held := false
				for _, q := range model {
					held = held || q == p
				}
				if got := st.Search(p); got != held {
					return fmt.Errorf("%s of *int, ops %v: Search(pointer #%d) = %v, want %v (pointers #0, #1 and the never-pushed #4 point to equal integers but are different pointers)", name, c.Ops[:i+1], j, got, held)
				}
			}
		}
		return nil
	}
	if err := run("Stack", stack.New[*int](), nil, false); err != nil {
		return err
	}
	// the linked stack is created with its mandatory first element: pointer #2
	if err := run("LStack", stack.NewLinked(tab[2]), []*int{tab[2]}, true); err != nil {
		return err
	}
	twins := false
	for _, op := range c.Ops {
		twins = twins || op == 0 || op == 1
	}
	r.NonTrivialIf(twins, "a pointer with an equal-valued twin was pushed")
	return nil
}

// ---------------------------------------------------------------------------
// floats: element values that are not equal to themselves (NaN) or equal to the zero value

type fStack interface {
	Push(float64)
	Pop() float64
	Peek() float64
	Search(float64) bool
	Size() int
}

// floatProp replays PtrCase operations (op >= 0: Push of tab[op%4], otherwise Pop) on stacks of float64 whose elements
// are drawn from {NaN, 0, 1.5, +Inf}. A NaN is an element like any other for Push, Pop, Peek and Size (compared here by
// bit pattern); Search(x) is true exactly when a held element == x, so it never finds a NaN.
func floatProp(c PtrCase, r *pbt.R) error {
	if len(c.Ops) > 200 {
		return nil
	}
	tab := []float64{math.NaN(), 0, 1.5, math.Inf(1)}
	names := []string{"NaN", "0", "1.5", "+Inf"}
	same := func(a, b float64) bool { return math.Float64bits(a) == math.Float64bits(b) }
	show := func(ops []int) string {
		var sb []string
		for _, op := range ops {
			if op >= 0 {
				sb = append(sb, "Push("+names[op%len(tab)]+")")
			} else {
				sb = append(sb, "Pop")
			}
		}
		return "[" + strings.Join(sb, " ") + "]"
	}
	run := func(name string, st fStack, model []float64, linked bool) error {
		for i, op := range c.Ops {
			switch {
			case op >= 0:
				v := tab[op%len(tab)]
				st.Push(v)
				model = append(model, v)
			default:
				got := st.Pop()
				if len(model) == 0 {
					if got != 0 {
						return fmt.Errorf("%s of float64, ops %s: Pop on an empty stack returned %v", name, show(c.Ops[:i+1]), got)
					}
				} else {
					if !(linked && r.KF(kfPopBelow)) && !same(got, model[len(model)-1]) {
						return fmt.Errorf("%s of float64, ops %s: Pop returned %v, want the element pushed last, %v", name, show(c.Ops[:i+1]), got, model[len(model)-1])
					}
					model = model[:len(model)-1]
				}
			}
			if st.Size() != len(model) {
				return fmt.Errorf("%s of float64, ops %s: Size() = %d, want %d", name, show(c.Ops[:i+1]), st.Size(), len(model))
			}
			top := 0.0
			if len(model) > 0 {
				top = model[len(model)-1]
			}
			if got := st.Peek(); !same(got, top) {
				return fmt.Errorf("%s of float64, ops %s: Peek() = %v, want the element pushed last, %v (0 when empty)", name, show(c.Ops[:i+1]), got, top)
			}
			for j, v := range append(append([]float64(nil), tab...), 2.5) {
				held := false
				for _, q := range model {
					held = held || q == v
				}
				if got := st.Search(v); got != held {
					return fmt.Errorf("%s of float64, ops %s: Search(%v) = %v, want %v (value #%d; held %v)", name, show(c.Ops[:i+1]), v, got, held, j, model)
				}
			}
		}
		return nil
	}
	if err := run("Stack", stack.New[float64](), nil, false); err != nil {
		return err
	}
	// the linked stack is created with its mandatory first element: once a NaN, once the zero value
	if err := run("LStack(first NaN)", stack.NewLinked(tab[0]), []float64{tab[0]}, true); err != nil {
		return err
	}
	if err := run("LStack(first 0)", stack.NewLinked(tab[1]), []float64{tab[1]}, true); err != nil {
		return err
	}
	nan := false
	for _, op := range c.Ops {
		nan = nan || (op >= 0 && op%len(tab) == 0)
	}
	pops := 0
	for _, op := range c.Ops {
		if op < 0 {
			pops++
		}
	}
	r.NonTrivialIf(nan || pops > 0, "a NaN was pushed or the stack created around a NaN / zero element was popped")
	return nil
}

// ---------------------------------------------------------------------------
// bulk: deep stacks (hundreds to thousands of elements), observed at the phase boundaries

// BulkCase: Phases are (kind, count): 0 = Push count elements (a running counter 1, 2, 3, ...: every element unique, the zero
// value never pushed), 1 = Pop count times (whatever the depth). The linked stack starts with [1].
type BulkCase struct {
	Linked bool     `json:"linked"`
	Phases [][2]int `json:"phases"`
}

var bulkCounts = []int{1, 2, 5, 31, 32, 33, 63, 64, 65, 100, 127, 128, 129, 255, 256, 257, 300, 511, 512, 513, 1000, 1023, 1024, 1025, 2000, 4097}

func bulkGen(s pbt.Src, thorough bool) BulkCase {
	c := BulkCase{Linked: pbt.Bool(s)}
	max := 8
	if thorough {
		max = 16
	}
	c.Phases = pbt.Seq(s, 2, max, func(s pbt.Src) [2]int {
		n := bulkCounts[s.Intn(len(bulkCounts))]
		if s.Intn(4) == 0 {
			n = 1 + s.Intn(3000)
		}
		return [2]int{s.Intn(2), n}
	})
	return c
}

func bulkProp(c BulkCase, r *pbt.R) error {
	var st stk
	var model []int
	next := 0
	name := "stack.New[int]()"
	if c.Linked {
		next = 1
		st = stack.NewLinked(1)
		model = []int{1}
		name = "stack.NewLinked(1)"
	} else {
		st = stack.New[int]()
	}
	carve := c.Linked && r.KF(kfPopBelow)
	total, maxDepth := 0, 0
	popOne := func(ctx func() string, i int) error {
		got := st.Pop()
		if len(model) == 0 {
			if got != 0 {
				return fmt.Errorf("%s: Pop #%d on the empty stack returned %d, want the zero value", ctx(), i, got)
			}
			return nil
		}
		want := model[len(model)-1]
		model = model[:len(model)-1]
		if carve {
			r.Excluded(kfPopBelow) // open finding: the value LStack.Pop returns is not compared, its effect is
		} else if got != want {
			return fmt.Errorf("%s: Pop #%d returned %d, want %d (%d elements held before)", ctx(), i, got, want, len(model)+1)
		}
		return nil
	}
	for pi, ph := range c.Phases {
		kind, n := ((ph[0]%2)+2)%2, ph[1]
		if n < 0 || n > 5000 || total > 40000 {
			return nil
		}
		total += n
		ctx := func() string { return fmt.Sprintf("%s, phases (0 Push n, 1 Pop n) %v, in phase %d", name, c.Phases[:pi+1], pi) }
		if kind == 0 {
			for i := 0; i < n; i++ {
				next++
				st.Push(next)
				model = append(model, next)
			}
		} else {
			for i := 0; i < n; i++ {
				if err := popOne(ctx, i+1); err != nil {
					return err
				}
				if i%64 == 0 && st.Size() != len(model) {
					return fmt.Errorf("%s: after Pop #%d Size() = %d, want %d", ctx(), i+1, st.Size(), len(model))
				}
			}
		}
		if len(model) > maxDepth {
			maxDepth = len(model)
		}
		if got := st.Size(); got != len(model) {
			return fmt.Errorf("%s: Size() = %d, want %d", ctx(), got, len(model))
		}
		probe := map[int]bool{0: false, next + 1: false}
		wantTop := 0
		if len(model) > 0 {
			wantTop = model[len(model)-1]
			probe[model[0]], probe[wantTop], probe[model[len(model)/2]] = true, true, true
			if wantTop < next {
				probe[wantTop+1] = false // popped last
			}
		}
		if got := st.Peek(); got != wantTop {
			return fmt.Errorf("%s: Peek() = %d, want %d (%d elements held)", ctx(), got, wantTop, len(model))
		}
		for v, want := range probe {
			if got := st.Search(v); got != want {
				return fmt.Errorf("%s: Search(%d) = %v, want %v (%d elements held)", ctx(), v, got, want, len(model))
			}
		}
	}
	ctx := func() string { return fmt.Sprintf("%s, phases %v, final drain", name, c.Phases) }
	for i := 1; len(model) > 0; i++ {
		if err := popOne(ctx, i); err != nil {
			return err
		}
	}
	if got := st.Size(); got != 0 {
		return fmt.Errorf("%s: Size() = %d afterwards", ctx(), got)
	}
	if got := st.Pop(); got != 0 || st.Size() != 0 {
		return fmt.Errorf("%s: Pop on the drained stack returned %d, Size() = %d", ctx(), got, st.Size())
	}
	st.Push(7)
	if st.Size() != 1 || st.Peek() != 7 || !st.Search(7) {
		return fmt.Errorf("%s: after Push(7) on the drained stack Size() = %d, Peek() = %d, Search(7) = %v", ctx(), st.Size(), st.Peek(), st.Search(7))
	}
	r.NonTrivialIf(maxDepth >= 256, "held >= 256 elements at some point")
	return nil
}

func TestProp(t *testing.T) {
	lifoQ, obsQ := enumLens(false)
	lifoT, obsT := enumLens(true)
	common := "Reference model: a slice with the top at the end. Oracle per call: Pop returns the model's top and removes it (on an empty stack: zero value, nothing changes), " +
		"Peek returns the top (empty: zero value), Size = len(model), Search(v) = v is held, for v over the zero value, every value used and one value never pushed. " +
		"Every case ends with the same epilogue: complete observation, drain by exactly len(model) Pops (Size and Peek after each), two Pops on the empty stack, Push(1) Push(2) Pop Pop, with a complete observation after each. " +
		"The enumerations push non-zero elements only; half of the random cases also push the zero value (0, \"\") and may start the linked stack with it: it is an element like any other. "
	nt := "Non-trivial = the stack was emptied by a Pop and pushed to again, or a Pop removed an element with at least one other Push/Pop between its Push and that Pop (epilogue not counted). "
	pbt.Run(t, "C06",
		&pbt.Check[Case]{
			Name: "lifo",
			Rule: common + fmt.Sprintf("Enumerated: start configurations New[int]() and NewLinked(1|2|3) x complete observation after every step on/off x every sequence over {Push(1),Push(2),Push(3),Pop} up to length %d (thorough %d). ", lifoQ, lifoT) +
				"Random: both implementations with int and string elements, alphabet 1..3-5 (or 0..3-5), up to 80 (160) bursts (1-4 Pushes | 1-6 Pops | one of Peek/Size/Search(v) | complete observation), pop-heavy so that the stack is drained, popped while empty and refilled repeatedly. " +
				nt + "Distinct = enumerated cases (injective encoding) + hash-distinct random cases that are longer than the enumerated bound, use string elements, a value > 3 or the zero value.",
			Enum: enumLifo, Gen: gen, Prop: prop, OutOfEnum: outOfEnum,
			RapidQuick: 4000, RapidThorough: 50000,
			Fixed: fixedCases,
		},
		&pbt.Check[Case]{
			Name: "observers",
			Rule: common + fmt.Sprintf("Enumerated: the same four start configurations x every sequence over the 11 single calls {Push(1..3), Pop, Peek, Size, Search(0..4)} up to length %d (thorough %d), no observation other than the calls of the sequence before the epilogue. ", obsQ, obsT) +
				nt + "Here a case additionally needs at least one Peek/Size/Search call to count (which makes the counted cases disjoint from the lifo enumeration).",
			Enum: enumObservers, Prop: observersProp,
		},
		&pbt.Check[PtrCase]{
			Name: "pointers",
			Rule: "both stacks instantiated with *int: Push of one of four pointers (two of them point to equal integers) / Pop; after every call Size, Peek (pointer identity) and Search of all four pointers and of a never-pushed fifth pointer to an equal integer: Search reports exactly the POINTERS held. " +
				"Enumerated: every sequence of up to 4 (thorough 5) operations over {Push p0..p3, Pop}; random: up to 40. Non-trivial = a pointer that has an equal-valued twin was pushed.",
			Enum: func(s pbt.Src, thorough bool) PtrCase {
				n := 4
				if thorough {
					n = 5
				}
				return PtrCase{Ops: pbt.Seq(s, 0, n, func(s pbt.Src) int { return s.Intn(5) - 1 })}
			},
			Gen:        func(s pbt.Src, _ bool) PtrCase { return PtrCase{Ops: pbt.Seq(s, 0, 40, func(s pbt.Src) int { return s.Intn(6) - 2 })} },
			Prop:       ptrProp,
			OutOfEnum:  func(c PtrCase, th bool) bool { return len(c.Ops) > 5 },
			RapidQuick: 200, RapidThorough: 3000,
		},
		&pbt.Check[PtrCase]{
			Name: "floats",
			Rule: "both stacks instantiated with float64, elements from {NaN, 0, 1.5, +Inf} (the linked stack created once around a NaN and once around the zero value): Push / Pop; after every call Size, Peek (bit pattern: a NaN is an element like any other) and Search of the four values and of a never-pushed one (true exactly when a held element == it, so never for NaN). " +
				"Enumerated: every sequence of up to 4 (thorough 5) operations over {Push of each value, Pop}; random: up to 40. Non-trivial = a NaN was pushed or a Pop reached the element the linked stack was created with.",
			Enum: func(s pbt.Src, thorough bool) PtrCase {
				n := 4
				if thorough {
					n = 5
				}
				return PtrCase{Ops: pbt.Seq(s, 0, n, func(s pbt.Src) int { return s.Intn(5) - 1 })}
			},
			Gen:        func(s pbt.Src, _ bool) PtrCase { return PtrCase{Ops: pbt.Seq(s, 0, 40, func(s pbt.Src) int { return s.Intn(6) - 2 })} },
			Prop:       floatProp,
			OutOfEnum:  func(c PtrCase, th bool) bool { return len(c.Ops) > 5 },
			RapidQuick: 200, RapidThorough: 3000,
		},
		&pbt.Check[BulkCase]{
			Name: "bulk",
			Rule: "deep stacks, both implementations: 2..8 (thorough 16) phases of Push n (a running counter: every element unique) / Pop n (whatever the depth) with n around the powers of two up to 4097 or random up to 3000; every Pop result is compared with the model (linked stack: subject to the open finding), " +
				"Size every 64 Pops, and at every phase boundary Size, Peek and Search of the bottom, middle and top elements, of the element popped last, of the zero value and of a value never pushed; final drain, Pop on the drained stack, Push on it. Random only. Non-trivial = the stack held >= 256 elements at some point.",
			Gen: bulkGen, Prop: bulkProp, OutOfEnum: func(BulkCase, bool) bool { return true },
			RapidQuick: 400, RapidThorough: 6000,
		},
	)
}

// Hand-written boundary cases: the sequences of the repository's own linked-stack
// test and example, and the smallest empty-stack situations.
var fixedCases = []Case{
	{Impl: implSlice, Ops: []Op{}},
	{Impl: implSlice, Ops: []Op{{Kind: opPop}, {Kind: opPeek}, {Kind: opSize}, {Kind: opPush, Val: 1}, {Kind: opPop}, {Kind: opPop}, {Kind: opObserve}}},
	{Impl: implLinked, First: 1, Ops: []Op{}},
	{Impl: implLinked, First: 1, Every: true, Ops: []Op{{Kind: opPush, Val: 2}, {Kind: opPop}, {Kind: opPop}, {Kind: opPush, Val: 1}, {Kind: opPush, Val: 2}, {Kind: opPop}, {Kind: opPop}, {Kind: opPop}}},
	{Impl: implLinkedStr, First: 1, Every: true, Ops: []Op{{Kind: opPush, Val: 2}, {Kind: opPeek}, {Kind: opPop}, {Kind: opPeek}, {Kind: opSearch, Val: 1}}},
	{Impl: implSliceStr, Every: true, Ops: []Op{{Kind: opPush, Val: 2}, {Kind: opPush, Val: 2}, {Kind: opPop}, {Kind: opSearch, Val: 2}, {Kind: opPop}, {Kind: opPop}}},
}
