// C20: Delay, debounce and throttle never fire early or more often than allowed.
//
// Every case runs inside a testing/synctest bubble, so all instants are exact
// virtual times; the oracles still only assert what the statement says and accept
// either outcome when two events fall on the same instant.
package c20

import (
	"fmt"
	"math"
	"runtime"
	"sort"
	"sync"
	"sync/atomic"
	"testing"
	"testing/synctest"
	"time"

	"github.com/esimov/gogu"
	"verif/pbt"
)

const ms = time.Millisecond

// ===========================================================================
// Delay

// the last two (random and fixed cases only) are not whole milliseconds
// the last one is the largest Duration ("never, until it is stopped or reset"): it must not fire within any case
var delayWaits = []time.Duration{5 * ms, 20 * ms, 50 * ms, 900 * time.Microsecond, 7*ms + 300*time.Microsecond, time.Duration(math.MaxInt64)}

// DelayOp: one Delay(wait, fn) started Gap after the previous one; Stop: 0 none,
// 1 = Stop 1ns before it is due, 2 = exactly when due, 3 = 1ns after, 4 = at half time.
type DelayOp struct {
	Gap  int `json:"gap_ms"`
	Wait int `json:"wait"`
	Stop int `json:"stop"`
}

type DelayCase struct {
	Ops []DelayOp `json:"ops"`
}

func delayEnum(s pbt.Src, thorough bool) DelayCase {
	n := 3
	if thorough {
		n = 4
	}
	return DelayCase{Ops: pbt.Seq(s, 1, n, func(s pbt.Src) DelayOp {
		i := s.Intn(3 * 3 * 5)
		return DelayOp{Gap: []int{0, 3, 20}[i%3], Wait: (i / 3) % 3, Stop: i / 9}
	})}
}

func delayGen(s pbt.Src, thorough bool) DelayCase {
	return DelayCase{Ops: pbt.Seq(s, 1, 12, func(s pbt.Src) DelayOp {
		return DelayOp{Gap: s.Intn(40), Wait: s.Intn(len(delayWaits)), Stop: s.Intn(5)}
	})}
}

func delayProp(c DelayCase, r *pbt.R) error {
	t0 := time.Now()
	type rec struct {
		start, wait time.Duration
		stopAt      time.Duration // -1 none
		stopRet     bool
		fired       []time.Duration
	}
	recs := make([]*rec, len(c.Ops))
	var mu sync.Mutex
	var wg sync.WaitGroup
	at := time.Duration(0)
	for i, op := range c.Ops {
		at += time.Duration(op.Gap) * ms
		rc := &rec{start: at, wait: delayWaits[((op.Wait%len(delayWaits))+len(delayWaits))%len(delayWaits)], stopAt: -1}
		if rc.wait > time.Hour {
			// never due within the case: an optional Stop at 10ms, which must report that it stopped the timer
			if op.Stop != 0 {
				rc.stopAt = at + 10*ms
			}
			op.Stop = 0
		}
		switch op.Stop {
		case 1:
			rc.stopAt = at + rc.wait - 1
		case 2:
			rc.stopAt = at + rc.wait
		case 3:
			rc.stopAt = at + rc.wait + 1
		case 4:
			rc.stopAt = at + rc.wait/2
		}
		recs[i] = rc
		wg.Add(1)
		go func() {
			defer wg.Done()
			time.Sleep(rc.start)
			tm := gogu.Delay(rc.wait, func() {
				mu.Lock()
				rc.fired = append(rc.fired, time.Since(t0))
				mu.Unlock()
			})
			if rc.stopAt >= 0 {
				time.Sleep(rc.stopAt - rc.start)
				rc.stopRet = tm.Stop()
			}
		}()
	}
	wg.Wait()
	time.Sleep(200 * ms) // generous quiescence
	synctest.Wait()
	mu.Lock()
	defer mu.Unlock()
	for i, rc := range recs {
		if rc.wait > time.Hour {
			if len(rc.fired) != 0 {
				return fmt.Errorf("%+v: Delay #%d with the largest Duration as wait (called at %v) ran at %v", c.Ops, i, rc.start, rc.fired[0])
			}
			if rc.stopAt >= 0 && !rc.stopRet {
				return fmt.Errorf("%+v: Delay #%d with the largest Duration as wait: Stop at %v reported that the timer had already fired", c.Ops, i, rc.stopAt)
			}
			r.NonTrivialIf(true, "largest Duration as wait")
			continue
		}
		due := rc.start + rc.wait
		where := fmt.Sprintf("%+v: Delay #%d (called at %v, wait %v, Stop at %v)", c.Ops, i, rc.start, rc.wait, rc.stopAt)
		if len(rc.fired) > 1 {
			return fmt.Errorf("%s ran %d times", where, len(rc.fired))
		}
		for _, f := range rc.fired {
			if f < due {
				return fmt.Errorf("%s ran at %v, sooner than the wait after the call", where, f)
			}
		}
		switch {
		case rc.stopAt < 0 || rc.stopAt > due:
			if len(rc.fired) != 1 {
				return fmt.Errorf("%s never ran although it was not stopped in time", where)
			}
			r.NonTrivialIf(rc.stopAt > due, "Stop after it ran")
		case rc.stopAt < due:
			if len(rc.fired) != 0 {
				return fmt.Errorf("%s ran at %v although it was stopped before it was due", where, rc.fired[0])
			}
			r.NonTrivialIf(true, "Stop before due")
		default:
			r.Label("Stop exactly when due (either outcome)")
		}
	}
	r.NonTrivialIf(len(recs) >= 2, ">= 2 delays")
	return nil
}

// ===========================================================================
// Debounce

// the third one (random and fixed cases only) is not a whole number of milliseconds
var debWaits = []time.Duration{5 * ms, 20 * ms, 6*ms + 700*time.Microsecond}

// DebEv: an event Gap after the previous one. Gap is an index into a table of
// gaps relative to the wait: 0, 1ms, wait-1ms, wait, wait+1ms, 3*wait.
// Kind 0: one call; 1: three goroutines call at the same instant; 2: cancel.
type DebEv struct {
	Gap  int `json:"gap"`
	Kind int `json:"kind"`
	N    int `json:"n,omitempty"` // random generator: number of simultaneous callers (kind 1)
}

type DebCase struct {
	Wait int `json:"wait"`
	// Slow: how long every debounced function takes once it runs (virtual time): 0 = no time, 1 = wait/2, 2 = 2*wait+1ms.
	// A later call or cancel can then arrive WHILE an earlier function is still running; the oracle only looks at the
	// instants at which the functions start, so it is the same for every value.
	Slow int `json:"slow,omitempty"`
	GapsNs []int64 `json:"gaps_ns,omitempty"` // random generator: explicit gaps override the table
	Evs    []DebEv `json:"events"`
}

func debSlow(wait time.Duration, idx int) time.Duration {
	switch idx {
	case 1:
		return wait / 2
	case 2:
		return 2*wait + 1*ms
	}
	return 0
}

func debGap(wait time.Duration, idx int) time.Duration {
	return []time.Duration{0, 1 * ms, wait - 1*ms, wait, wait + 1*ms, 3 * wait}[idx]
}

func debEnum(s pbt.Src, thorough bool) DebCase {
	n := 4
	if thorough {
		n = 5
	}
	c := DebCase{Wait: s.Intn(2), Slow: s.Intn(3)}
	c.Evs = pbt.Seq(s, 1, n, func(s pbt.Src) DebEv {
		i := s.Intn(18)
		return DebEv{Gap: i % 6, Kind: i / 6}
	})
	return c
}

func debGen(s pbt.Src, thorough bool) DebCase {
	c := DebCase{Wait: s.Intn(len(debWaits)), Slow: s.Intn(3)}
	w := debWaits[c.Wait]
	c.Evs = pbt.Seq(s, 1, 50, func(s pbt.Src) DebEv {
		ev := DebEv{Kind: 0}
		switch k := s.Intn(12); {
		case k == 0:
			ev.Kind = 2
		case k <= 2:
			ev.Kind = 1
			ev.N = 2 + s.Intn(4)
		}
		// gap: mostly below the wait (bursts), sometimes around or above it
		var g time.Duration
		switch s.Intn(6) {
		case 0, 1, 2:
			g = time.Duration(s.Intn(int(w/ms))) * ms
		case 3:
			g = w + time.Duration(s.Intn(3)-1) // wait-1ns, wait, wait+1ns
		case 4:
			g = w + time.Duration(1+s.Intn(30))*ms
		case 5:
			g = 0
		}
		c.GapsNs = append(c.GapsNs, int64(g))
		return ev
	})
	if len(c.GapsNs) != len(c.Evs) { // shrinking may desynchronise the two lists
		c.GapsNs = nil
	}
	return c
}

func debProp(c DebCase, r *pbt.R) error {
	wait := debWaits[((c.Wait%len(debWaits))+len(debWaits))%len(debWaits)]
	debounced, cancel := gogu.NewDebounce(wait)
	slow := debSlow(wait, c.Slow%3)
	t0 := time.Now()
	type call struct {
		at    time.Duration
		ev    int
		fired []time.Duration
	}
	var mu sync.Mutex
	var calls []*call
	var cancels []time.Duration
	cancelEv := map[time.Duration]int{} // instant -> index of the last cancel event at it
	at := time.Duration(0)
	for i, ev := range c.Evs {
		g := debGap(wait, ev.Gap%6)
		if c.GapsNs != nil {
			g = time.Duration(c.GapsNs[i])
		}
		if g > 0 {
			time.Sleep(g)
			synctest.Wait()
		}
		at += g
		switch ev.Kind {
		case 0:
			cl := &call{at: at, ev: i}
			calls = append(calls, cl)
			debounced(func() {
				mu.Lock()
				cl.fired = append(cl.fired, time.Since(t0))
				mu.Unlock()
				if slow > 0 {
					time.Sleep(slow)
				}
			})
		case 1:
			n := 3
			if ev.N >= 2 {
				n = ev.N
			}
			var wg sync.WaitGroup
			for j := 0; j < n; j++ {
				cl := &call{at: at, ev: i}
				calls = append(calls, cl)
				wg.Add(1)
				go func() {
					defer wg.Done()
					debounced(func() {
						mu.Lock()
						cl.fired = append(cl.fired, time.Since(t0))
						mu.Unlock()
						if slow > 0 {
							time.Sleep(slow)
						}
					})
				}()
			}
			wg.Wait()
		case 2:
			cancel()
			cancels = append(cancels, at)
			cancelEv[at] = i
		}
	}
	time.Sleep(10*wait + 100*ms)
	synctest.Wait()
	mu.Lock()
	defer mu.Unlock()

	desc := fmt.Sprintf("wait %v, every debounced function takes %v, events", wait, slow)
	{
		t := time.Duration(0)
		for i, ev := range c.Evs {
			g := debGap(wait, ev.Gap%6)
			if c.GapsNs != nil {
				g = time.Duration(c.GapsNs[i])
			}
			t += g
			desc += fmt.Sprintf(" %s@%v", []string{"call", "calls", "cancel"}[ev.Kind], t)
		}
	}
	// group the calls by instant
	var instants []time.Duration
	byInstant := map[time.Duration][]*call{}
	for _, cl := range calls {
		if _, ok := byInstant[cl.at]; !ok {
			instants = append(instants, cl.at)
		}
		byInstant[cl.at] = append(byInstant[cl.at], cl)
	}
	sort.Slice(instants, func(i, j int) bool { return instants[i] < instants[j] })
	allEvents := append([]time.Duration(nil), instants...)
	allEvents = append(allEvents, cancels...)

	bursts, superseded, cancelled, fired := 0, 0, 0, 0
	for _, cl := range calls {
		if len(cl.fired) > 1 {
			return fmt.Errorf("%s: the function passed at %v ran %d times", desc, cl.at, len(cl.fired))
		}
		for _, f := range cl.fired {
			fired++
			if f < cl.at+wait {
				return fmt.Errorf("%s: the function passed at %v ran at %v, sooner than the wait after its call", desc, cl.at, f)
			}
			// never sooner than the wait after the MOST RECENT call
			for _, t := range instants {
				if t < f && t+wait > f {
					return fmt.Errorf("%s: a debounced function ran at %v, less than the wait after the call at %v", desc, f, t)
				}
			}
			for _, x := range cancels {
				if (cl.at < x || (cl.at == x && cancelEv[x] > cl.ev)) && x < cl.at+wait {
					return fmt.Errorf("%s: the function passed at %v ran at %v although cancel was called at %v", desc, cl.at, f, x)
				}
			}
		}
	}
	for _, t := range instants {
		group := byInstant[t]
		due := t + wait
		// what happens in (t, due) and at due?
		before, atDue := false, false
		for _, e := range allEvents {
			if e > t && e < due {
				before = true
			}
			if e == due {
				atDue = true
			}
		}
		// events at one instant are sequential in this harness: the later one wins
		lastCallEv := -1
		for _, cl := range group {
			if cl.ev > lastCallEv {
				lastCallEv = cl.ev
			}
		}
		cancelledAfter := false
		if ev, ok := cancelEv[t]; ok && ev > lastCallEv {
			cancelledAfter = true
		}
		n := 0
		for _, cl := range group {
			n += len(cl.fired)
			if len(cl.fired) > 0 && cl.ev != lastCallEv {
				return fmt.Errorf("%s: a function passed at %v ran although a later call was made at the same instant", desc, t)
			}
		}
		if n > 1 {
			return fmt.Errorf("%s: %d of the functions passed at %v ran; a burst may run at most one", desc, n, t)
		}
		switch {
		case before:
			if n != 0 {
				return fmt.Errorf("%s: a function passed at %v ran although another call or cancel arrived before the wait was over", desc, t)
			}
			superseded++
		case cancelledAfter:
			if n != 0 {
				return fmt.Errorf("%s: a function passed at %v ran although cancel was called afterwards at the same instant", desc, t)
			}
			cancelled++
		case atDue:
			r.Label("next event exactly when due (either outcome)")
		default:
			if n != 1 {
				return fmt.Errorf("%s: none of the functions passed at %v ran although no later call or cancel arrived within the wait", desc, t)
			}
			// (when exactly it runs, beyond "not sooner than the wait", is not part of the statement)
			bursts++
		}
	}
	r.NonTrivialIf(superseded > 0 && bursts > 0, "burst with superseded calls that fired once")
	r.NonTrivialIf(len(cancels) > 0 && len(calls) > 0, "cancel")
	r.NonTrivialIf(bursts >= 2, ">= 2 bursts fired")
	if len(calls) >= 20 {
		r.Label(">= 20 calls")
	}
	if slow > 0 {
		during := false
		for _, cl := range calls {
			for _, f := range cl.fired {
				for _, e := range allEvents {
					if e > f && e < f+slow {
						during = true
					}
				}
			}
		}
		if during {
			r.Label("call or cancel while a debounced function was still running")
		}
	}
	return nil
}

// ===========================================================================
// Throttle

var thrWaits = []time.Duration{6 * ms, 20 * ms}
var thrThinks = []time.Duration{0, 3 * ms, 25 * ms}
var thrGaps = []time.Duration{0, 1 * ms, 5 * ms, 21 * ms}

// ThrEv: Kind 0 = Call (trigger), 1 = Cancel.
type ThrEv struct {
	Gap  int `json:"gap"`
	Kind int `json:"kind"`
}

type ThrCase struct {
	Wait      int     `json:"wait"`
	Trailing  bool    `json:"trailing"`
	Think     int     `json:"think"`
	Consumers int     `json:"consumers"`
	LateStart int     `json:"late_start_ms,omitempty"` // consumers start asking this late
	GapsNs    []int64 `json:"gaps_ns,omitempty"`
	Evs       []ThrEv `json:"events"`
}

func thrEnum(s pbt.Src, thorough bool) ThrCase {
	n := 4
	if thorough {
		n = 6
	}
	i := s.Intn(2 * 2 * 3 * 2)
	c := ThrCase{Wait: i % 2, Trailing: (i/2)%2 == 1, Think: (i / 4) % 3, Consumers: 1 + i/12}
	c.Evs = pbt.Seq(s, 1, n, func(s pbt.Src) ThrEv {
		j := s.Intn(8)
		return ThrEv{Gap: j % 4, Kind: j / 4}
	})
	return c
}

func thrGen(s pbt.Src, thorough bool) ThrCase {
	c := ThrCase{Wait: s.Intn(2), Trailing: pbt.Bool(s), Think: s.Intn(3), Consumers: 1 + s.Intn(3), LateStart: pbt.Pick(s, 0, 0, 4, 30)}
	w := thrWaits[c.Wait]
	c.Evs = pbt.Seq(s, 1, 30, func(s pbt.Src) ThrEv {
		ev := ThrEv{}
		if s.Intn(15) == 0 {
			ev.Kind = 1
		}
		var g time.Duration
		switch s.Intn(5) {
		case 0:
			g = 0
		case 1, 2:
			g = time.Duration(s.Intn(int(w/ms)+1)) * ms
		case 3:
			g = w + time.Duration(s.Intn(3)-1)
		case 4:
			g = w + time.Duration(1+s.Intn(40))*ms
		}
		c.GapsNs = append(c.GapsNs, int64(g))
		return ev
	})
	if len(c.GapsNs) != len(c.Evs) {
		c.GapsNs = nil
	}
	return c
}

type nextRec struct {
	cons       int
	start, end time.Duration
	ok         bool
}

func thrProp(c ThrCase, r *pbt.R) error {
	wait, think := thrWaits[c.Wait], thrThinks[c.Think]
	th := gogu.NewThrottle(wait, c.Trailing)
	t0 := time.Now()
	since := func() time.Duration { return time.Since(t0) }
	var mu sync.Mutex
	var nexts []nextRec
	var wg sync.WaitGroup
	ncons := c.Consumers
	if ncons < 1 {
		ncons = 1
	}
	for k := 0; k < ncons; k++ {
		k := k
		wg.Add(1)
		go func() {
			defer wg.Done()
			if c.LateStart > 0 {
				time.Sleep(time.Duration(c.LateStart) * ms)
			}
			for i := 0; i < 200; i++ {
				s := since()
				ok := th.Next()
				e := since()
				mu.Lock()
				nexts = append(nexts, nextRec{cons: k, start: s, end: e, ok: ok})
				mu.Unlock()
				if !ok {
					return
				}
				if think > 0 {
					time.Sleep(think)
				}
			}
		}()
	}
	synctest.Wait() // consumers are asking (unless they start late)

	var triggers []time.Duration
	cancelAt := time.Duration(-1)
	at := time.Duration(0)
	desc := fmt.Sprintf("throttle(wait %v, trailing %v), %d consumer(s) thinking %v, late start %dms; events", wait, c.Trailing, ncons, think, c.LateStart)
	for i, ev := range c.Evs {
		g := thrGaps[ev.Gap%4]
		if c.GapsNs != nil {
			g = time.Duration(c.GapsNs[i])
		}
		if g > 0 {
			time.Sleep(g)
			synctest.Wait()
		}
		at += g
		if ev.Kind == 0 {
			th.Call()
			triggers = append(triggers, at)
			desc += fmt.Sprintf(" Call@%v", at)
		} else {
			th.Cancel()
			if cancelAt < 0 {
				cancelAt = at
			}
			desc += fmt.Sprintf(" Cancel@%v", at)
		}
		synctest.Wait()
	}
	time.Sleep(10*wait + 100*ms) // quiescence: trailing grants happen
	synctest.Wait()
	finalCancel := since()
	th.Cancel() // always release the consumers
	if cancelAt < 0 {
		cancelAt = finalCancel
	}
	wg.Wait()
	after := th.Next()
	afterDur := since() - finalCancel
	mu.Lock()
	defer mu.Unlock()
	sort.SliceStable(nexts, func(i, j int) bool { return nexts[i].end < nexts[j].end })

	var grants []time.Duration
	for _, n := range nexts {
		if n.ok {
			grants = append(grants, n.end)
		}
	}
	desc += fmt.Sprintf("; grants at %v", grants)
	if after || afterDur != 0 {
		return fmt.Errorf("%s: Next() after Cancel returned %v after %v, want false at once", desc, after, afterDur)
	}
	// (1) at most one permission per period
	for i := 1; i < len(grants); i++ {
		if grants[i]-grants[i-1] < wait {
			return fmt.Errorf("%s: two permissions %v apart (at %v and %v), less than the period %v", desc, grants[i]-grants[i-1], grants[i-1], grants[i], wait)
		}
	}
	// (2) every permission is backed by a trigger of its own
	for i, g := range grants {
		n := 0
		for _, t := range triggers {
			if t <= g {
				n++
			}
		}
		if n < i+1 {
			return fmt.Errorf("%s: permission #%d at %v, but only %d trigger(s) had arrived by then", desc, i+1, g, n)
		}
		prev := time.Duration(-1 << 62)
		if i > 0 {
			prev = grants[i-1]
		}
		ok := false
		for _, t := range triggers {
			if t >= prev && t <= g {
				if c.Trailing || i == 0 || t-prev >= wait {
					ok = true
				}
			}
		}
		if !ok {
			if c.Trailing {
				return fmt.Errorf("%s: permission at %v without any trigger since the previous permission (%v)", desc, g, prev)
			}
			return fmt.Errorf("%s: permission at %v, but every trigger since the previous permission (%v) arrived inside its period and trailing is off", desc, g, prev)
		}
		// (5) nothing is granted after Cancel
		if g > cancelAt {
			return fmt.Errorf("%s: permission at %v, after Cancel at %v", desc, g, cancelAt)
		}
	}
	// (5) Cancel releases every pending Next at once; later ones return false immediately
	for _, n := range nexts {
		switch {
		case n.start > cancelAt:
			if n.ok || n.end != n.start {
				return fmt.Errorf("%s: Next() called at %v, after Cancel at %v, returned %v at %v", desc, n.start, cancelAt, n.ok, n.end)
			}
		case n.end > cancelAt:
			return fmt.Errorf("%s: Next() pending since %v was released at %v, not by Cancel at %v", desc, n.start, n.end, cancelAt)
		}
	}
	// (4) liveness: a trigger that must be honoured is honoured at the first instant a consumer asks
	lastGrantBefore := func(t time.Duration) (time.Duration, bool) {
		best, ok := time.Duration(0), false
		for _, g := range grants {
			if g <= t {
				best, ok = g, true
			}
		}
		return best, ok
	}
	firstAsk := func(avail time.Duration) (time.Duration, bool) {
		best, ok := time.Duration(0), false
		for _, n := range nexts {
			if n.end >= avail {
				t := n.start
				if t < avail {
					t = avail
				}
				if !ok || t < best {
					best, ok = t, true
				}
			}
		}
		return best, ok
	}
	hasGrantAt := func(t time.Duration) bool {
		for _, g := range grants {
			if g == t {
				return true
			}
		}
		return false
	}
	leading, trailingHonoured, dropped := 0, 0, 0
	for _, t := range triggers {
		if t >= cancelAt {
			continue
		}
		prev, has := lastGrantBefore(t)
		switch {
		case !has || t-prev > wait:
			// idle throttle: the trigger is available from t on
			if tau, ok := firstAsk(t); ok && tau < cancelAt {
				if !hasGrantAt(tau) {
					return fmt.Errorf("%s: the trigger at %v arrived outside any period, a consumer was asking at %v, but no permission was handed out then", desc, t, tau)
				}
				leading++
			}
		case c.Trailing && prev < t && t-prev <= wait:
			// inside a period with trailing on: available at the end of the period
			avail := prev + wait
			if tau, ok := firstAsk(avail); ok && tau < cancelAt {
				if !hasGrantAt(tau) {
					return fmt.Errorf("%s: trailing is on and the trigger at %v arrived inside the period of the permission at %v, a consumer was asking at %v, but no permission was handed out then", desc, t, prev, tau)
				}
				trailingHonoured++
			}
		case !c.Trailing && prev < t && t-prev < wait:
			dropped++
		}
	}
	r.NonTrivialIf(len(grants) >= 2, ">= 2 permissions")
	r.NonTrivialIf(trailingHonoured > 0, "trailing trigger honoured")
	r.NonTrivialIf(dropped > 0 && len(grants) > 0, "trigger inside a period dropped (trailing off)")
	r.NonTrivialIf(cancelAt < finalCancel && len(triggers) > 0, "explicit cancel")
	if leading > 0 {
		r.Label("leading trigger honoured")
	}
	return nil
}

// ===========================================================================
// Throttle under the real scheduler and the real clock: many callers hammer Call while consumers loop on Next.
// Only a counting bound that wall-clock bracketing decides is asserted: n permissions need more than (n-1) periods, and
// all of them fall between the start of the experiment and the return of the last consumer.

type ThrFreeCase struct {
	Period    int  `json:"period"` // index into thrFreePeriods
	Trailing  bool `json:"trailing"`
	Callers   int  `json:"callers"`
	Consumers int  `json:"consumers"`
	Long      bool `json:"long"`
	Procs     int  `json:"procs"` // index into {2, 4, 16}
}

var thrFreePeriods = []time.Duration{10 * ms, 25 * ms}

func thrFreeGen(s pbt.Src, thorough bool) ThrFreeCase {
	return ThrFreeCase{Period: s.Intn(2), Trailing: pbt.Bool(s), Callers: 2 + s.Intn(7), Consumers: 1 + s.Intn(3), Long: thorough && pbt.Bool(s), Procs: s.Intn(3)}
}

func thrFreeProp(c ThrFreeCase, r *pbt.R) error {
	period := thrFreePeriods[((c.Period%2)+2)%2]
	callers, consumers := 2+((c.Callers-2)%7+7)%7, 1+((c.Consumers-1)%3+3)%3
	run := 120 * ms
	if c.Long {
		run = 400 * ms
	}
	defer runtime.GOMAXPROCS(runtime.GOMAXPROCS([]int{2, 4, 16}[((c.Procs%3)+3)%3]))
	th := gogu.NewThrottle(period, c.Trailing)
	var grants, calls atomic.Int64
	var stop atomic.Bool
	var wg, cwg sync.WaitGroup
	t0 := time.Now()
	for i := 0; i < consumers; i++ {
		cwg.Add(1)
		go func() {
			defer cwg.Done()
			for th.Next() {
				grants.Add(1)
			}
		}()
	}
	for i := 0; i < callers; i++ {
		wg.Add(1)
		go func() {
			defer wg.Done()
			for !stop.Load() {
				th.Call()
				calls.Add(1)
				runtime.Gosched()
			}
		}()
	}
	time.Sleep(run)
	stop.Store(true)
	wg.Wait()
	th.Cancel()
	done := make(chan struct{})
	go func() { cwg.Wait(); close(done) }()
	select {
	case <-done:
	case <-time.After(10 * time.Second):
		return fmt.Errorf("throttle(period %v, trailing %v), %d callers, %d consumers: a consumer was still blocked in Next 10s after Cancel", period, c.Trailing, callers, consumers)
	}
	elapsed := time.Since(t0)
	n := grants.Load()
	if limit := int64(elapsed/period) + 1; n > limit {
		return fmt.Errorf("throttle(period %v, trailing %v), %d callers hammering Call (%d calls), %d consumers: %d permissions within %v of wall-clock time, but at most one per period allows %d",
			period, c.Trailing, callers, calls.Load(), consumers, n, elapsed, limit)
	}
	r.NonTrivialIf(n >= 2 && calls.Load() > 100, ">= 2 permissions under > 100 concurrent triggers")
	return nil
}

// ===========================================================================
// Debounce under the real scheduler and clock, with the machine kept busy: timers then fire late and their functions
// start even later, so a call (or cancel) can arrive between the firing of a timer and the start of its function.
// Every assertion is decided by wall-clock bracketing: c1 is read before a call, c2 after it returned, tf as the first
// thing a debounced function does.

type DebFreeCase struct {
	Wait  int `json:"wait"`  // index into debFreeWaits
	Calls int `json:"calls"` // number of calls
	Jit   int `json:"jit"`   // the gaps are wait + (i*Jit mod 21 - 10) * 10us
	Load  int `json:"load"`  // busy goroutines per CPU
}

var debFreeWaits = []time.Duration{2 * ms, 3 * ms}

func debFreeGen(s pbt.Src, thorough bool) DebFreeCase {
	n := 60
	if thorough {
		n = 200
	}
	return DebFreeCase{Wait: s.Intn(2), Calls: 20 + s.Intn(n), Jit: 1 + s.Intn(20), Load: 1 + s.Intn(2)}
}

func debFreeProp(c DebFreeCase, r *pbt.R) error {
	w := debFreeWaits[((c.Wait%2)+2)%2]
	ncalls := 1 + ((c.Calls-1)%400+400)%400
	deb, cancel := gogu.NewDebounce(w)
	type call struct {
		c1, c2 time.Duration
		fired  []time.Duration
	}
	t0 := time.Now()
	var mu sync.Mutex
	calls := make([]*call, 0, ncalls)
	stop := make(chan struct{})
	var bg sync.WaitGroup
	for i := 0; i < runtime.GOMAXPROCS(0)*(1+((c.Load-1)%2+2)%2); i++ {
		bg.Add(1)
		go func() {
			defer bg.Done()
			x := 0
			for {
				select {
				case <-stop:
					return
				default:
				}
				for k := 0; k < 2000; k++ {
					x += k * k
				}
				runtime.Gosched()
			}
		}()
	}
	for i := 0; i < ncalls; i++ {
		cl := &call{}
		cl.c1 = time.Since(t0)
		deb(func() {
			tf := time.Since(t0)
			mu.Lock()
			cl.fired = append(cl.fired, tf)
			mu.Unlock()
		})
		cl.c2 = time.Since(t0)
		mu.Lock()
		calls = append(calls, cl)
		mu.Unlock()
		time.Sleep(w + time.Duration((i*c.Jit)%21-10)*10*time.Microsecond)
	}
	// a last call that is cancelled at about the instant it is due
	last := &call{c1: time.Since(t0)}
	deb(func() {
		tf := time.Since(t0)
		mu.Lock()
		last.fired = append(last.fired, tf)
		mu.Unlock()
	})
	last.c2 = time.Since(t0)
	time.Sleep(w - 20*time.Microsecond)
	cancel()
	cancelled := time.Since(t0)
	time.Sleep(10*w + 20*ms)
	close(stop)
	bg.Wait()
	mu.Lock()
	defer mu.Unlock()
	desc := fmt.Sprintf("debounce(wait %v) under the real scheduler, %d calls about one wait apart, machine busy", w, ncalls)
	close2, late, firstLate, afterCancel := 0, 0, "", false
	all := append(append([]*call(nil), calls...), last)
	for i, ci := range all {
		if len(ci.fired) > 1 {
			return fmt.Errorf("%s: the function of call %d ran %d times", desc, i, len(ci.fired))
		}
		for _, tf := range ci.fired {
			if tf < ci.c1+w {
				return fmt.Errorf("%s: the function of call %d (made at %v or later) ran at %v, sooner than the wait after its own call", desc, i, ci.c1, tf)
			}
			for j, cj := range all {
				if j != i && cj.c2 < tf && tf < cj.c1+w {
					late++
					if firstLate == "" {
						firstLate = fmt.Sprintf("the function of call %d ran at %v, AFTER call %d had returned (%v..%v) and less than the wait after it", i, tf, j, cj.c1, cj.c2)
					}
				}
				if j != i && cj.c1 < tf && tf < cj.c2 {
					close2++
				}
			}
			if tf > cancelled {
				afterCancel = true
			}
		}
	}
	// No implementation can make "commit to run" and the function's first instruction one atomic step (short of holding
	// its lock while the function runs), so a thread that is descheduled exactly there produces an isolated event of this
	// kind even in a correct debouncer. Three or more in one case are not scheduling artefacts: the debouncer lets
	// functions of superseded calls run.
	if late >= 3 {
		return fmt.Errorf("%s: %d debounced functions started after a MORE RECENT call had already returned and sooner than the wait after that call (first: %s): a debounced function must not run sooner than the wait after the most recent call", desc, late, firstLate)
	}
	if late > 0 {
		r.Label("isolated late start (tolerated: fewer than 3 per case)")
	}
	if afterCancel {
		r.Label("a function started after cancel returned (single event, not asserted)")
	}
	fired := 0
	for _, ci := range calls {
		fired += len(ci.fired)
	}
	r.NonTrivialIf(fired >= 2 && fired < ncalls, "some functions ran, some were superseded")
	if close2 > 0 {
		r.Label("a function started while another call was in progress")
	}
	return nil
}

// ===========================================================================
// Debounce with a wait that is not positive: the timer is due at once, the rules stay

// DebZeroCase: Rounds times (call; cancel at once) on one debouncer whose wait is 0, -1ms or the most negative Duration,
// under the real scheduler; then one call that nothing follows.
type DebZeroCase struct {
	Wait   int `json:"wait"`
	Rounds int `json:"rounds"`
}

var debZeroWaits = []time.Duration{0, -1 * ms, time.Duration(math.MinInt64)}

func debZeroProp(c DebZeroCase, r *pbt.R) error {
	w := debZeroWaits[((c.Wait%3)+3)%3]
	rounds := 1 + ((c.Rounds-1)%1000+1000)%1000
	deb, cancel := gogu.NewDebounce(w)
	var seq atomic.Int64 // one stamp per observed event, in the order in which they were observed
	started := make([]atomic.Int64, rounds+1)
	runs := make([]atomic.Int32, rounds+1)
	cancelled := make([]int64, rounds)
	for i := 0; i < rounds; i++ {
		i := i
		deb(func() {
			started[i].CompareAndSwap(0, seq.Add(1))
			runs[i].Add(1)
		})
		cancel()
		cancelled[i] = seq.Add(1)
		if i%8 == 7 {
			time.Sleep(20 * time.Microsecond) // let pending timer goroutines run
		}
	}
	time.Sleep(2 * ms)
	deb(func() {
		started[rounds].CompareAndSwap(0, seq.Add(1))
		runs[rounds].Add(1)
	})
	deadline := time.Now().Add(10 * time.Second)
	for runs[rounds].Load() == 0 && time.Now().Before(deadline) {
		time.Sleep(200 * time.Microsecond)
	}
	time.Sleep(2 * ms)
	desc := fmt.Sprintf("debounce(wait %v): %d times (call; cancel), then one call that nothing follows", w, rounds)
	after := 0
	for i := 0; i < rounds; i++ {
		if n := runs[i].Load(); n > 1 {
			return fmt.Errorf("%s: the function of call %d ran %d times", desc, i, n)
		}
		if st := started[i].Load(); st > cancelled[i] {
			after++
		}
	}
	if n := runs[rounds].Load(); n != 1 {
		return fmt.Errorf("%s: the function of the last call ran %d times within 10s, want once (no call or cancel followed it)", desc, n)
	}
	// A thread descheduled between "commit to run" and the function's first instruction gives an isolated event of this kind
	// in a correct debouncer too (see debounce-free); a tenth of all rounds is not that.
	if after >= 3 && after*10 >= rounds {
		return fmt.Errorf("%s: %d of the %d cancelled functions started AFTER cancel had returned: a cancelled debounced function must not run at all", desc, after, rounds)
	}
	if after > 0 {
		r.Label("isolated start after cancel returned (tolerated)")
	}
	r.NonTrivialIf(true, "every case")
	return nil
}

func TestProp(t *testing.T) {
	pbt.Run(t, "C20",
		&pbt.Check[DelayCase]{
			Name: "delay",
			Rule: "1..3 (thorough 4; random 12) concurrent gogu.Delay timers in virtual time, wait in {5,20,50}ms (random and fixed cases also 900us and 7.3ms: waits that are not whole milliseconds), optional Stop 1ns before / exactly at / 1ns after the due instant or at half time; runs at most once, never before call+wait, never when stopped before due, always when not stopped in time. Non-trivial = a Stop before/after due or >= 2 delays.",
			Enum: delayEnum, Gen: delayGen, Prop: delayProp,
			OutOfEnum:  func(c DelayCase, th bool) bool { return len(c.Ops) > 4 },
			RapidQuick: 300, RapidThorough: 5000, Bubble: true,
			Fixed: []DelayCase{{Ops: []DelayOp{{Wait: 3}}}, {Ops: []DelayOp{{Wait: 4}, {Gap: 1, Wait: 3, Stop: 1}}}, {Ops: []DelayOp{{Wait: 5}, {Gap: 2, Wait: 5, Stop: 1}, {Wait: 0}}}},
		},
		&pbt.Check[DebCase]{
			Name: "debounce",
			Rule: "event timelines on one NewDebounce(wait in {5,20}ms; random cases also 6.7ms) in virtual time: single calls, 2..5 goroutines calling at the same instant, cancel; every debounced function takes {0, wait/2, 2*wait+1ms} of virtual time once it runs (so later calls and cancels also arrive while one is running); gaps {0,1ms,wait-1ms,wait,wait+1ms,3*wait} enumerated for 1..4 (thorough 5) events, random bursts of up to 50 events with gaps below/around/above the wait. " +
				"Oracle: a function never runs before its own call + wait nor less than the wait after any earlier call; at most once; of the calls made at one instant at most one runs; not if another call or a cancel arrives strictly inside the wait; it does run (within the closing quiescence period) if nothing arrives within the wait (an event exactly at the due instant: either). " +
				"Non-trivial = a burst with superseded calls that fired once, a cancel, or >= 2 bursts.",
			Enum: debEnum, Gen: debGen, Prop: debProp,
			OutOfEnum:  func(c DebCase, th bool) bool { return c.GapsNs != nil || len(c.Evs) > 5 },
			RapidQuick: 800, RapidThorough: 20000, Bubble: true,
		},
		&pbt.Check[ThrCase]{
			Name: "throttle",
			Rule: "NewThrottle(wait in {6,20}ms, trailing on/off) in virtual time: 1..3 consumer goroutines looping on Next with think time {0,3,25}ms (optionally starting late), a producer issuing Call/Cancel events with gaps {0,1,5,21}ms (enumerated, 1..4 events, thorough 6) or random gaps around the period (up to 30 events); Cancel always at the end. " +
				"Oracle: consecutive permissions >= one period apart; the i-th permission is preceded by >= i triggers and by a trigger since the previous permission (trailing off: one that arrived >= a period after it); nothing granted after Cancel; pending Next released exactly at Cancel, later Next false at once; " +
				"liveness: a trigger outside any period (trailing on: also one inside a period, available at its end) is granted at the first instant a consumer asks. Non-trivial = >= 2 permissions, a trailing trigger honoured, a trigger dropped with trailing off, or an explicit cancel.",
			Enum: thrEnum, Gen: thrGen, Prop: thrProp,
			OutOfEnum: func(c ThrCase, th bool) bool {
				return c.GapsNs != nil || len(c.Evs) > 6 || c.Consumers > 2 || c.LateStart != 0
			},
			RapidQuick: 800, RapidThorough: 20000, Bubble: true,
		},
		&pbt.Check[ThrFreeCase]{
			Name: "throttle-free",
			Rule: "throttle under the REAL scheduler and clock (no bubble): 2..8 goroutines hammer Call while 1..3 consumers loop on Next for 120ms (thorough: also 400ms), period 10 or 25ms, trailing on/off, GOMAXPROCS in {2,4,16}; then Cancel. " +
				"Only what wall-clock bracketing decides is asserted: n permissions need more than n-1 periods, so n <= elapsed/period + 1 with elapsed measured around the whole experiment; every consumer returns after Cancel. Non-trivial = >= 2 permissions under > 100 concurrent triggers.",
			Gen: thrFreeGen, Prop: thrFreeProp, OutOfEnum: func(ThrFreeCase, bool) bool { return true },
			RapidQuick: 5, RapidThorough: 60,
		},
		&pbt.Check[DebFreeCase]{
			Name: "debounce-free",
			Rule: "debounce under the REAL scheduler and clock with busy goroutines on every CPU (timers fire late, their functions start later still): 20..80 (thorough 220) calls spaced one wait (2 or 3ms) +-100us apart, then a call that is cancelled about when it is due. " +
				"Asserted, all by wall-clock bracketing (c1 before a call, c2 after it returned, tf first thing in the function): tf >= c1 + wait for the function's own call; none runs twice; and fewer than 3 functions per case start after a more recent call has returned and sooner than the wait after that call began (an isolated such event can be a thread descheduled between the debouncer's decision and the function's first instruction, which no implementation can exclude; a debouncer that lets superseded functions run produces them by the dozen). " +
				"Non-trivial = some functions ran and some were superseded.",
			Gen: debFreeGen, Prop: debFreeProp, OutOfEnum: func(DebFreeCase, bool) bool { return true },
			RapidQuick: 3, RapidThorough: 30,
		},
		&pbt.Check[DebZeroCase]{
			Name: "debounce-nowait",
			Rule: "a debouncer whose wait is 0, -1ms or the most negative Duration (the timer is due at once; the rules about cancel and about running stay), real scheduler: 50..400 (thorough 1000) times (call; cancel at once), then one call that nothing follows. " +
				"Asserted with one global sequence counter (a stamp when cancel has returned, a stamp first thing in a function): no function runs twice; the last call's function runs exactly once; the functions of cancelled calls do not start after their cancel returned - " +
				"isolated events are tolerated (a thread can be descheduled between the decision to run and the function's first instruction), a tenth of the rounds or more is a violation. Non-trivial = every case.",
			Gen: func(s pbt.Src, thorough bool) DebZeroCase {
				n := 350
				if thorough {
					n = 950
				}
				return DebZeroCase{Wait: s.Intn(3), Rounds: 50 + s.Intn(n)}
			},
			Prop: debZeroProp, OutOfEnum: func(DebZeroCase, bool) bool { return true },
			Fixed:      []DebZeroCase{{0, 200}, {1, 200}, {2, 200}},
			RapidQuick: 6, RapidThorough: 60,
		},
	)
}
