// C09: Trie behaves as a string-keyed map with exact prefix queries.
package c09

import (
	"encoding/json"
	"fmt"
	"sort"
	"strconv"
	"strings"
	"testing"
	"unicode/utf8"

	"github.com/esimov/gogu/queue"
	"github.com/esimov/gogu/trie"
	"verif/pbt"
)

// ---------------------------------------------------------------------------
// case type

// Key is a trie key, prefix or query: arbitrary bytes. Its JSON form keeps
// printable ASCII as it is and writes every other byte (and '%') as %XX, so
// that a key which is not valid UTF-8 survives the round trip.
type Key string

func (k Key) MarshalJSON() ([]byte, error) {
	var sb strings.Builder
	for i := 0; i < len(k); i++ {
		b := k[i]
		if b >= 0x20 && b < 0x7f && b != '%' {
			sb.WriteByte(b)
		} else {
			fmt.Fprintf(&sb, "%%%02X", b)
		}
	}
	return json.Marshal(sb.String())
}

func (k *Key) UnmarshalJSON(data []byte) error {
	var s string
	if err := json.Unmarshal(data, &s); err != nil {
		return err
	}
	out := make([]byte, 0, len(s))
	for i := 0; i < len(s); i++ {
		if s[i] != '%' {
			out = append(out, s[i])
			continue
		}
		if i+2 >= len(s) {
			return fmt.Errorf("key %q: truncated %%XX escape", s)
		}
		v, err := strconv.ParseUint(s[i+1:i+3], 16, 8)
		if err != nil {
			return fmt.Errorf("key %q: bad %%XX escape", s)
		}
		out = append(out, byte(v))
		i += 2
	}
	*k = Key(out)
	return nil
}

const (
	opPut = iota
	opGet
	opContains
	opStartsWith
	opLongestPrefix
	opKeys
	opSize
	opStartsWithLeft // StartsWith whose result is left in the shared queue
	opKeysLeft       // Keys whose result is left in the shared queue
	nOps
)

var opNames = []string{"Put", "Get", "Contains", "StartsWith", "LongestPrefix", "Keys", "Size", "StartsWith-undrained", "Keys-undrained"}

func hasKey(kind int) bool {
	return kind >= opPut && kind <= opLongestPrefix || kind == opStartsWithLeft
}

// Op is one call. Put stores the index of the operation as the value, so every
// Put writes a different value and the first one writes the zero value.
type Op struct {
	Kind int `json:"kind"`
	Key  Key `json:"key,omitempty"`
}

// Case is a sequence of calls on a fresh trie followed by a complete
// observation: every string over Alpha up to length QLen (when Alpha is not
// empty) and the queries derived from the stored keys.
type Case struct {
	Alpha Key  `json:"alpha"`
	QLen  int  `json:"qlen"`
	Ops   []Op `json:"ops"`
}

// bq quotes a key byte by byte: printable ASCII as it is, everything else as \xNN,
// so that "\xc2\x80" and "\x80" cannot be confused in a message.
func bq(s string) string {
	var sb strings.Builder
	sb.WriteByte('"')
	for i := 0; i < len(s); i++ {
		b := s[i]
		switch {
		case b == '"' || b == '\\':
			sb.WriteByte('\\')
			sb.WriteByte(b)
		case b >= 0x20 && b < 0x7f:
			sb.WriteByte(b)
		default:
			fmt.Fprintf(&sb, "\\x%02x", b)
		}
	}
	sb.WriteByte('"')
	return sb.String()
}

func bql(l []string) string {
	var sb strings.Builder
	sb.WriteByte('[')
	for i, s := range l {
		if i > 0 {
			sb.WriteByte(' ')
		}
		sb.WriteString(bq(s))
	}
	sb.WriteByte(']')
	return sb.String()
}

func opsString(ops []Op) string {
	var sb strings.Builder
	sb.WriteByte('[')
	for i, o := range ops {
		if i > 0 {
			sb.WriteByte(' ')
		}
		switch {
		case o.Kind == opPut:
			fmt.Fprintf(&sb, "Put(%s,%d)", bq(string(o.Key)), i)
		case hasKey(o.Kind):
			fmt.Fprintf(&sb, "%s(%s)", opNames[o.Kind], bq(string(o.Key)))
		case o.Kind >= 0 && o.Kind < nOps:
			sb.WriteString(opNames[o.Kind])
		default:
			fmt.Fprintf(&sb, "?%d", o.Kind)
		}
	}
	sb.WriteByte(']')
	return sb.String()
}

// ---------------------------------------------------------------------------
// enumerated scopes

// family is one enumerated scope of the "trie" check: every sequence of at most
// puts Put calls over all keys of length 1..keyLen over alpha, observed with
// every query of length <= qLen over alpha. One family per alphabet, so that no
// key sequence is enumerated twice.
type family struct {
	alpha                   string
	keyLen, qLen            int
	putsQuick, putsThorough int
}

var families = []family{
	{alpha: "ab", keyLen: 4, qLen: 5, putsQuick: 4, putsThorough: 5},  // 30 keys, 62 queries
	{alpha: "abc", keyLen: 3, qLen: 4, putsQuick: 3, putsThorough: 4}, // 39 keys, 120 queries
}

func (f family) maxPuts(thorough bool) int {
	if thorough {
		return f.putsThorough
	}
	return f.putsQuick
}

// enumKey is injective: the length is chosen first, then every letter.
func enumKey(s pbt.Src, alpha string, maxLen int) Key {
	n := 1 + s.Intn(maxLen)
	b := make([]byte, n)
	for i := range b {
		b[i] = alpha[s.Intn(len(alpha))]
	}
	return Key(b)
}

func enumTrie(s pbt.Src, thorough bool) Case {
	f := families[s.Intn(len(families))]
	c := Case{Alpha: Key(f.alpha), QLen: f.qLen}
	c.Ops = pbt.Seq(s, 0, f.maxPuts(thorough), func(s pbt.Src) Op {
		return Op{Kind: opPut, Key: enumKey(s, f.alpha, f.keyLen)}
	})
	return c
}

func onlyPutsOver(c Case, alpha string, keyLen, maxPuts int) bool {
	if len(c.Ops) > maxPuts {
		return false
	}
	for _, o := range c.Ops {
		if o.Kind != opPut || len(o.Key) < 1 || len(o.Key) > keyLen {
			return false
		}
		for i := 0; i < len(o.Key); i++ {
			if strings.IndexByte(alpha, o.Key[i]) < 0 {
				return false
			}
		}
	}
	return true
}

func outOfEnumTrie(c Case, thorough bool) bool {
	for _, f := range families {
		if string(c.Alpha) == f.alpha && c.QLen == f.qLen && onlyPutsOver(c, f.alpha, f.keyLen, f.maxPuts(thorough)) {
			return false
		}
	}
	return true
}

// The "bytes" check enumerates two-letter alphabets {b, b^mask} so that every
// one of the 256 byte values occurs (three times: paired with the byte that
// differs in the top bit, with its neighbour, and with its complement).
const (
	bytesKeyLen = 2
	bytesQLen   = 3
)

var byteMasks = []byte{0x80, 0x01, 0xFF}

func bytesMaxPuts(thorough bool) int {
	if thorough {
		return 4
	}
	return 3
}

func byteAlphabet(mask byte, i int) string {
	b := byte(i) // 0..127: partner b|0x80 resp. 255-b
	if mask == 0x01 {
		b = byte(2 * i) // even: partner b+1
	}
	return string([]byte{b, b ^ mask})
}

func enumBytes(s pbt.Src, thorough bool) Case {
	mask := byteMasks[s.Intn(len(byteMasks))]
	alpha := byteAlphabet(mask, s.Intn(128))
	c := Case{Alpha: Key(alpha), QLen: bytesQLen}
	c.Ops = pbt.Seq(s, 0, bytesMaxPuts(thorough), func(s pbt.Src) Op {
		return Op{Kind: opPut, Key: enumKey(s, alpha, bytesKeyLen)}
	})
	return c
}

func outOfEnumBytes(c Case, thorough bool) bool {
	if len(c.Alpha) != 2 || c.QLen != bytesQLen {
		return true
	}
	a, b := c.Alpha[0], c.Alpha[1]
	ok := false
	for _, m := range byteMasks {
		if a^m == b && a < b && (m != 0x01 || a%2 == 0) {
			ok = true
		}
	}
	return !ok || !onlyPutsOver(c, string(c.Alpha), bytesKeyLen, bytesMaxPuts(thorough))
}

// ---------------------------------------------------------------------------
// random generators

// sweepLen bounds the complete query sweep of a random case to a few hundred strings.
var sweepLen = []int{0, 6, 5, 4, 3, 3}

var bytePool = []byte{0x00, 'a', 'b', 'c', '%', 0x7f, 0x80, 0xa9, 0xbf, 0xc3, 0xe2, 0xff}

// genOps draws the operations. Keys are cut from a per-case spine and extended
// by up to two chunks, which makes shared prefixes and nested keys (a key that
// is a prefix of another) frequent whatever the alphabet is. The generation
// does not depend on earlier operations, so rapid can delete any of them.
func genOps(s pbt.Src, chunk func(pbt.Src) []byte, maxSpine, maxOps int) []Op {
	var spine []byte
	for _, ch := range pbt.Seq(s, 0, maxSpine, chunk) {
		spine = append(spine, ch...)
	}
	genKey := func(s pbt.Src) Key {
		cut := s.Intn(len(spine) + 1)
		min := 0
		if cut == 0 {
			min = 1
		}
		k := append([]byte(nil), spine[:cut]...)
		for _, ch := range pbt.Seq(s, min, 2, chunk) {
			k = append(k, ch...)
		}
		return Key(k)
	}
	return pbt.Seq(s, 0, maxOps, func(s pbt.Src) Op {
		i := s.Intn(14)
		switch {
		case i < 7:
			return Op{Kind: opPut, Key: genKey(s)}
		case i < 11:
			o := Op{Kind: opGet + (i - 7)}
			if s.Intn(10) != 0 { // one in ten: the empty key / prefix / query
				o.Key = genKey(s)
			}
			return o
		case i == 11:
			return Op{Kind: opKeys + s.Intn(2)} // Keys, Size
		case i == 12:
			return Op{Kind: opStartsWithLeft, Key: genKey(s)}
		default:
			return Op{Kind: opKeysLeft}
		}
	})
}

// genTrie: alphabets of 1..4 bytes (half of them non-ASCII), complete sweep.
func genTrie(s pbt.Src, thorough bool) Case {
	n := 1 + s.Intn(4)
	var set [256]bool
	for i := 0; i < n; i++ {
		if s.Intn(3) == 0 {
			set[s.Intn(256)] = true
		} else {
			set[bytePool[s.Intn(len(bytePool))]] = true
		}
	}
	var alpha []byte
	for b := 0; b < 256; b++ {
		if set[b] {
			alpha = append(alpha, byte(b))
		}
	}
	maxOps := 40
	if thorough {
		maxOps = 100
	}
	c := Case{Alpha: Key(alpha), QLen: sweepLen[len(alpha)]}
	// The extra choice (a second way to draw the first letter) guarantees that the
	// element generator consumes a choice even for a one-letter alphabet; rapid
	// rejects custom generators that draw nothing.
	c.Ops = genOps(s, func(s pbt.Src) []byte { return []byte{alpha[s.Intn(len(alpha)+1)%len(alpha)]} }, 8, maxOps)
	return c
}

var runePool = []string{"é", "ñ", "\u0080", "߿", "€", "日", "\ufffd", "😀", "a", "\x00"}

// genBytes: keys over all 256 byte values, over the upper half only, or built
// from UTF-8 encoded runes (cut anywhere, so many keys are invalid UTF-8).
// No alphabet sweep; the observation uses the queries derived from the stored keys.
func genBytes(s pbt.Src, thorough bool) Case {
	mode := s.Intn(3)
	chunk := func(s pbt.Src) []byte {
		switch mode {
		case 0:
			return []byte{byte(s.Intn(256))}
		case 1:
			return []byte{byte(0x80 + s.Intn(128))}
		default:
			return []byte(runePool[s.Intn(len(runePool))])
		}
	}
	maxOps := 60
	if thorough {
		maxOps = 150
	}
	ops := genOps(s, chunk, 5, maxOps)
	if s.Intn(8) == 0 {
		// long keys: every key gets one common stem whose length puts the keys around 64, 128 or 256 bytes (the sizes of
		// machine words and small tables); the same long key is put again and again, as short ones are
		stem := Key(strings.Repeat("k\x00", pbt.Pick(s, 30, 31, 32, 33, 62, 64, 126, 128)))
		if len(ops) > 24 {
			ops = ops[:24]
		}
		for i := range ops {
			if ops[i].Key != "" {
				ops[i].Key = stem + ops[i].Key
			}
		}
	}
	return Case{Ops: ops}
}

// ---------------------------------------------------------------------------
// execution against the model

type run struct {
	c      Case
	t      *trie.Trie[string, int]
	m      map[string]int // model: key -> latest value
	first  map[string]int // model: key -> index of the first Put
	sorted []string       // model keys in byte order (nil = recompute)
	n      int            // operations executed so far
	phase  string

	overwrite, emptyQuery bool
	undrained             bool // some Keys/StartsWith result was left in the shared queue
	prefixQ, extQ         bool // queried an unstored proper prefix / extension of a stored key
}

func (x *run) ctx() string {
	s := "after " + opsString(x.c.Ops[:x.n])
	if x.phase != "" {
		s += " (" + x.phase + ")"
	}
	return s
}

func (x *run) keys() []string {
	if x.sorted == nil {
		x.sorted = make([]string, 0, len(x.m))
		for k := range x.m {
			x.sorted = append(x.sorted, k)
		}
		sort.Strings(x.sorted) // byte-lexicographic
	}
	return x.sorted
}

func (x *run) wantStartsWith(p string) []string {
	var out []string
	for _, k := range x.keys() {
		if strings.HasPrefix(k, p) {
			out = append(out, k)
		}
	}
	return out
}

func (x *run) wantLongest(q string) string {
	for l := len(q); l >= 1; l-- {
		if _, ok := x.m[q[:l]]; ok {
			return q[:l]
		}
	}
	return ""
}

// drain empties the queue handed out by Keys/StartsWith. A correct answer never
// holds more items than there are stored keys; the loop is bounded accordingly.
func (x *run) drain(q trie.Queuer[string]) (items []string, overflow bool) {
	limit := len(x.m) + 4
	for {
		v, err := q.Dequeue()
		if err != nil {
			return items, false
		}
		if len(items) >= limit {
			return items, true
		}
		items = append(items, v)
	}
}

// readSome reads only the first n items of a listing (0, 1 or 2, by the position of the call in the case) and leaves the
// rest in the shared queue: a caller that stops reading early. The items read are the head of the right answer, and the
// next listing must be exactly its own answer again.
func (x *run) readSome(q trie.Queuer[string], n int, want []string, what string) error {
	for j := 0; j < n && j < len(want); j++ {
		v, err := q.Dequeue()
		if err != nil || v != want[j] {
			return fmt.Errorf("%s: item %d of %s is (%s, %v), want %s (the listing is %s)", x.ctx(), j, what, bq(v), err, bq(want[j]), bql(want))
		}
	}
	return nil
}

func equalStrings(a, b []string) bool {
	if len(a) != len(b) {
		return false
	}
	for i := range a {
		if a[i] != b[i] {
			return false
		}
	}
	return true
}

func describeList(got, want []string) string {
	g := append([]string(nil), got...)
	w := append([]string(nil), want...)
	sort.Strings(g)
	sort.Strings(w)
	if equalStrings(g, w) {
		return "same keys, wrong order"
	}
	return "different keys"
}

func (x *run) checkSize() error {
	if n := x.t.Size(); n != len(x.m) {
		return fmt.Errorf("%s: Size() = %d, want %d distinct keys %s", x.ctx(), n, len(x.m), bql(x.keys()))
	}
	return nil
}

func (x *run) checkGet(k string) error {
	wv, wok := x.m[k]
	v, ok := x.t.Get(k)
	if ok != wok {
		if wok {
			return fmt.Errorf("%s: Get(%s) = (%d,%v), want (%d,true): the key was put", x.ctx(), bq(k), v, ok, wv)
		}
		return fmt.Errorf("%s: Get(%s) = (%d,%v), want absent: the key was never put (stored keys %s)", x.ctx(), bq(k), v, ok, bql(x.keys()))
	}
	if ok && v != wv {
		return fmt.Errorf("%s: Get(%s) = (%d,true), want the latest value %d", x.ctx(), bq(k), v, wv)
	}
	return nil
}

func (x *run) checkContains(k string) error {
	_, wok := x.m[k]
	if ok := x.t.Contains(k); ok != wok {
		return fmt.Errorf("%s: Contains(%s) = %v, want %v (stored keys %s)", x.ctx(), bq(k), ok, wok, bql(x.keys()))
	}
	return nil
}

// lookAround: between receiving a listing and reading it the caller asks the trie other things (Size, Get, Contains,
// LongestPrefix - not Keys/StartsWith, which are documented to reuse the listing's queue): the listing stays what it was.
func (x *run) lookAround(p string) {
	x.t.Size()
	x.t.Get(p)
	x.t.Contains(p + "\x00")
	x.t.LongestPrefix(p + "zz")
	x.t.Get("")
}

func (x *run) checkStartsWith(p string) error {
	q, err := x.t.StartsWith(p)
	x.lookAround(p)
	got, overflow := x.drain(q)
	if p == "" {
		// Rejected: only the error is specified, not what the queue holds.
		if err == nil {
			return fmt.Errorf("%s: StartsWith(\"\") returned no error (queue %s), want the empty prefix rejected", x.ctx(), bql(got))
		}
		return nil
	}
	want := x.wantStartsWith(p)
	if overflow {
		return fmt.Errorf("%s: StartsWith(%s) queued more than %d keys (first %s), want %s", x.ctx(), bq(p), len(got), bql(got), bql(want))
	}
	if !equalStrings(got, want) {
		return fmt.Errorf("%s: StartsWith(%s) = %s, want %s (%s)", x.ctx(), bq(p), bql(got), bql(want), describeList(got, want))
	}
	if err != nil && len(want) > 0 {
		return fmt.Errorf("%s: StartsWith(%s) returned error %v although %d stored keys begin with it", x.ctx(), bq(p), err, len(want))
	}
	return nil
}

func (x *run) checkLongestPrefix(qs string) error {
	got, err := x.t.LongestPrefix(qs)
	if qs == "" {
		if err == nil {
			return fmt.Errorf("%s: LongestPrefix(\"\") = %s without an error, want the empty query rejected", x.ctx(), bq(got))
		}
		return nil
	}
	want := x.wantLongest(qs)
	if got != want {
		return fmt.Errorf("%s: LongestPrefix(%s) = %s, want %s (stored keys %s)", x.ctx(), bq(qs), bq(got), bq(want), bql(x.keys()))
	}
	if err != nil && want != "" {
		return fmt.Errorf("%s: LongestPrefix(%s) returned error %v although %s is stored", x.ctx(), bq(qs), err, bq(want))
	}
	return nil
}

func (x *run) checkKeys() error {
	q, err := x.t.Keys()
	x.lookAround("")
	got, overflow := x.drain(q)
	want := x.keys()
	if overflow {
		return fmt.Errorf("%s: Keys() queued more than %d keys (first %s), want %s", x.ctx(), len(got), bql(got), bql(want))
	}
	if !equalStrings(got, want) {
		return fmt.Errorf("%s: Keys() = %s, want %s (%s)", x.ctx(), bql(got), bql(want), describeList(got, want))
	}
	if err != nil && len(want) > 0 {
		return fmt.Errorf("%s: Keys() returned error %v for a trie of %d keys", x.ctx(), err, len(want))
	}
	return nil
}

// empties: lookups with the empty key report absence, the empty prefix and the
// empty query are rejected. That they change nothing is established by the
// observations that follow.
func (x *run) empties() error {
	if err := x.checkGet(""); err != nil {
		return err
	}
	if err := x.checkContains(""); err != nil {
		return err
	}
	if err := x.checkStartsWith(""); err != nil {
		return err
	}
	return x.checkLongestPrefix("")
}

func (x *run) query(qs string) error {
	if _, stored := x.m[qs]; !stored && qs != "" {
		if !x.prefixQ && len(x.wantStartsWith(qs)) > 0 {
			x.prefixQ = true
		}
		if !x.extQ && x.wantLongest(qs) != "" {
			x.extQ = true
		}
	}
	if err := x.checkGet(qs); err != nil {
		return err
	}
	if err := x.checkContains(qs); err != nil {
		return err
	}
	if err := x.checkStartsWith(qs); err != nil {
		return err
	}
	return x.checkLongestPrefix(qs)
}

const maxSweep = 4000

// sweep calls f with every non-empty string over alpha up to length qlen, shortest first.
func sweep(alpha string, qlen int, f func(string) error) error {
	if len(alpha) == 0 || qlen <= 0 {
		return nil
	}
	level := []string{""}
	total := 0
	for l := 1; l <= qlen; l++ {
		next := make([]string, 0, len(level)*len(alpha))
		for _, p := range level {
			for i := 0; i < len(alpha); i++ {
				if i > 0 && strings.IndexByte(alpha[:i], alpha[i]) >= 0 {
					continue // repeated letter in a hand-written alphabet
				}
				qs := p + alpha[i:i+1]
				if total++; total > maxSweep {
					return nil
				}
				if err := f(qs); err != nil {
					return err
				}
				next = append(next, qs)
			}
		}
		level = next
	}
	return nil
}

// derived returns the queries that matter for the stored keys whatever the
// alphabet is: every key, each of its proper prefixes, the key extended by one
// and two letters and with its last byte replaced.
func (x *run) derived() []string {
	keys := x.keys()
	var seen [256]bool
	var letters []byte
	add := func(b byte) {
		if !seen[b] && len(letters) < 8 {
			seen[b] = true
			letters = append(letters, b)
		}
	}
	add(0x00)
	add(0xff)
	for i := 0; i < len(x.c.Alpha); i++ {
		add(x.c.Alpha[i])
	}
	for _, k := range keys {
		for i := 0; i < len(k); i++ {
			add(k[i])
		}
	}
	set := map[string]struct{}{}
	for _, k := range keys {
		for l := 1; l <= len(k); l++ {
			set[k[:l]] = struct{}{}
		}
		for i, a := range letters {
			set[k+string([]byte{a})] = struct{}{}
			set[k[:len(k)-1]+string([]byte{a})] = struct{}{}
			if i < 3 {
				set[k+string([]byte{a, letters[(i+1)%len(letters)]})] = struct{}{}
			}
		}
	}
	out := make([]string, 0, len(set))
	for qs := range set {
		out = append(out, qs)
	}
	sort.Strings(out)
	return out
}

func prop(c Case, r *pbt.R) error {
	x := &run{c: c, m: map[string]int{}, first: map[string]int{}}
	x.t = trie.New[string, int](queue.New[string]())

	// A fresh trie is empty; the empty key/prefix/query on it.
	x.phase = "fresh trie"
	if err := x.empties(); err != nil {
		return err
	}
	if err := x.checkSize(); err != nil {
		return err
	}
	x.phase = ""

	for i, op := range c.Ops {
		x.n = i + 1
		k := string(op.Key)
		var err error
		switch op.Kind {
		case opPut:
			if k == "" {
				r.Label("skipped Put(\"\") (outside the domain)")
				continue
			}
			if _, ok := x.m[k]; ok {
				x.overwrite = true
			} else {
				x.first[k] = i
				x.sorted = nil
			}
			x.m[k] = i
			x.t.Put(k, i)
			err = x.checkSize()
		case opGet:
			err = x.checkGet(k)
		case opContains:
			err = x.checkContains(k)
		case opStartsWith:
			err = x.checkStartsWith(k)
		case opLongestPrefix:
			err = x.checkLongestPrefix(k)
		case opKeys:
			err = x.checkKeys()
		case opSize:
			err = x.checkSize()
		case opStartsWithLeft:
			// The caller does not read the result: whatever it is stays in the shared
			// queue, and the next Keys/StartsWith must still return exactly its own answer.
			q, e := x.t.StartsWith(k)
			if k == "" && e == nil {
				err = fmt.Errorf("%s: StartsWith(\"\") returned no error, want the empty prefix rejected", x.ctx())
			}
			if err == nil && k != "" {
				err = x.readSome(q, i%3, x.wantStartsWith(k), "StartsWith("+bq(k)+")")
			}
			x.undrained = true
		case opKeysLeft:
			q, _ := x.t.Keys()
			err = x.readSome(q, i%3, x.keys(), "Keys()")
			x.undrained = true
		default:
			return fmt.Errorf("malformed case: operation kind %d", op.Kind)
		}
		if err != nil {
			return err
		}
		if op.Kind != opPut && hasKey(op.Kind) && k == "" {
			x.emptyQuery = true
		}
	}

	// Final observation. Size and Keys first, then the empty key/prefix/query,
	// then everything: whatever the rejected calls changed shows up there.
	x.phase = "final observation"
	if err := x.checkSize(); err != nil {
		return err
	}
	if err := x.checkKeys(); err != nil {
		return err
	}
	x.phase = "after the empty key/prefix/query"
	if err := x.empties(); err != nil {
		return err
	}
	if err := sweep(string(c.Alpha), c.QLen, x.query); err != nil {
		return err
	}
	for _, qs := range x.derived() {
		if len(c.Alpha) > 0 && len(qs) <= c.QLen && onlyLetters(qs, string(c.Alpha)) {
			continue // already part of the sweep
		}
		if err := x.query(qs); err != nil {
			return err
		}
	}
	if err := x.checkSize(); err != nil {
		return err
	}
	if err := x.checkKeys(); err != nil {
		return err
	}

	x.classify(r)
	return nil
}

func onlyLetters(s, alpha string) bool {
	for i := 0; i < len(s); i++ {
		if strings.IndexByte(alpha, s[i]) < 0 {
			return false
		}
	}
	return true
}

// classify labels the case and applies the non-triviality rule.
func (x *run) classify(r *pbt.R) {
	keys := x.keys()
	nested, prefixLater, extLater, nonASCII, invalidUTF8, multiByte, threeWay := false, false, false, false, false, false, false
	for i, p := range keys {
		for _, e := range keys[i+1:] {
			if !strings.HasPrefix(e, p) {
				break // sorted: the extensions of p follow it directly
			}
			nested = true
			if x.first[p] > x.first[e] {
				prefixLater = true
			} else {
				extLater = true
			}
		}
		for j := 0; j < len(p); j++ {
			if p[j] >= 0x80 {
				nonASCII = true
			}
		}
		if !utf8.ValidString(p) {
			invalidUTF8 = true
		} else if len(p) != utf8.RuneCountInString(p) {
			multiByte = true
		}
	}
	if len(keys) >= 3 {
		// three stored keys that agree on a prefix and continue with three different bytes
		next := map[string][]byte{}
		for _, k := range keys {
			for l := 0; l < len(k); l++ {
				bs := next[k[:l]]
				if len(bs) < 3 && strings.IndexByte(string(bs), k[l]) < 0 {
					next[k[:l]] = append(bs, k[l])
					if len(bs) == 2 {
						threeWay = true
					}
				}
			}
		}
	}
	r.NonTrivialIf(nested, "nested keys (a stored key is a proper prefix of another)")
	r.NonTrivialIf(nonASCII, "stored key with a byte >= 0x80")
	r.NonTrivialIf(x.prefixQ, "queried an unstored proper prefix of a stored key")
	r.NonTrivialIf(x.extQ, "queried an unstored extension of a stored key")
	if prefixLater {
		r.Label("prefix put after its extension")
	}
	if extLater {
		r.Label("extension put after its prefix")
	}
	if invalidUTF8 {
		r.Label("stored key is not valid UTF-8")
	}
	if multiByte {
		r.Label("stored key with a multi-byte UTF-8 rune")
	}
	if threeWay {
		r.Label("node with left and right siblings (3 continuations of one prefix)")
	}
	if x.overwrite {
		r.Label("key put again (value overwritten)")
	}
	if x.emptyQuery {
		r.Label("empty key/prefix/query between puts")
	}
	if x.undrained {
		r.Label("a Keys/StartsWith result left undrained before the next call")
	}
	switch n := len(keys); {
	case n == 0:
		r.Label("keys: 0")
	case n <= 2:
		r.Label("keys: 1-2")
	case n <= 5:
		r.Label("keys: 3-5")
	case n <= 15:
		r.Label("keys: 6-15")
	default:
		r.Label("keys: 16+")
	}
}

// ---------------------------------------------------------------------------

func puts(keys ...string) []Op {
	ops := make([]Op, len(keys))
	for i, k := range keys {
		ops[i] = Op{Kind: opPut, Key: Key(k)}
	}
	return ops
}

var fixedCases = []Case{
	// the key set of the repository's own test, plus the prefixes it never asks for
	{Alpha: "se", QLen: 3, Ops: append(puts("cats", "cape", "captain", "foes", "apple", "she", "root", "shells", "the", "thermos", "foo"),
		Op{Kind: opGet, Key: "cap"}, Op{Kind: opContains, Key: "shell"}, Op{Kind: opLongestPrefix, Key: "thermostat"},
		Op{Kind: opPut, Key: "s"}, Op{Kind: opPut, Key: "shell"}, Op{Kind: opStartsWith, Key: "sh"})},
	// one rune, its first byte, its second byte
	{Alpha: "\xa9\xc3", QLen: 3, Ops: puts("\xc3\xa9", "\xc3", "\xa9")},
	{Alpha: "\x00", QLen: 4, Ops: puts("\x00\x00", "\x00", "\x00\x00\x00")},
	// a long chain stored from the longest key down
	{Ops: puts(strings.Repeat("ab", 150), strings.Repeat("ab", 75), "aba", "ab", "a")},
	// results left in the shared queue before the next call
	{Alpha: "ab", QLen: 3, Ops: append(puts("a", "ab", "b"), Op{Kind: opStartsWithLeft, Key: "a"}, Op{Kind: opKeys}, Op{Kind: opKeysLeft},
		Op{Kind: opStartsWith, Key: "b"}, Op{Kind: opKeysLeft}, Op{Kind: opStartsWithLeft}, Op{Kind: opKeysLeft}, Op{Kind: opStartsWith, Key: "c"}, Op{Kind: opStartsWithLeft, Key: "a"})},
	// U+FFFD itself and an invalid byte that a rune conversion would turn into it
	{Ops: puts("\xef\xbf\xbd", "\xff", "\xef\xbf", "€", "\xe2\x82")},
}

const queryRule = "After the calls: Size, Keys, Get/Contains/StartsWith/LongestPrefix of \"\" (absent / rejected), then Get, Contains, StartsWith (queue drained) and LongestPrefix " +
	"for every query of the sweep and every derived query (each stored key, its proper prefixes, the key extended by 1-2 bytes and with its last byte replaced), then Size and Keys again; " +
	"oracle = Go map + sorted key list. The result queue is drained right after each call - after Size, Get, Contains and LongestPrefix have been asked in between, which must leave the listing alone - except that the random generators leave the result of one call in seven unread or read only its first one or two items " +
	"(Keys-undrained, StartsWith-undrained; the items read must be the head of the right answer): the next Keys/StartsWith must still return exactly its own keys. Put(\"\") is never generated; the value returned next to ok=false and the queue/string returned next to a " +
	"rejection error are not asserted, an error is only forbidden when the expected answer is non-empty. " +
	"Non-trivial = the stored keys contain a key that is a proper prefix of another, or a byte >= 0x80, or a query was an unstored proper prefix or an unstored extension of a stored key. " +
	"Distinct = enumerated cases (injective encoding, the alphabet is part of the case) + hash-distinct random cases outside the enumerated scope."

// ---------------------------------------------------------------------------
// bigtrie: thousands of keys in one trie, new first bytes turning up at chosen points of its growth

// BigTrieCase: K keys are put one after the other; key i is the byte ('A' + i/Step) followed by the decimal digits of i, so
// a first byte the trie has never seen turns up with every Step-th key (Step = 1023: exactly the 1024th key brings one).
type BigTrieCase struct {
	K    int `json:"k"`
	Step int `json:"step"`
}

func bigTrieProp(c BigTrieCase, r *pbt.R) error {
	k := 1 + ((c.K-1)%20000+20000)%20000
	step := 1 + ((c.Step-1)%20000+20000)%20000
	if k/step > 180 {
		step = k/180 + 1 // first bytes stay within 'A'..0xff
	}
	key := func(i int) string { return string([]byte{byte('A' + i/step)}) + strconv.Itoa(i) }
	t := trie.New[string, int](queue.New[string]())
	ctx := fmt.Sprintf("a trie of %d keys put one after the other, key i = byte('A'+i/%d) + decimal(i)", k, step)
	for i := 0; i < k; i++ {
		t.Put(key(i), i)
		if got := t.Size(); got != i+1 {
			return fmt.Errorf("%s: after the %dth key (%q) Size() = %d", ctx, i+1, key(i), got)
		}
		if i%step == 0 || i == k-1 {
			// the key that brought a new first byte: found at once, and putting it again counts nothing
			if v, ok := t.Get(key(i)); !ok || v != i || !t.Contains(key(i)) {
				return fmt.Errorf("%s: right after Put(%q) (the %dth key, the first with that first byte) Get = (%d, %v), Contains = %v", ctx, key(i), i+1, v, ok, t.Contains(key(i)))
			}
			t.Put(key(i), i)
			if got := t.Size(); got != i+1 {
				return fmt.Errorf("%s: putting the %dth key %q a second time changed Size() to %d", ctx, i+1, key(i), got)
			}
		}
	}
	for i := 0; i < k; i++ {
		if v, ok := t.Get(key(i)); !ok || v != i {
			return fmt.Errorf("%s: Get(%q) = (%d, %v), want (%d, true)", ctx, key(i), v, ok, i)
		}
	}
	for b := 0; b <= (k-1)/step; b++ {
		p := string([]byte{byte('A' + b)})
		want := step
		if (b+1)*step > k {
			want = k - b*step
		}
		q, err := t.StartsWith(p)
		if err != nil || q.Size() != want {
			return fmt.Errorf("%s: StartsWith(%q) lists %d keys (error %v), want %d", ctx, p, q.Size(), err, want)
		}
		if lp, err := t.LongestPrefix(key(b*step) + "x"); err != nil || lp != key(b*step) {
			return fmt.Errorf("%s: LongestPrefix(%q) = (%q, %v), want %q", ctx, key(b*step)+"x", lp, err, key(b*step))
		}
	}
	q, _ := t.Keys()
	if q.Size() != k {
		return fmt.Errorf("%s: Keys() lists %d keys", ctx, q.Size())
	}
	prev := ""
	for i := 0; i < k; i++ {
		cur, err := q.Dequeue()
		if err != nil || (i > 0 && prev >= cur) {
			return fmt.Errorf("%s: Keys() item %d is (%q, %v) after %q: not ascending", ctx, i, cur, err, prev)
		}
		prev = cur
	}
	r.NonTrivialIf(k >= 1024, ">= 1024 keys")
	return nil
}

func TestProp(t *testing.T) {
	pbt.Run(t, "C09",
		&pbt.Check[Case]{
			Name: "trie",
			Rule: "Put sequences on a fresh trie (value = index of the call). Enumerated: every sequence of <= 4 (thorough 5) puts over the 30 keys of length 1..4 over {a,b}, swept with all 62 queries of length <= 5, " +
				"and every sequence of <= 3 (thorough 4) puts over the 39 keys of length 1..3 over {a,b,c}, swept with all 120 queries of length <= 4 (all insertion orders of all small key multisets). " +
				"Random: alphabets of 1-4 bytes (pool with 0x00, '%', 0x7f and six bytes >= 0x80, or any byte), up to 40 (100) calls, half of them Put, the rest Get/Contains/StartsWith/LongestPrefix (one in ten with the empty string), Keys, Size; " +
				"keys are cuts of a per-case spine plus 0-2 letters. " + queryRule,
			Enum: enumTrie, Gen: genTrie, Prop: prop, OutOfEnum: outOfEnumTrie,
			RapidQuick: 1500, RapidThorough: 20000,
			Fixed: fixedCases,
		},
		&pbt.Check[Case]{
			Name: "bytes",
			Rule: "Byte fidelity. Enumerated: for each of 384 two-byte alphabets {b, b^0x80}, {2i, 2i+1}, {b, 255-b} (every byte value 0..255 occurs in three of them) every sequence of <= 3 (thorough 4) puts over the 6 keys of length 1..2, " +
				"swept with all 14 queries of length <= 3. Random: up to 60 (150) calls with keys over all 256 byte values, over 0x80..0xff, or built from UTF-8 encoded runes cut at arbitrary byte positions. " + queryRule,
			Enum: enumBytes, Gen: genBytes, Prop: prop, OutOfEnum: outOfEnumBytes,
			RapidQuick: 1000, RapidThorough: 15000,
		},
		&pbt.Check[BigTrieCase]{
			Name: "bigtrie",
			Rule: "ONE trie grows to 1000..20000 keys; key i is the byte 'A'+i/step followed by the decimal digits of i, so a first byte the trie has never seen arrives with every step-th key (step 1023: exactly the 1024th key). Size after every Put; the key that brought a new first byte is found at once and putting it again counts nothing; at the end Get of every key, StartsWith of every first byte (count), LongestPrefix, Keys (count, ascending). " +
				"Fixed: 1030 keys with step 1023 and 1024, 4100 with 4095 and 4096, 2000 with 1, 7 and 64; random: more. Non-trivial = at least 1024 keys.",
			Gen: func(s pbt.Src, _ bool) BigTrieCase {
				return BigTrieCase{K: pbt.Pick(s, 300, 1025, 1100, 2049, 4097, 5000, 9000), Step: pbt.Pick(s, 1, 2, 7, 63, 64, 255, 256, 511, 512, 1023, 1024, 2047, 2048, 4095, 4096)}
			},
			Prop: bigTrieProp, OutOfEnum: func(BigTrieCase, bool) bool { return true },
			Fixed:      []BigTrieCase{{1030, 1023}, {1030, 1024}, {4100, 4095}, {4100, 4096}, {2000, 1}, {2000, 7}, {2000, 64}, {1030, 511}},
			RapidQuick: 6, RapidThorough: 80,
		},
	)
}

// FuzzTrie feeds the bytes of the fuzz input as the choice list of the two
// random generators (native, coverage-guided fuzzing; used by the thorough tier).
func FuzzTrie(f *testing.F) {
	f.Add([]byte{0, 2, 1, 3, 1, 0, 2, 0, 1, 1, 0})
	f.Add([]byte{1, 2, 3, 0xc3, 0xa9, 0x80, 5, 0, 1, 2, 0xff, 0, 1, 1, 0xc3})
	f.Add([]byte("\x00\x03\x09\x0a\x04abcabcabc\x07\x01\x02\x03\x04\x05\x06"))
	f.Fuzz(func(t *testing.T, data []byte) {
		if len(data) == 0 || len(data) > 2048 {
			return
		}
		choices := make([]int, len(data)-1)
		for i, b := range data[1:] {
			choices[i] = int(b)
		}
		src := &pbt.ListSrc{Choices: choices}
		var c Case
		check := "trie"
		if data[0]%2 == 0 {
			c = genTrie(src, false)
		} else {
			c = genBytes(src, false)
			check = "bytes"
		}
		if err := prop(c, &pbt.R{}); err != nil {
			pbt.FuzzFail(t, "C09", check, c, err)
		}
	})
}
