// C07: LRU cache never exceeds capacity and evicts exactly the least recently used.
package c07

import (
	"fmt"
	"testing"

	"github.com/esimov/gogu/cache"
	"verif/pbt"
)

const (
	opAdd = iota
	opGet
	opRemove
	opGetOldest
	opGetYoungest
	opRemoveOldest
	opRemoveYoungest
	opFlush
)

var opNames = []string{"Add", "Get", "Remove", "GetOldest", "GetYoungest", "RemoveOldest", "RemoveYoungest", "Flush"}

// Op is one call; K is the key for Add/Get/Remove. The value added is 100+index.
type Op struct {
	Kind int `json:"kind"`
	Key  int `json:"key"`
}

func (o Op) String() string {
	if o.Kind <= opRemove {
		return fmt.Sprintf("%s(%d)", opNames[o.Kind], o.Key)
	}
	return opNames[o.Kind]
}

type Case struct {
	Cap int  `json:"cap"`
	Ops []Op `json:"ops"`
}

func genOp(s pbt.Src, nkeys int) Op {
	i := s.Intn(3*nkeys + 5)
	if i < 3*nkeys {
		return Op{Kind: i / nkeys, Key: i % nkeys}
	}
	return Op{Kind: opGetOldest + (i - 3*nkeys)}
}

func enumBounds(thorough bool) (maxLen, nkeys int) {
	if thorough {
		return 5, 5
	}
	return 4, 4
}

func enum(s pbt.Src, thorough bool) Case {
	maxLen, nkeys := enumBounds(thorough)
	c := Case{Cap: 1 + s.Intn(4)}
	c.Ops = pbt.Seq(s, 0, maxLen, func(s pbt.Src) Op { return genOp(s, nkeys) })
	return c
}

func gen(s pbt.Src, thorough bool) Case {
	c := Case{Cap: 1 + s.Intn(16)}
	nkeys := c.Cap + 1 + s.Intn(4)
	max := 120
	if thorough {
		max = 300
	}
	if s.Intn(12) == 0 {
		// a large cache: capacities around powers of two and a few hundred to a few thousand operations, so that it fills up and evicts
		c.Cap = []int{31, 32, 33, 63, 64, 65, 100, 255, 256, 257, 1000, 1024, 4096, 4097, 5000}[s.Intn(15)]
		nkeys = c.Cap + 1 + s.Intn(c.Cap/2+2)
		max = c.Cap
	}
	big := c.Cap > 16
	c.Ops = pbt.Seq(s, 0, max, func(s pbt.Src) Op { return genOp(s, nkeys) })
	if big {
		// fill the cache first (keys in a stride order), then the random operations
		fill := make([]Op, 0, c.Cap+len(c.Ops))
		for i := 0; i < c.Cap; i++ {
			fill = append(fill, Op{Kind: 0, Key: (i * 7) % c.Cap})
		}
		c.Ops = append(fill, c.Ops...)
	}
	return c
}

func outOfEnum(c Case, thorough bool) bool {
	maxLen, nkeys := enumBounds(thorough)
	if c.Cap > 4 || len(c.Ops) > maxLen {
		return true
	}
	for _, o := range c.Ops {
		if o.Kind <= opRemove && o.Key >= nkeys {
			return true
		}
	}
	return false
}

type entry struct{ k, v int }

// model: index 0 = most recently touched.
type model struct {
	cap int
	e   []entry
}

func (m *model) find(k int) int {
	for i, e := range m.e {
		if e.k == k {
			return i
		}
	}
	return -1
}

func (m *model) touch(i int) {
	e := m.e[i]
	copy(m.e[1:i+1], m.e[:i])
	m.e[0] = e
}

func (m *model) removeAt(i int) entry {
	e := m.e[i]
	m.e = append(m.e[:i], m.e[i+1:]...)
	return e
}

func prop(c Case, r *pbt.R) error {
	lru, err := cache.NewLRU[int, int](c.Cap)
	if err != nil || lru == nil {
		return fmt.Errorf("NewLRU(%d) rejected a positive capacity: %v", c.Cap, err)
	}
	m := &model{cap: c.Cap}
	evicted, sawSpecial, specialThenUse := false, false, false
	for i, op := range c.Ops {
		val := 100 + i
		if op.Kind == opAdd && i%3 == 2 {
			// every third step that is an Add stores the value the key already has (when it is cached): adding the same pair
			// again refreshes the recency like any other Add
			if j := m.find(op.Key); j >= 0 {
				val = m.e[j].v
			}
		}
		where := func() string { return fmt.Sprintf("step %d %v (cap %d, ops %v)", i, op, c.Cap, c.Ops[:i+1]) }
		switch op.Kind {
		case opAdd:
			var wk, wv int
			wrem := false
			if j := m.find(op.Key); j >= 0 {
				m.e[j].v = val
				m.touch(j)
			} else {
				m.e = append([]entry{{op.Key, val}}, m.e...)
				if len(m.e) > m.cap {
					ev := m.removeAt(len(m.e) - 1)
					wk, wv, wrem = ev.k, ev.v, true
					evicted = true
				}
			}
			gk, gv, grem := lru.Add(op.Key, val)
			if gk != wk || gv != wv || grem != wrem {
				return fmt.Errorf("%s: Add returned (%d,%d,%v), want (%d,%d,%v)", where(), gk, gv, grem, wk, wv, wrem)
			}
			if sawSpecial {
				specialThenUse = true
			}
		case opGet:
			var wv int
			wok := false
			if j := m.find(op.Key); j >= 0 {
				wv, wok = m.e[j].v, true
				m.touch(j)
			}
			gv, gok := lru.Get(op.Key)
			if gv != wv || gok != wok {
				return fmt.Errorf("%s: Get returned (%d,%v), want (%d,%v)", where(), gv, gok, wv, wok)
			}
			if sawSpecial {
				specialThenUse = true
			}
		case opRemove:
			var wv int
			wok := false
			if j := m.find(op.Key); j >= 0 {
				wv, wok = m.removeAt(j).v, true
			}
			gv, gok := lru.Remove(op.Key)
			if gv != wv || gok != wok {
				return fmt.Errorf("%s: Remove returned (%d,%v), want (%d,%v)", where(), gv, gok, wv, wok)
			}
		case opGetOldest, opGetYoungest, opRemoveOldest, opRemoveYoungest:
			var wk, wv int
			wok := false
			if len(m.e) > 0 {
				wok = true
				switch op.Kind {
				case opGetOldest:
					e := m.e[len(m.e)-1]
					wk, wv = e.k, e.v
					m.touch(len(m.e) - 1)
				case opGetYoungest:
					wk, wv = m.e[0].k, m.e[0].v
				case opRemoveOldest:
					e := m.removeAt(len(m.e) - 1)
					wk, wv = e.k, e.v
				case opRemoveYoungest:
					e := m.removeAt(0)
					wk, wv = e.k, e.v
				}
			}
			var gk, gv int
			var gok bool
			switch op.Kind {
			case opGetOldest:
				gk, gv, gok = lru.GetOldest()
			case opGetYoungest:
				gk, gv, gok = lru.GetYoungest()
			case opRemoveOldest:
				gk, gv, gok = lru.RemoveOldest()
			case opRemoveYoungest:
				gk, gv, gok = lru.RemoveYoungest()
			}
			if gk != wk || gv != wv || gok != wok {
				return fmt.Errorf("%s: returned (%d,%d,%v), want (%d,%d,%v)", where(), gk, gv, gok, wk, wv, wok)
			}
			if (op.Kind == opGetOldest || op.Kind == opRemoveYoungest) && wok {
				sawSpecial = true
			}
		case opFlush:
			m.e = m.e[:0]
			lru.Flush()
		}
		if n := lru.Count(); n != len(m.e) || n > c.Cap {
			return fmt.Errorf("%s: Count() = %d, model holds %d (cap %d)", where(), n, len(m.e), c.Cap)
		}
	}
	r.NonTrivialIf(evicted, "eviction")
	r.NonTrivialIf(specialThenUse, "GetOldest/RemoveYoungest then Add/Get")
	if len(m.e) >= 3 {
		r.Label("final size >= 3")
	}

	// Final observation 1: look up every key of a window around the keys used
	// (applied to the model as well, since Get refreshes recency).
	maxKey := 0
	for _, op := range c.Ops {
		if op.Key > maxKey {
			maxKey = op.Key
		}
	}
	for k := 0; k <= maxKey+1; k++ {
		var wv int
		wok := false
		if j := m.find(k); j >= 0 {
			wv, wok = m.e[j].v, true
			m.touch(j)
		}
		gv, gok := lru.Get(k)
		if gv != wv || gok != wok {
			return fmt.Errorf("after %v (cap %d): final Get(%d) = (%d,%v), want (%d,%v)", c.Ops, c.Cap, k, gv, gok, wv, wok)
		}
	}
	// Final observation 2: drain by RemoveOldest; exposes any disagreement between
	// the lookup table and the recency list.
	for n := len(m.e); n > 0; n-- {
		e := m.removeAt(len(m.e) - 1)
		gk, gv, gok := lru.RemoveOldest()
		if gk != e.k || gv != e.v || !gok {
			return fmt.Errorf("after %v (cap %d): drain returned (%d,%d,%v), want (%d,%d,true)", c.Ops, c.Cap, gk, gv, gok, e.k, e.v)
		}
		if lru.Count() != len(m.e) {
			return fmt.Errorf("after %v (cap %d): Count() = %d during drain, want %d", c.Ops, c.Cap, lru.Count(), len(m.e))
		}
	}
	if k, v, ok := lru.RemoveOldest(); ok || k != 0 || v != 0 {
		return fmt.Errorf("after %v (cap %d): RemoveOldest on drained cache returned (%d,%d,%v)", c.Ops, c.Cap, k, v, ok)
	}
	for k := 0; k <= maxKey+1; k++ {
		if v, ok := lru.Get(k); ok {
			return fmt.Errorf("after %v (cap %d): key %d still found (value %d) after full drain", c.Ops, c.Cap, k, v)
		}
	}
	return nil
}

// The constructor rejects non-positive capacities.
type ctorCase struct {
	Cap int `json:"cap"`
}

func ctorProp(c ctorCase, r *pbt.R) error {
	lru, err := cache.NewLRU[string, int](c.Cap)
	if c.Cap <= 0 {
		r.NonTrivial()
		if err == nil || lru != nil {
			return fmt.Errorf("NewLRU(%d) accepted a non-positive capacity", c.Cap)
		}
		return nil
	}
	if err != nil || lru == nil {
		return fmt.Errorf("NewLRU(%d) rejected a positive capacity: %v", c.Cap, err)
	}
	if lru.Count() != 0 {
		return fmt.Errorf("NewLRU(%d): fresh cache has Count %d", c.Cap, lru.Count())
	}
	r.NonTrivialIf(c.Cap >= 1, "positive")
	return nil
}

func TestProp(t *testing.T) {
	pbt.Run(t, "C07",
		&pbt.Check[Case]{
			Name: "lru",
			Rule: "operation sequences (Add/Get/Remove x key, GetOldest, GetYoungest, RemoveOldest, RemoveYoungest, Flush) against a recency-list model; " +
				"enumerated: every sequence up to length 4 (thorough 5) over keys 0..3 (0..4) for every capacity 1..4; random: capacity 1..16, up to 120 (300) operations; one case in twelve: capacity 31..5000 (around powers of two), filled first, then up to capacity further operations. " +
				"Non-trivial = an eviction happened, or a GetOldest/RemoveYoungest was followed by a later Add/Get. Distinct = enumerated cases (injective encoding) + hash-distinct random cases outside the enumerated scope.",
			Enum: enum, Gen: gen, Prop: prop, OutOfEnum: outOfEnum,
			RapidQuick: 1500, RapidThorough: 20000,
		},
		&pbt.Check[ctorCase]{
			Name: "ctor",
			Rule: "every capacity in -8..8 for the constructor; non-trivial = all of them",
			Enum: func(s pbt.Src, _ bool) ctorCase { return ctorCase{Cap: s.Intn(17) - 8} },
			Prop: ctorProp,
		},
	)
}
