// C11: set-algebra slice helpers return exact set results in first-occurrence order.
//
// Three sub-checks, all compared with quadratic reference implementations that
// use nothing but nested loops and ==:
//
//	single: Unique, UniqueBy, Duplicate, DuplicateWithIndex on one slice
//	tuple:  Intersection, IntersectionBy, Difference, DifferenceBy, Without on 1..k slices
//	union:  Union on nestings of T, []T, []any (well-formed: Unique of the flattening;
//	        malformed: a non-nil error)
//
// Cases hold small integer codes; the element type (int, string, float64) and
// the key function are selected by index, so every case is plain JSON.
package c11

import (
	"sort"
	"fmt"
	"math"
	"strconv"
	"strings"
	"testing"

	"github.com/esimov/gogu"
	"verif/pbt"
)

// ---------------------------------------------------------------------------
// element types and key functions

const (
	typInt = iota
	typString
	typFloat
	nTyp
)

var typNames = []string{"int", "string", "float64"}

func toInt(c int) int { return c }

// strTable maps the small codes to strings that collapse under lower-casing /
// first byte / length; other codes get a unique "s<code>".
var strTable = []string{"a", "A", "b", "ab", "", "B", "ba", "Ab", "c", "abc", "aB", "C"}

func toString(c int) string {
	if c >= 0 && c < len(strTable) {
		return strTable[c]
	}
	return "s" + strconv.Itoa(c)
}

// toFloat: halves, so that math.Floor collapses 2k and 2k+1 onto the element 2k. Never NaN, never -0.
func toFloat(c int) float64 { return float64(c) * 0.5 }

type keyFn[T any] struct {
	name string
	f    func(T) T
}

const nFns = 5

var intFns = []keyFn[int]{
	{"identity", func(x int) int { return x }},
	{"x%2", func(x int) int { return x % 2 }},
	{"const 1", func(int) int { return 1 }},
	{"x/2", func(x int) int { return x / 2 }},
	{"x+1", func(x int) int { return x + 1 }},
}

var strFns = []keyFn[string]{
	{"identity", func(s string) string { return s }},
	{"lower", strings.ToLower},
	{`const "a"`, func(string) string { return "a" }},
	{"first byte", func(s string) string {
		if s == "" {
			return ""
		}
		return s[:1]
	}},
	{"len", func(s string) string { return strconv.Itoa(len(s)) }},
}

var floatFns = []keyFn[float64]{
	{"identity", func(x float64) float64 { return x }},
	{"floor", math.Floor},
	{"const 1", func(float64) float64 { return 1 }},
	{"frac", func(x float64) float64 { return x - math.Floor(x) }},
	{"x+0.5", func(x float64) float64 { return x + 0.5 }},
}

func conv[T any](codes []int, f func(int) T) []T {
	out := make([]T, len(codes))
	for i, c := range codes {
		out[i] = f(c)
	}
	return out
}

func convAll[T any](codes [][]int, f func(int) T) [][]T {
	out := make([][]T, len(codes))
	for i, c := range codes {
		out[i] = conv(c, f)
	}
	return out
}

func clone[T any](s []T) []T {
	out := make([]T, len(s))
	copy(out, s)
	return out
}

func cloneAll[T any](s [][]T) [][]T {
	out := make([][]T, len(s))
	for i := range s {
		out[i] = clone(s[i])
	}
	return out
}

// show prints strings quoted (the alphabet contains "").
func show(x any) string {
	switch x.(type) {
	case []string, [][]string:
		return fmt.Sprintf("%q", x)
	}
	return fmt.Sprintf("%v", x)
}

// showMap prints a value->index map deterministically: keys in order of first occurrence in a, then any foreign key.
func showMap[T comparable](m map[T]int, a []T) string {
	var parts []string
	u := refUnique(a)
	for _, v := range u {
		if idx, ok := m[v]; ok {
			parts = append(parts, fmt.Sprintf("%s:%d", show([]T{v}), idx))
		}
	}
	extra := 0
	for k := range m {
		if !occurs(u, k) {
			extra++
		}
	}
	if extra > 0 {
		parts = append(parts, fmt.Sprintf("and %d key(s) that do not occur in the input", extra))
	}
	return "map{" + strings.Join(parts, " ") + "}"
}

// ---------------------------------------------------------------------------
// quadratic references, written from the statement

func occurs[T comparable](s []T, v T) bool {
	for _, x := range s {
		if x == v {
			return true
		}
	}
	return false
}

func eq[T comparable](a, b []T) bool {
	if len(a) != len(b) {
		return false
	}
	for i := range a {
		if a[i] != b[i] {
			return false
		}
	}
	return true
}

// refUnique: the first occurrence of each distinct value, in order.
func refUnique[T comparable](a []T) []T {
	out := []T{}
	for i, v := range a {
		if !occurs(a[:i], v) {
			out = append(out, v)
		}
	}
	return out
}

// refUniqueBy: the first element of each distinct image.
func refUniqueBy[T comparable](a []T, f func(T) T) []T {
	out := []T{}
	for i, v := range a {
		first := true
		for _, w := range a[:i] {
			if f(w) == f(v) {
				first = false
			}
		}
		if first {
			out = append(out, v)
		}
	}
	return out
}

// refIntersection: distinct values of args[0], in its order, that occur in every other argument.
func refIntersection[T comparable](args [][]T) []T {
	out := []T{}
	for i, v := range args[0] {
		if occurs(args[0][:i], v) {
			continue
		}
		all := true
		for _, o := range args[1:] {
			if !occurs(o, v) {
				all = false
			}
		}
		if all {
			out = append(out, v)
		}
	}
	return out
}

// refDifference: distinct values of a, in order, that do not occur in b.
func refDifference[T comparable](a, b []T) []T {
	out := []T{}
	for i, v := range a {
		if !occurs(a[:i], v) && !occurs(b, v) {
			out = append(out, v)
		}
	}
	return out
}

func imageOccurs[T comparable](s []T, img T, f func(T) T) bool {
	for _, x := range s {
		if f(x) == img {
			return true
		}
	}
	return false
}

// refIntersectionByAll: EVERY element of args[0] (repeats included), in order, whose
// image occurs among the images of every other argument.
func refIntersectionByAll[T comparable](args [][]T, f func(T) T) []T {
	out := []T{}
	for _, v := range args[0] {
		all := true
		for _, o := range args[1:] {
			if !imageOccurs(o, f(v), f) {
				all = false
			}
		}
		if all {
			out = append(out, v)
		}
	}
	return out
}

// refDifferenceByAll: EVERY element of a (repeats included), in order, whose image does
// not occur among the images of b.
func refDifferenceByAll[T comparable](a, b []T, f func(T) T) []T {
	out := []T{}
	for _, v := range a {
		if !imageOccurs(b, f(v), f) {
			out = append(out, v)
		}
	}
	return out
}

// refDuplicates: the values occurring more than once (first-occurrence order) and their first index.
func refDuplicates[T comparable](a []T) (vals []T, first []int) {
	for i, v := range a {
		if occurs(a[:i], v) {
			continue
		}
		if occurs(a[i+1:], v) {
			vals = append(vals, v)
			first = append(first, i)
		}
	}
	return vals, first
}

func hasDup[T comparable](a []T) bool {
	for i, v := range a {
		if occurs(a[:i], v) {
			return true
		}
	}
	return false
}

// checkBy decides an IntersectionBy/DifferenceBy result. all = every qualifying element of the
// first argument, repeats included (the literal reading of the statement). Accepted: any in-order
// subsequence of all whose distinct values, in first-occurrence order, are exactly those of all.
// That admits "keep duplicates" (got == all), "de-duplicate by value" (got == Unique(all)) and
// nothing that drops a qualifying value, adds a disqualified or foreign one, or reorders.
func checkBy[T comparable](got, all []T) string {
	for _, g := range got {
		if !occurs(all, g) {
			return fmt.Sprintf("contains %s, which is not an element of the first argument whose image qualifies", show([]T{g}))
		}
	}
	j := 0
	for _, g := range got {
		for j < len(all) && all[j] != g {
			j++
		}
		if j == len(all) {
			return "is not an in-order selection of the first argument's qualifying elements (order changed or a value repeated more often than in the input)"
		}
		j++
	}
	if u := refUnique(all); !eq(refUnique(got), u) {
		return fmt.Sprintf("does not list every qualifying distinct value in first-occurrence order %s", show(u))
	}
	return ""
}

// ---------------------------------------------------------------------------
// sub-check "single": Unique, UniqueBy, Duplicate, DuplicateWithIndex

type SingleCase struct {
	Typ int   `json:"typ"`
	Fn  int   `json:"fn"`
	A   []int `json:"a"`
}

func singleScope(typ int, thorough bool) (alpha, maxLen int) {
	switch {
	case typ == typInt && thorough:
		return 4, 8
	case typ == typInt || thorough:
		return 4, 6
	}
	return 4, 5
}

func enumSingle(s pbt.Src, thorough bool) SingleCase {
	c := SingleCase{Typ: s.Intn(nTyp), Fn: s.Intn(nFns)}
	alpha, maxLen := singleScope(c.Typ, thorough)
	c.A = pbt.Seq(s, 0, maxLen, func(s pbt.Src) int { return s.Intn(alpha) })
	return c
}

// bigCodes: a long slice (hundreds to thousands of codes a*i+b mod alpha; alpha either small, so that values repeat
// very often, or about half the length, so that the result is long as well).
func bigCodes(s pbt.Src, sizes int) []int {
	n := []int{255, 256, 257, 1000, 1024, 1025, 2048, 3000, 4096, 5000, 8192, 10000}[s.Intn(sizes)]
	alpha := 2 + s.Intn(12)
	if pbt.Bool(s) {
		alpha = n/2 + s.Intn(7)
		if n > 3000 {
			alpha = 40 + s.Intn(25) // the references are quadratic in the number of distinct values
		}
	}
	a, b := 1+s.Intn(9), s.Intn(9)
	out := make([]int, n)
	for i := range out {
		out[i] = (a*i*i + b*i) % alpha
	}
	return out
}

func genSingle(s pbt.Src, thorough bool) SingleCase {
	c := SingleCase{Typ: s.Intn(nTyp), Fn: s.Intn(nFns)}
	if s.Intn(14) == 0 {
		c.A = bigCodes(s, 12)
		return c
	}
	lo, alpha := -s.Intn(5), 2+s.Intn(12)
	max := 24
	if thorough {
		max = 48
	}
	c.A = pbt.Seq(s, 0, max, func(s pbt.Src) int { return lo + s.Intn(alpha) })
	return c
}

func inAlphabet(a []int, alpha int) bool {
	for _, v := range a {
		if v < 0 || v >= alpha {
			return false
		}
	}
	return true
}

func singleOutOfEnum(c SingleCase, thorough bool) bool {
	alpha, maxLen := singleScope(c.Typ, thorough)
	return len(c.A) > maxLen || !inAlphabet(c.A, alpha)
}

func singleProp(c SingleCase, r *pbt.R) error {
	if c.Typ < 0 || c.Typ >= nTyp || c.Fn < 0 || c.Fn >= nFns {
		return fmt.Errorf("harness: case outside the type/key-function tables: %+v", c)
	}
	switch c.Typ {
	case typInt:
		return runSingle(conv(c.A, toInt), intFns[c.Fn], r)
	case typString:
		return runSingle(conv(c.A, toString), strFns[c.Fn], r)
	default:
		return runSingle(conv(c.A, toFloat), floatFns[c.Fn], r)
	}
}

func singleChecks[T comparable](a []T, arg func() []T, fn keyFn[T]) error {
	in := func() string { return show(a) }

	wantU := refUnique(a)
	if got := gogu.Unique(arg()); !eq(got, wantU) {
		return fmt.Errorf("Unique(%s) = %s, want %s (first occurrence of each distinct value, in order)", in(), show(got), show(wantU))
	}

	wantUB := refUniqueBy(a, fn.f)
	if got := gogu.UniqueBy(arg(), fn.f); !eq(got, wantUB) {
		return fmt.Errorf("UniqueBy(%s, %s) = %s, want %s (first element of each distinct image, in order)", in(), fn.name, show(got), show(wantUB))
	}

	dups, first := refDuplicates(a)
	got := gogu.Duplicate(arg())
	if hasDup(got) {
		return fmt.Errorf("Duplicate(%s) = %s repeats a value; want each of %s once (any order)", in(), show(got), show(dups))
	}
	for _, g := range got {
		if !occurs(dups, g) {
			return fmt.Errorf("Duplicate(%s) = %s contains %s, which does not occur more than once; want exactly %s (any order)", in(), show(got), show([]T{g}), show(dups))
		}
	}
	for _, d := range dups {
		if !occurs(got, d) {
			return fmt.Errorf("Duplicate(%s) = %s misses %s, which occurs more than once; want exactly %s (any order)", in(), show(got), show([]T{d}), show(dups))
		}
	}

	gotIdx := gogu.DuplicateWithIndex(arg())
	okIdx := len(gotIdx) == len(dups)
	for i, d := range dups {
		if idx, ok := gotIdx[d]; !ok || idx != first[i] {
			okIdx = false
		}
	}
	if !okIdx {
		return fmt.Errorf("DuplicateWithIndex(%s) = %s, want exactly the values %s mapped to their first indices %v", in(), showMap(gotIdx, a), show(dups), first)
	}
	return nil
}

func runSingle[T comparable](a []T, fn keyFn[T], r *pbt.R) error {
	if err := singleChecks(a, func() []T { return clone(a) }, fn); err != nil {
		return err
	}
	if len(a) >= 2 && len(a) <= 300 {
		// One array serves every call of two rounds; between the rounds it is rewritten in place with its own reversal (same
		// address, same length, other first occurrences): an answer remembered per slice would be stale.
		buf := clone(a)
		same := func() []T { return buf }
		if err := singleChecks(a, same, fn); err != nil {
			return fmt.Errorf("one array for every call: %v", err)
		}
		rev := make([]T, len(a))
		for i := range a {
			rev[i] = a[len(a)-1-i]
		}
		copy(buf, rev)
		if err := singleChecks(rev, same, fn); err != nil {
			return fmt.Errorf("the same array after it was reversed in place (it held %s before): %v", show(a), err)
		}
	}
	wantU := refUnique(a)
	wantUB := refUniqueBy(a, fn.f)
	dups, _ := refDuplicates(a)
	collapses := len(wantUB) < len(wantU)
	r.NonTrivialIf(len(wantU) < len(a), "input has a repeated value")
	r.NonTrivialIf(collapses, "key function collapses distinct values")
	if len(dups) >= 2 {
		r.Label("two or more duplicated values")
	}
	if len(dups) > 0 && len(dups) < len(wantU) {
		r.Label("some values duplicated, some not")
	}
	return nil
}

// ---------------------------------------------------------------------------
// sub-check "tuple": Intersection, IntersectionBy, Difference, DifferenceBy, Without

type TupleCase struct {
	Typ  int     `json:"typ"`
	Fn   int     `json:"fn"`
	Args [][]int `json:"args"`
}

// tupleScope gives the enumerated box for k-tuples: alphabet size and the maximal length of
// every position. One box per (type, k), so the enumeration stays injective.
func tupleScope(typ, k int, thorough bool) (alpha int, maxLen [enumMaxK]int) {
	big := typ == typInt
	switch {
	case big && thorough:
		switch k {
		case 1:
			return 4, [enumMaxK]int{8}
		case 2:
			return 4, [enumMaxK]int{6, 4}
		default:
			return 3, [enumMaxK]int{5, 4, 4}
		}
	case big || thorough:
		switch k {
		case 1:
			return 4, [enumMaxK]int{6}
		case 2:
			return 3, [enumMaxK]int{6, 4}
		default:
			return 3, [enumMaxK]int{4, 3, 3}
		}
	}
	switch k {
	case 1:
		return 4, [enumMaxK]int{5}
	case 2:
		return 3, [enumMaxK]int{4, 3}
	default:
		return 3, [enumMaxK]int{3, 2, 2}
	}
}

const enumMaxK = 3

var kLabels = []string{"", "k=1", "k=2", "k=3"}

// enumTuple draws type, key function, k, then every slice (length first, then the elements).
// Every shard walks the whole tree, so the slices share one backing array (capacity-limited, never appended to).
func enumTuple(s pbt.Src, thorough bool) TupleCase {
	c := TupleCase{Typ: s.Intn(nTyp), Fn: s.Intn(nFns)}
	k := 1 + s.Intn(enumMaxK)
	alpha, maxLen := tupleScope(c.Typ, k, thorough)
	buf := make([]int, 0, maxLen[0]+maxLen[1]+maxLen[2])
	c.Args = make([][]int, k)
	for i := range c.Args {
		n := s.Intn(maxLen[i] + 1)
		start := len(buf)
		for j := 0; j < n; j++ {
			buf = append(buf, s.Intn(alpha))
		}
		c.Args[i] = buf[start:len(buf):len(buf)]
	}
	return c
}

func genTuple(s pbt.Src, thorough bool) TupleCase {
	c := TupleCase{Typ: s.Intn(nTyp), Fn: s.Intn(nFns)}
	lo, alpha := -s.Intn(5), 2+s.Intn(10)
	max := 16
	if thorough {
		max = 32
	}
	big := s.Intn(14) == 0
	if !big && s.Intn(12) == 0 {
		// many arguments (around the width of a machine word and beyond): a first argument of a few values and 62..129
		// further ones, most of which hold all of them, so that the intersection is decided by the few that do not
		n := pbt.Pick(s, 62, 63, 64, 65, 66, 127, 128, 129)
		first := pbt.Seq(s, 1, 6, func(s pbt.Src) int { return lo + s.Intn(alpha) })
		c.Args = [][]int{first}
		odd := s.Intn(n) // the argument that lacks the first value of the first argument (often the last ones)
		if s.Intn(2) == 0 {
			odd = n - 1 - s.Intn(3)
		}
		for i := 0; i < n; i++ {
			a := append([]int{}, first...)
			if i == odd {
				a = a[1:]
			}
			c.Args = append(c.Args, a)
		}
		return c
	}
	c.Args = pbt.Seq(s, 1, 5, func(s pbt.Src) []int {
		if big && s.Intn(3) != 0 {
			return bigCodes(s, 7)
		}
		a := pbt.Seq(s, 0, max, func(s pbt.Src) int { return lo + s.Intn(alpha) })
		if a == nil {
			a = []int{}
		}
		return a
	})
	return c
}

func tupleOutOfEnum(c TupleCase, thorough bool) bool {
	k := len(c.Args)
	if k < 1 || k > enumMaxK {
		return true
	}
	alpha, maxLen := tupleScope(c.Typ, k, thorough)
	for i, a := range c.Args {
		if len(a) > maxLen[i] || !inAlphabet(a, alpha) {
			return true
		}
	}
	return false
}

func tupleProp(c TupleCase, r *pbt.R) error {
	if c.Typ < 0 || c.Typ >= nTyp || c.Fn < 0 || c.Fn >= nFns {
		return fmt.Errorf("harness: case outside the type/key-function tables: %+v", c)
	}
	if len(c.Args) == 0 {
		// Intersection/IntersectionBy index params[0]: at least one argument is the domain.
		r.Label("no argument (outside the domain, skipped)")
		return nil
	}
	switch c.Typ {
	case typInt:
		return runTuple(convAll(c.Args, toInt), intFns[c.Fn], r)
	case typString:
		return runTuple(convAll(c.Args, toString), strFns[c.Fn], r)
	default:
		return runTuple(convAll(c.Args, toFloat), floatFns[c.Fn], r)
	}
}

func runTuple[T comparable](args [][]T, fn keyFn[T], r *pbt.R) error {
	a := args[0]
	k := len(args)
	in := func() string { return show(args) }

	// Intersection over all arguments.
	wantI := refIntersection(args)
	if got := gogu.Intersection(cloneAll(args)...); !eq(got, wantI) {
		return fmt.Errorf("Intersection(%s...) = %s, want %s (distinct values of the first argument, in its order, occurring in every other argument)", in(), show(got), show(wantI))
	}

	// IntersectionBy over all arguments.
	allI := refIntersectionByAll(args, fn.f)
	gotIB := gogu.IntersectionBy(fn.f, cloneAll(args)...)
	if msg := checkBy(gotIB, allI); msg != "" {
		return fmt.Errorf("IntersectionBy(%s, %s...) = %s %s; the qualifying elements of the first argument are %s", fn.name, in(), show(gotIB), msg, show(allI))
	}

	// Difference / DifferenceBy: first argument against the second (an empty one for a 1-tuple).
	var b []T
	if k >= 2 {
		b = args[1]
	}
	wantD := refDifference(a, b)
	if got := gogu.Difference(clone(a), clone(b)); !eq(got, wantD) {
		return fmt.Errorf("Difference(%s, %s) = %s, want %s (distinct values of the first argument, in order, not occurring in the second)", show(a), show(b), show(got), show(wantD))
	}
	allD := refDifferenceByAll(a, b, fn.f)
	gotDB := gogu.DifferenceBy(clone(a), clone(b), fn.f)
	if msg := checkBy(gotDB, allD); msg != "" {
		return fmt.Errorf("DifferenceBy(%s, %s, %s) = %s %s; the qualifying elements of the first argument are %s", show(a), show(b), fn.name, show(gotDB), msg, show(allD))
	}

	// Without: the listed values are all other arguments, concatenated.
	listed := []T{}
	for _, o := range args[1:] {
		listed = append(listed, o...)
	}
	wantW := refDifference(a, listed)
	if got := gogu.Without[T, T](clone(a), clone(listed)...); !eq(got, wantW) {
		return fmt.Errorf("Without(%s, %s...) = %s, want %s (distinct values of the first argument, in order, not among the listed values)", show(a), show(listed), show(got), show(wantW))
	}

	// A caller that keeps its slices: the same calls made twice on the SAME argument objects, interleaved (the result of a
	// call depends on the values of its arguments only, so a helper that used its first argument as scratch space shows in
	// the next call).
	if len(a) >= 2 {
		ca := cloneAll(args)
		var cb []T
		if k >= 2 {
			cb = ca[1]
		}
		for round := 1; round <= 2; round++ {
			if got := gogu.Difference(ca[0], cb); !eq(got, wantD) {
				return fmt.Errorf("Difference(%s, %s), call %d in a series of calls on the same slices = %s, want %s", show(a), show(b), round, show(got), show(wantD))
			}
			if got := gogu.Without[T, T](ca[0], listed...); !eq(got, wantW) {
				return fmt.Errorf("Without(%s, %s...), call %d in a series of calls on the same slices = %s, want %s", show(a), show(listed), round, show(got), show(wantW))
			}
			if got := gogu.Intersection(ca...); !eq(got, wantI) {
				return fmt.Errorf("Intersection(%s...), call %d in a series of calls on the same slices = %s, want %s", in(), round, show(got), show(wantI))
			}
			if got := gogu.DifferenceBy(ca[0], cb, fn.f); checkBy(got, allD) != "" {
				return fmt.Errorf("DifferenceBy(%s, %s, %s), call %d in a series of calls on the same slices = %s %s", show(a), show(b), fn.name, round, show(got), checkBy(got, allD))
			}
			if got := gogu.IntersectionBy(fn.f, ca...); checkBy(got, allI) != "" {
				return fmt.Errorf("IntersectionBy(%s, %s...), call %d in a series of calls on the same slices = %s %s", fn.name, in(), round, show(got), checkBy(got, allI))
			}
		}
	}

	// Non-triviality (stated rule) and informative labels.
	dupA := hasDup(a)
	empty := false
	for _, x := range args {
		if len(x) == 0 {
			empty = true
		}
	}
	partial := false
	if k >= 3 {
		for _, v := range a {
			n := 0
			for _, o := range args[1:] {
				if occurs(o, v) {
					n++
				}
			}
			if n > 0 && n < k-1 {
				partial = true
			}
		}
	}
	r.NonTrivialIf(dupA, "first argument has a repeated value")
	r.NonTrivialIf(partial, "a value occurs in only some of the other arguments")
	r.NonTrivialIf(empty, "an argument is empty")
	if k >= 2 && len(wantI) > 0 && len(wantI) < len(refUnique(a)) {
		r.Label("intersection non-empty proper subset")
	}
	if !eq(refUnique(allI), wantI) || !eq(refUnique(allD), wantD) {
		r.Label("By result differs from plain result")
	}
	if len(gotIB) > len(refUnique(allI)) || len(gotDB) > len(refUnique(allD)) {
		r.Label("By result keeps a repeated value")
	}
	imgIsElem := false
	for i, v := range a {
		for j, w := range a {
			if i != j && v != w && fn.f(v) == w {
				imgIsElem = true
			}
		}
	}
	if imgIsElem {
		r.Label("image of one element is another element of the first argument")
	}
	if k < len(kLabels) {
		r.Label(kLabels[k])
	} else {
		r.Label("k>=4")
	}
	return nil
}

// ---------------------------------------------------------------------------
// sub-check "union"

const (
	kLeaf  = iota // a bare T; V[0] is its code
	kSlice        // a []T; V are its codes
	kAny          // a []any; C are its elements
	kBad          // a malformed element; V[0] selects the variant, V[1] is a code
)

// Node is one element of a nesting.
type Node struct {
	K int    `json:"k"`
	V []int  `json:"v,omitempty"`
	C []Node `json:"c,omitempty"`
}

type UnionCase struct {
	Typ  int  `json:"typ"`
	Root Node `json:"root"`
	// Shared: all []T members of the nesting are consecutive windows of ONE backing array (in left-to-right order),
	// each with its capacity reaching to the end of that array - so an earlier []T has spare capacity in which the
	// later ones live (what Chunk, or slicing one buffer, produces). The expected result is the same.
	Shared bool `json:"shared,omitempty"`
}

// arena hands out consecutive windows of one backing array.
type arena[T any] struct {
	base []T
	off  int
}

func countSliceCodes(n Node) int {
	t := 0
	if n.K == kSlice {
		t = len(n.V)
	}
	for _, c := range n.C {
		t += countSliceCodes(c)
	}
	return t
}

type myInt int
type myString string
type myFloat float64

const nBad = 10

var badNames = []string{"nil", "scalar of a foreign type", "[][]T{{v}}", "[][]T{}", "scalar of a related type (int64/[]byte/float32)",
	"named type over T", "slice of a foreign type", "*T", "[1]T", "map[T]bool"}

func badValue[T comparable](typ, variant int, v T) any {
	switch variant {
	case 0:
		return nil
	case 1:
		if typ == typInt {
			return "x"
		}
		return 1 // an int among strings / floats
	case 2:
		return [][]T{{v}}
	case 3:
		return [][]T{}
	case 4:
		switch x := any(v).(type) {
		case int:
			return int64(x)
		case string:
			return []byte(x)
		case float64:
			return float32(x)
		}
	case 5:
		switch x := any(v).(type) {
		case int:
			return myInt(x)
		case string:
			return myString(x)
		case float64:
			return myFloat(x)
		}
	case 6:
		if typ == typInt {
			return []string{"x"}
		}
		return []int{1}
	case 7:
		return &v
	case 8:
		return [1]T{v}
	}
	return map[T]bool{v: true}
}

func nodeCode(n Node, i int) int {
	if i < len(n.V) {
		return n.V[i]
	}
	return 0
}

func badVariant(n Node) int {
	v := nodeCode(n, 0) % nBad
	if v < 0 {
		v = -v
	}
	return v
}

// build turns the model tree into the value handed to Union.
func build[T comparable](n Node, f func(int) T, typ int) any { return buildIn[T](n, f, typ, nil) }

func buildIn[T comparable](n Node, f func(int) T, typ int, ar *arena[T]) any {
	switch n.K {
	case kLeaf:
		return f(nodeCode(n, 0))
	case kSlice:
		if ar != nil {
			w := ar.base[ar.off : ar.off+len(n.V)]
			for i, c := range n.V {
				w[i] = f(c)
			}
			ar.off += len(n.V)
			return w
		}
		return conv(n.V, f)
	case kAny:
		out := make([]any, len(n.C))
		for i := range n.C {
			out[i] = buildIn(n.C[i], f, typ, ar)
		}
		return out
	}
	return badValue(typ, badVariant(n), f(nodeCode(n, 1)))
}

type treeStats struct {
	codes      []int // left-to-right flattening
	bad        bool
	nodes      int // nodes below the root
	depth      int // deepest []any level (root []any = 1)
	emptyInner bool
}

func walk(n Node, level int, st *treeStats) {
	switch n.K {
	case kLeaf:
		st.codes = append(st.codes, nodeCode(n, 0))
	case kSlice:
		st.codes = append(st.codes, n.V...)
		if len(n.V) == 0 && level > 0 {
			st.emptyInner = true
		}
	case kAny:
		if level+1 > st.depth {
			st.depth = level + 1
		}
		if len(n.C) == 0 && level > 0 {
			st.emptyInner = true
		}
		for _, c := range n.C {
			st.nodes++
			walk(c, level+1, st)
		}
	default:
		st.bad = true
	}
}

func describe(n Node, typ int) string {
	elem := func(c int) string {
		switch typ {
		case typInt:
			return strconv.Itoa(c)
		case typString:
			return strconv.Quote(toString(c))
		}
		return strconv.FormatFloat(toFloat(c), 'g', -1, 64)
	}
	switch n.K {
	case kLeaf:
		return elem(nodeCode(n, 0))
	case kSlice:
		parts := make([]string, len(n.V))
		for i, c := range n.V {
			parts[i] = elem(c)
		}
		return "[]" + typNames[typ] + "{" + strings.Join(parts, ",") + "}"
	case kAny:
		parts := make([]string, len(n.C))
		for i, c := range n.C {
			parts[i] = describe(c, typ)
		}
		return "[]any{" + strings.Join(parts, ", ") + "}"
	}
	switch bv := badVariant(n); bv {
	case 2, 4, 5, 7, 8, 9: // the variants that embed a value
		return "<" + badNames[bv] + ", v=" + elem(nodeCode(n, 1)) + ">"
	default:
		return "<" + badNames[bv] + ">"
	}
}

type uScope struct{ alpha, maxSlice, maxKids, budget, depth, nbad, maxBad int }

// unionScope: the enumerated trees have at most `budget` nodes below the top, fan-out <= maxKids,
// []any nesting <= depth, []T leaves of length <= maxSlice over `alpha` values and at most maxBad
// malformed elements, each one of the first `nbad` variants (nil, foreign scalar, [][]T{{v}}, [][]T{}, ...).
// One malformed element per tree is enough to put it at every position of every shape; the
// implementation stops at the first one anyway.
func unionScope(typ int, thorough bool) uScope {
	switch {
	case typ == typInt && thorough:
		return uScope{alpha: 2, maxSlice: 2, maxKids: 4, budget: 6, depth: 3, nbad: nBad, maxBad: 1}
	case typ == typInt || thorough:
		return uScope{alpha: 2, maxSlice: 2, maxKids: 4, budget: 5, depth: 3, nbad: 4, maxBad: 1}
	}
	return uScope{alpha: 2, maxSlice: 2, maxKids: 4, budget: 4, depth: 3, nbad: 4, maxBad: 1}
}

// uState is what is left of the per-tree allowances while a tree is being enumerated.
type uState struct{ budget, bad int }

func enumSliceNode(s pbt.Src, sc uScope) Node {
	return Node{K: kSlice, V: pbt.Seq(s, 0, sc.maxSlice, func(s pbt.Src) int { return s.Intn(sc.alpha) })}
}

func enumAnyNode(s pbt.Src, sc uScope, level int, st *uState) Node {
	maxK := sc.maxKids
	if st.budget < maxK {
		maxK = st.budget
	}
	n := s.Intn(maxK + 1)
	st.budget -= n
	kids := make([]Node, n)
	for i := range kids {
		// available kinds, in a fixed order: bare element, []T, then malformed (while allowed), then []any (while depth allows)
		kinds := [4]int{kLeaf, kSlice}
		nk := 2
		if st.bad > 0 {
			kinds[nk] = kBad
			nk++
		}
		if level < sc.depth {
			kinds[nk] = kAny
			nk++
		}
		switch kinds[s.Intn(nk)] {
		case kLeaf:
			kids[i] = Node{K: kLeaf, V: []int{s.Intn(sc.alpha)}}
		case kSlice:
			kids[i] = enumSliceNode(s, sc)
		case kBad:
			st.bad--
			kids[i] = Node{K: kBad, V: []int{s.Intn(sc.nbad), 0}}
		default:
			kids[i] = enumAnyNode(s, sc, level+1, st)
		}
	}
	return Node{K: kAny, C: kids}
}

func enumUnion(s pbt.Src, thorough bool) UnionCase {
	c := UnionCase{Typ: s.Intn(nTyp)}
	sc := unionScope(c.Typ, thorough)
	st := uState{budget: sc.budget, bad: sc.maxBad}
	switch s.Intn(3) {
	case 0:
		c.Root = enumSliceNode(s, sc)
	case 1:
		c.Root = enumAnyNode(s, sc, 1, &st)
	default:
		c.Root = Node{K: kBad, V: []int{s.Intn(sc.nbad), 0}}
	}
	return c
}

// inUnionScope checks the per-node bounds; *bads counts the malformed elements.
func inUnionScope(n Node, sc uScope, level int, root bool, bads *int) bool {
	switch n.K {
	case kLeaf:
		return !root && len(n.V) == 1 && inAlphabet(n.V, sc.alpha)
	case kSlice:
		return len(n.V) <= sc.maxSlice && inAlphabet(n.V, sc.alpha)
	case kAny:
		if level+1 > sc.depth || len(n.C) > sc.maxKids {
			return false
		}
		for _, c := range n.C {
			if !inUnionScope(c, sc, level+1, false, bads) {
				return false
			}
		}
		return true
	case kBad:
		*bads++
		return len(n.V) == 2 && n.V[0] >= 0 && n.V[0] < sc.nbad && n.V[1] == 0
	}
	return false
}

func unionOutOfEnum(c UnionCase, thorough bool) bool {
	sc := unionScope(c.Typ, thorough)
	var st treeStats
	walk(c.Root, 0, &st)
	bads := 0
	return c.Shared || st.nodes > sc.budget || !inUnionScope(c.Root, sc, 0, true, &bads) || bads > sc.maxBad
}

func genUnion(s pbt.Src, thorough bool) UnionCase {
	c := UnionCase{Typ: s.Intn(nTyp), Shared: s.Intn(3) == 0}
	allowBad := s.Intn(3) == 0
	lo, alpha := -s.Intn(3), 2+s.Intn(8)
	code := func(s pbt.Src) int { return lo + s.Intn(alpha) }
	maxDepth := 5 // []any nesting levels
	if thorough {
		maxDepth = 7
	}
	var node func(s pbt.Src, level int, root bool) Node
	node = func(s pbt.Src, level int, root bool) Node {
		// 0..2 bare element (at the top: []any), 3..4 []T, 5..6 []any, 7 malformed (when allowed, else []any)
		kind := s.Intn(8)
		isAny := kind == 5 || kind == 6 || (root && kind <= 2) || (kind == 7 && !allowBad)
		switch {
		case kind == 7 && allowBad:
			return Node{K: kBad, V: []int{s.Intn(nBad), code(s)}}
		case isAny && level < maxDepth:
			maxKids := 6 - level
			if maxKids < 2 {
				maxKids = 2
			}
			return Node{K: kAny, C: pbt.Seq(s, 0, maxKids, func(s pbt.Src) Node { return node(s, level+1, false) })}
		case kind <= 2 && !root:
			return Node{K: kLeaf, V: []int{code(s)}}
		}
		return Node{K: kSlice, V: pbt.Seq(s, 0, 6, code)}
	}
	c.Root = node(s, 0, true)
	return c
}

func unionProp(c UnionCase, r *pbt.R) error {
	if c.Typ < 0 || c.Typ >= nTyp {
		return fmt.Errorf("harness: case outside the type table: %+v", c)
	}
	if c.Root.K == kLeaf {
		// A bare T at the top is neither a nesting of slices nor malformed: the statement is silent.
		r.Label("bare element at the top (outside the domain, skipped)")
		return nil
	}
	if !validKinds(c.Root, 0) {
		return fmt.Errorf("harness: case contains an unknown node kind or is too deep: %+v", c)
	}
	switch c.Typ {
	case typInt:
		return runUnion(c, toInt, r)
	case typString:
		return runUnion(c, toString, r)
	default:
		return runUnion(c, toFloat, r)
	}
}

func validKinds(n Node, level int) bool {
	if n.K < kLeaf || n.K > kBad || level > 64 {
		return false
	}
	for _, c := range n.C {
		if !validKinds(c, level+1) {
			return false
		}
	}
	return true
}

func runUnion[T comparable](c UnionCase, f func(int) T, r *pbt.R) error {
	var st treeStats
	walk(c.Root, 0, &st)
	var in any
	if c.Shared {
		in = buildIn(c.Root, f, c.Typ, &arena[T]{base: make([]T, countSliceCodes(c.Root))})
		r.Label("[]T members are windows of one backing array")
	} else {
		in = build(c.Root, f, c.Typ)
	}
	got, err := gogu.Union[T](in)

	if st.bad {
		r.NonTrivial()
		r.Label("malformed nesting")
		if c.Root.K == kBad {
			r.Label("malformed at the top")
		}
		if err == nil {
			return fmt.Errorf("Union[%s](%s) returned (%s, nil) for a malformed nesting; want a non-nil error", typNames[c.Typ], describe(c.Root, c.Typ), show(got))
		}
		return nil
	}
	if err != nil {
		return fmt.Errorf("Union[%s](%s) rejected a well-formed nesting of T, []T and []any: %v", typNames[c.Typ], describe(c.Root, c.Typ), err)
	}
	flat := conv(st.codes, f)
	want := refUnique(flat)
	if !eq(got, want) {
		return fmt.Errorf("Union[%s](%s) = %s, want %s (Unique of the left-to-right flattening %s)", typNames[c.Typ], describe(c.Root, c.Typ), show(got), show(want), show(flat))
	}
	r.NonTrivialIf(len(want) < len(flat), "flattening has a repeated value")
	r.NonTrivialIf(st.emptyInner, "empty inner slice")
	r.NonTrivialIf(st.depth >= 2, "[]any nested in []any")
	if st.depth >= 3 {
		r.Label("depth >= 3")
	}
	if c.Root.K == kSlice {
		r.Label("top-level []T")
	}
	return nil
}

// ---------------------------------------------------------------------------

// ---------------------------------------------------------------------------
// the helpers are pure: concurrent callers, each with slices of their own, get what they get alone

type ParCase struct {
	H    int `json:"h"`
	Size int `json:"size"`
	W    int `json:"workers"`
}

var parNames = []string{"Unique", "UniqueBy", "Union", "Intersection", "IntersectionBy", "Difference", "DifferenceBy", "Without", "Duplicate(sorted)+DuplicateWithIndex"}

func parCodes(w, size, alpha int) []int {
	out := make([]int, size)
	for i := range out {
		out[i] = (i*i*(w+3) + 5*i + w) % alpha
	}
	return out
}

func parProp(c ParCase, r *pbt.R) error {
	h := ((c.H % len(parNames)) + len(parNames)) % len(parNames)
	size := 64 + ((c.Size%12000)+12000)%12000
	workers := 2 + ((c.W%7)+7)%7
	half := func(v int) int { return v / 2 }
	f := func(w int) string {
		a, b := parCodes(w, size, 61+w), parCodes(w+9, size/2, 47)
		switch h {
		case 0:
			return pbt.Digest(gogu.Unique(a))
		case 1:
			return pbt.Digest(gogu.UniqueBy(a, half))
		case 2:
			v, err := gogu.Union[int]([]any{a[:size/2], []any{a[size/2:], 5}, b})
			return pbt.Digest(fmt.Sprint(v, err))
		case 3:
			return pbt.Digest(gogu.Intersection(a, b, a[size/4:]))
		case 4:
			return pbt.Digest(gogu.IntersectionBy(half, a, b))
		case 5:
			return pbt.Digest(gogu.Difference(a, b))
		case 6:
			return pbt.Digest(gogu.DifferenceBy(a, b, half))
		case 7:
			return pbt.Digest(gogu.Without[int, int](a, b[:20]...))
		default:
			d := gogu.Duplicate(a)
			sort.Ints(d)
			return pbt.Digest(d) + pbt.Digest(gogu.DuplicateWithIndex(a))
		}
	}
	if err := pbt.Concurrently(workers, 4, f); err != nil {
		return fmt.Errorf("%s on inputs of about %d elements: %v", parNames[h], size, err)
	}
	r.NonTrivial()
	r.Label(parNames[h])
	return nil
}

// ---------------------------------------------------------------------------
// sub-check "typed": the same references on other element types

// TypedCase: Args are slices of indices into the value table of element type ET; Fn picks identity, a constant or the
// function that maps table[i] to table[i - i%2] (collapses neighbours in the table).
type TypedCase struct {
	ET   int     `json:"et"`
	Fn   int     `json:"fn"`
	Args [][]int `json:"args"`
}

type pairT struct {
	A int
	B string
}

var typedNames = []string{"int32", "uint8", "[2]int8", "struct{A int; B string}", "any", "uint64", "float32", "bool", "int64"}

var (
	// int32 is also rune: values that are not valid code points (negative, surrogates, above 0x10FFFF) and U+FFFD are elements like any other
	tblInt32 = []int32{-1, 0, 65, 0xD800, 0xDFFF, 0xFFFD, 0x110000, -3, 7, math.MinInt32, math.MaxInt32, 0xFFFE}
	tblUint8 = []uint8{0, 1, 127, 128, 255, 65, 200, 10}
	tblArr   = [][2]int8{{0, 0}, {0, 1}, {1, 0}, {1, 1}, {-1, 0}, {0, -1}, {127, -128}, {-128, 127}}
	tblPair  = []pairT{{0, ""}, {0, "a"}, {1, ""}, {1, "a"}, {-1, "A"}, {1, "A"}, {2, "ab"}, {2, "ba"}}
	// dynamic types matter: 1, int64(1), "1" and 1.0 are four different values
	tblAny    = []any{1, int64(1), "1", 1.0, nil, true, int8(1), [1]int{1}, struct{}{}, "", 0, false}
	tblUint64 = []uint64{0, 1 << 63, math.MaxUint64, 1 << 32, 1 << 53, 1<<53 + 1, math.MaxUint64 - 1, 1}
	tblF32    = []float32{0.1, math.Nextafter32(0.1, 1), 0, 1, math.Nextafter32(1, 2), -0.1, 16777216, 16777218}
	tblBool   = []bool{false, true}
	tblInt64  = []int64{0, 1 << 53, 1<<53 + 1, math.MinInt64, math.MaxInt64, -1, math.MaxInt64 - 1, 1 << 32}
)

func typedFns[T comparable](tbl []T) []keyFn[T] {
	return []keyFn[T]{
		{"identity", func(x T) T { return x }},
		{"constant", func(T) T { return tbl[0] }},
		{"table neighbour", func(x T) T {
			for i, v := range tbl {
				if v == x {
					return tbl[i-i%2]
				}
			}
			return x
		}},
	}
}

func runTyped[T comparable](c TypedCase, tbl []T, r *pbt.R) error {
	fn := typedFns(tbl)[norm3(c.Fn)]
	args := make([][]T, len(c.Args))
	for i, a := range c.Args {
		args[i] = make([]T, len(a))
		for j, code := range a {
			args[i][j] = tbl[((code%len(tbl))+len(tbl))%len(tbl)]
		}
	}
	if len(args) == 0 {
		return nil
	}
	if err := runSingle(args[0], fn, r); err != nil {
		return fmt.Errorf("element type %s: %v", typedNames[c.ET], err)
	}
	if err := runTuple(args, fn, r); err != nil {
		return fmt.Errorf("element type %s: %v", typedNames[c.ET], err)
	}
	if _, isAny := any(tbl).([]any); !isAny && len(args) >= 2 {
		// Union of ([]T, T, []any{[]T...}): Unique of the flattening
		var flat []T
		nest := []any{}
		for i, a := range args {
			switch {
			case i == 1 && len(a) > 0:
				nest = append(nest, a[0], clone(a[1:]))
				flat = append(flat, a...)
			case i >= 2:
				nest = append(nest, []any{clone(a)})
				flat = append(flat, a...)
			default:
				nest = append(nest, clone(a))
				flat = append(flat, a...)
			}
		}
		got, err := gogu.Union[T](nest)
		want := refUnique(flat)
		if err != nil || !eq(got, want) {
			return fmt.Errorf("element type %s: Union(%v) = %v, %v; want %v", typedNames[c.ET], nest, got, err, want)
		}
	}
	return nil
}

func norm3(i int) int { return ((i % 3) + 3) % 3 }

func typedProp(c TypedCase, r *pbt.R) error {
	switch ((c.ET % len(typedNames)) + len(typedNames)) % len(typedNames) {
	case 0:
		return runTyped(c, tblInt32, r)
	case 1:
		return runTyped(c, tblUint8, r)
	case 2:
		return runTyped(c, tblArr, r)
	case 3:
		return runTyped(c, tblPair, r)
	case 4:
		return runTyped(c, tblAny, r)
	case 5:
		return runTyped(c, tblUint64, r)
	case 6:
		return runTyped(c, tblF32, r)
	case 7:
		return runTyped(c, tblBool, r)
	default:
		return runTyped(c, tblInt64, r)
	}
}

func typedGen(s pbt.Src, thorough bool) TypedCase {
	c := TypedCase{ET: s.Intn(len(typedNames)), Fn: s.Intn(3)}
	alpha := pbt.Pick(s, 2, 4, 8, 12)
	max := 10
	if thorough {
		max = 24
	}
	k := pbt.Pick(s, 1, 2, 2, 3, 4)
	for i := 0; i < k; i++ {
		c.Args = append(c.Args, pbt.Seq(s, 0, max, func(s pbt.Src) int { return s.Intn(alpha) }))
	}
	return c
}

// ViewsCase: one []any "row" is built from Row (entry >= 0: the int itself as a leaf; entry < 0: a []int leaf of -entry
// elements counting up from 100*position); the nesting handed to the helper mentions the row SEVERAL times: the row
// itself, prefixes of it (views of the same array that start at the same element) and a suffix, in the order given by
// Use (each entry e: e%4 == 0 whole row, 1 prefix of length e/4 mod (len+1), 2 suffix from e/4 mod (len+1), 3 the row wrapped
// in one more []any). A nesting may mention one container as often as it likes; every mention contributes its leaves.
type ViewsCase struct {
	Row []int `json:"row"`
	Use []int `json:"use"`
}

func (c ViewsCase) build() (nest []any, leaves []int, desc string) {
	row := make([]any, len(c.Row))
	flat := make([][]int, len(c.Row))
	for i, e := range c.Row {
		if e >= 0 {
			row[i], flat[i] = e, []int{e}
		} else {
			l := make([]int, ((-e)%4)+1)
			for j := range l {
				l[j] = 100*i + j
			}
			row[i], flat[i] = l, l
		}
	}
	sum := func(lo, hi int) []int {
		var out []int
		for i := lo; i < hi; i++ {
			out = append(out, flat[i]...)
		}
		return out
	}
	n := len(row)
	for _, u := range c.Use {
		if u < 0 {
			u = -u
		}
		k := (u / 4) % (n + 1)
		switch u % 4 {
		case 0:
			nest, leaves, desc = append(nest, row), append(leaves, sum(0, n)...), desc+" row"
		case 1:
			nest, leaves, desc = append(nest, row[:k]), append(leaves, sum(0, k)...), desc+fmt.Sprintf(" row[:%d]", k)
		case 2:
			nest, leaves, desc = append(nest, row[k:]), append(leaves, sum(k, n)...), desc+fmt.Sprintf(" row[%d:]", k)
		default:
			nest, leaves, desc = append(nest, []any{row}), append(leaves, sum(0, n)...), desc+" []any{row}"
		}
	}
	return nest, leaves, fmt.Sprintf("row = %v; nesting = []any{%s }", row, desc)
}

func viewsGen(s pbt.Src, thorough bool) ViewsCase {
	max := 5
	if thorough {
		max = 9
	}
	return ViewsCase{
		Row: pbt.Seq(s, 1, max, func(s pbt.Src) int { return pbt.Range(s, -3, 6) }),
		Use: pbt.Seq(s, 1, 4, func(s pbt.Src) int { return s.Intn(40) }),
	}
}

func viewsProp(c ViewsCase, r *pbt.R) error {
	if len(c.Row) > 64 || len(c.Use) > 16 {
		return nil
	}
	nest, leaves, desc := c.build()
	got, err := gogu.Union[int](nest)
	want := refUnique(leaves)
	if err != nil || !eq(got, want) {
		return fmt.Errorf("%s: Union[int] = %v, %v; want %v (Unique of the leaves of every mention, left to right)", desc, got, err, want)
	}
	r.NonTrivialIf(len(c.Use) >= 2, "the row is mentioned at least twice")
	return nil
}

func TestProp(t *testing.T) {
	leaf := func(c int) Node { return Node{K: kLeaf, V: []int{c}} }
	sl := func(c ...int) Node { return Node{K: kSlice, V: append([]int{}, c...)} }
	anyOf := func(n ...Node) Node { return Node{K: kAny, C: n} }
	bad := func(variant int) Node { return Node{K: kBad, V: []int{variant, 1}} }

	pbt.Run(t, "C11",
		&pbt.Check[SingleCase]{
			Name: "single",
			Rule: "Unique, UniqueBy, Duplicate (as a set without repeats), DuplicateWithIndex on one slice against quadratic references; element type int/string/float64 " +
				"(codes mapped to ints, a string table, halves; no NaN), key function by index (identity, x%2|lower|floor, constant, x/2|first byte|frac, x+1|len|x+0.5). " +
				"Enumerated: every slice up to length 6 (thorough 8) over 4 values for int, up to length 5 (thorough 6) for string and float64, times every key function; " +
				"random: length up to 24 (48) over 2..13 values incl. negative codes. Non-trivial = the slice repeats a value or the key function collapses two distinct values. " +
				"Distinct = enumerated cases (injective) + hash-distinct random cases outside the enumerated box.",
			Enum: enumSingle, Gen: genSingle, Prop: singleProp, OutOfEnum: singleOutOfEnum,
			RapidQuick: 1500, RapidThorough: 20000,
			Fixed: []SingleCase{
				{Typ: typInt, Fn: 0, A: []int{}},
				{Typ: typFloat, Fn: 1, A: []int{5, 3, 4}},           // UniqueBy([2.5 1.5 2], floor)
				{Typ: typString, Fn: 1, A: []int{0, 2, 8, 5, 8, 1}}, // UniqueBy(a b c B c A, lower)
			},
		},
		&pbt.Check[TupleCase]{
			Name: "tuple",
			Rule: "Intersection/IntersectionBy over all k>=1 arguments (k=0 indexes params[0]: outside the domain), Difference/DifferenceBy of the first against the second argument " +
				"(against an empty slice when k=1), Without with the concatenation of all other arguments as listed values; plain functions must equal the quadratic reference exactly; " +
				"By-variants: with L = every element (repeats included) of the first argument whose image qualifies, the result must be an in-order sub-selection of L whose distinct values " +
				"in first-occurrence order equal those of L (accepts both 'keep duplicates' and 'de-duplicate by value', nothing else loses/adds/reorders a value). " +
				"Enumerated (int; quick): k=1 all slices len<=6 over 4 values, k=2 len<=(6,4) over 3 values, k=3 len<=(4,3,3) over 3 values, times 5 key functions; string/float64 use " +
				"len<=5 / (4,3) / (3,2,2); thorough: int k=1 len<=8, k=2 len<=(6,4) over 4 values, k=3 len<=(5,4,4) over 3 values, string/float64 the quick int boxes. " +
				"Random: 1..5 slices of length up to 16 (32) over 2..11 values incl. negative codes; one case in twelve has 63..130 arguments, all but one of which hold every value of the first. Non-trivial = the first argument repeats a value, or (k>=3) a value of the first " +
				"argument occurs in some but not all other arguments, or an argument is empty. Distinct = enumerated cases (injective) + hash-distinct random cases outside the boxes.",
			Enum: enumTuple, Gen: genTuple, Prop: tupleProp, OutOfEnum: tupleOutOfEnum,
			RapidQuick: 1500, RapidThorough: 20000,
			Fixed: []TupleCase{
				{Typ: typFloat, Fn: 1, Args: [][]int{{4, 5}, {5}}}, // IntersectionBy(floor, [2 2.5], [2.5])
				{Typ: typFloat, Fn: 1, Args: [][]int{{5, 4}, {5}}}, // IntersectionBy(floor, [2.5 2], [2.5])
				{Typ: typInt, Fn: 1, Args: [][]int{{1, 2}, {2, 1}}},
				{Typ: typString, Fn: 0, Args: [][]int{{0, 2}, {0, 0, 0}, {2, 0, 8}}},
			},
		},
		&pbt.Check[UnionCase]{
			Name: "union",
			Rule: "Union[T] on a nesting whose top is a []T, a []any or a malformed value (a bare T at the top is outside the domain); elements of a []any are T, []T, []any or malformed " +
				"(nil, scalar of a foreign type, [][]T{{v}}, [][]T{}, related scalar int64/[]byte/float32, named type over T, slice of a foreign type, *T, [1]T, map[T]bool). Well-formed: no error and " +
				"result == quadratic Unique of the left-to-right flattening of the model tree; any malformed element anywhere: non-nil error (result unconstrained). " +
				"Enumerated (int; quick): every tree with <= 5 nodes below the top, fan-out <= 4, []any depth <= 3, []T leaves of length <= 2 over 2 values and at most one malformed " +
				"element (nil, foreign scalar, [][]T{{v}}, [][]T{}) at any position incl. the top; string/float64: <= 4 nodes; thorough: int <= 6 nodes and all 10 malformed variants, string/float64 <= 5 nodes. " +
				"Random: in 1/3 of the cases all []T members are consecutive windows of ONE backing array (an earlier one has spare capacity in which the later ones live); []any depth up to 5 (7), fan-out up to 6, []T up to 6 over 2..9 values incl. negative codes, malformed elements (any number, all variants) allowed in 1/3 of the cases. " +
				"Non-trivial = malformed, or the flattening repeats a value, or an inner slice is empty, or a []any is nested in a []any. Distinct = enumerated (injective) + hash-distinct random outside the scope.",
			Enum: enumUnion, Gen: genUnion, Prop: unionProp, OutOfEnum: unionOutOfEnum,
			RapidQuick: 1500, RapidThorough: 20000,
			Fixed: []UnionCase{
				// windows of one array: a[:1], 9, a[1:]
				{Typ: typInt, Shared: true, Root: anyOf(sl(1), leaf(9), sl(2, 3, 4))},
				{Typ: typInt, Shared: true, Root: anyOf(sl(1, 2), anyOf(sl(3), leaf(1)), sl(4, 1))},
				// the repository's own example
				{Typ: typInt, Root: anyOf(anyOf(leaf(1), leaf(2), anyOf(leaf(3), sl(4, 5, 6))), leaf(7), sl(1, 2), leaf(3), sl(4, 7), leaf(8), leaf(9), leaf(9))},
				{Typ: typString, Root: sl(0, 1, 0)},
				{Typ: typInt, Root: anyOf(leaf(1), bad(1))},
				{Typ: typFloat, Root: anyOf(sl(1, 2), bad(1))}, // an int among float64s
				{Typ: typInt, Root: bad(2)},
				{Typ: typInt, Root: bad(0)},
			},
		},
		&pbt.Check[TypedCase]{
			Name: "typed",
			Rule: "the references of single and tuple (Unique, UniqueBy, Duplicate, DuplicateWithIndex, Intersection(By), Difference(By), Without) and Union of a ([]T, T, []T, []any{[]T}) nesting on other element types, values drawn from a table per type: " +
				"int32 (= rune; negative values, surrogates, values above 0x10FFFF, U+FFFD, the extremes), uint8, [2]int8, struct{A int; B string} (values sharing one field), any (1, int64(1), \"1\", 1.0, nil, true, int8(1), [1]int{1}, struct{}{}: equal only with equal dynamic type), " +
				"uint64 and int64 (values that collide after conversion to float64), float32 (neighbouring values), bool; key functions identity, constant, table neighbour. Random: 1..4 slices of up to 10 (24) elements over 2..12 table entries. Non-trivial as in single/tuple.",
			Gen: typedGen, Prop: typedProp, OutOfEnum: func(TypedCase, bool) bool { return true },
			RapidQuick: 1500, RapidThorough: 20000,
		},
		&pbt.Check[ViewsCase]{
			Name: "views",
			Rule: "Union[int] of a nesting that mentions ONE []any container several times: the container itself, prefixes of it (views of one array that start at the same element), suffixes, and the container wrapped once more; every mention contributes its leaves (ints and []int). Random: rows of 1..5 (9) entries, 1..4 mentions. Non-trivial = at least two mentions.",
			Gen: viewsGen, Prop: viewsProp, OutOfEnum: func(ViewsCase, bool) bool { return true },
			RapidQuick: 1500, RapidThorough: 20000,
		},
		&pbt.Check[ParCase]{
			Name: "parallel",
			Rule: "the helpers are pure functions: 2..8 goroutines call one of Unique, UniqueBy, Union, Intersection, IntersectionBy, Difference, DifferenceBy, Without, Duplicate+DuplicateWithIndex at the same time (real scheduler), each on inputs of its own of 64..12000 elements, four times; every answer must equal the answer of the same call running alone. Non-trivial = every case.",
			Gen:        func(s pbt.Src, _ bool) ParCase { return ParCase{H: s.Intn(len(parNames)), Size: pbt.Pick(s, 200, 3000, 12000), W: s.Intn(7)} },
			Prop:       parProp,
			OutOfEnum:  func(ParCase, bool) bool { return true },
			RapidQuick: 10, RapidThorough: 120,
		},
	)
}
