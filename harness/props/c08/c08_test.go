// C08: the expiring cache stores, rejects, expires and cleans up exactly as documented.
//
// Every case runs inside a testing/synctest bubble: time.Now, timers and the
// cleanup ticker use a virtual clock that only moves when the case advances it,
// so "one nanosecond before / exactly at / one nanosecond after the deadline" is
// executed literally.
package c08

import (
	"fmt"
	"math"
	"sort"
	"strings"
	"testing"
	"testing/synctest"
	"time"

	"github.com/esimov/gogu/cache"
	"verif/pbt"
)

const (
	opSet = iota
	opSetDefault
	opUpdate
	opGet
	opDelete
	opFlush
	opDeleteExpired
	opCount
	opList
	opMapToCache
	opIsExpired
	opAdvance
	nOps
)

var opNames = []string{"Set", "SetDefault", "Update", "Get", "Delete", "Flush", "DeleteExpired", "Count", "List", "MapToCache", "IsExpired", "Advance"}

// the second key is the empty string: a legitimate key of a map with string keys, and the one a `len(key) == 0` / "no key" shortcut would confuse with absence
var keys = []string{"a", "", "c"}

// durations an operation can ask for
const (
	durDefault = iota // cache.DefaultExpiration: use the configured default
	durShort          // 10ms
	durNone           // cache.NoExpiration
	durLong           // 1h
	durHuge           // the largest Duration (about 292 years): a positive duration whose deadline lies beyond anything a case reaches
	nDurs
)

var durVals = []time.Duration{cache.DefaultExpiration, 10 * time.Millisecond, cache.NoExpiration, time.Hour, time.Duration(math.MaxInt64)}
var durNames = []string{"default", "10ms", "none", "1h", "maxDuration"}

// configurations
// (the last two - other non-positive defaults, which mean "never expires" as well - are drawn by the random generator only)
var defExps = []time.Duration{cache.NoExpiration, 0, 50 * time.Millisecond, -time.Second, time.Duration(math.MinInt64)}

const nEnumDefExps = 3

var cleanups = []time.Duration{0, 20 * time.Millisecond}

// advance targets, interpreted at execution time
const (
	advBefore = iota // to 1ns before the next pending deadline
	advAt            // exactly to it
	advAfter         // 1ns past it
	advTick          // to the next cleanup tick (or 20ms without cleanup)
	advMilli         // 1ms
	advLong          // 200ms
	nAdv
)

var advNames = []string{"deadline-1ns", "deadline", "deadline+1ns", "next-tick", "1ms", "200ms"}

// Op is one call. Key: key index (MapToCache: bit mask of keys). Val: 0 = a fresh
// non-empty value, 1 = the empty string (rejected by the cache), 2 (random cases) = the value the key holds already; for MapToCache
// 1 means "the lowest key of the mask gets the empty string". Dur: see above.
// Arg: advance target.
type Op struct {
	Kind int `json:"kind"`
	Key  int `json:"key"`
	Val  int `json:"val"`
	Dur  int `json:"dur"`
	Arg  int `json:"arg"`
}

func (o Op) String() string {
	v := "v"
	if o.Val == 1 {
		v = `""`
	}
	switch o.Kind {
	case opSet, opUpdate:
		return fmt.Sprintf("%s(%q,%s,%s)", opNames[o.Kind], keys[o.Key], v, durNames[o.Dur])
	case opSetDefault:
		return fmt.Sprintf("SetDefault(%q,%s)", keys[o.Key], v)
	case opGet, opDelete, opIsExpired:
		return fmt.Sprintf("%s(%q)", opNames[o.Kind], keys[o.Key])
	case opMapToCache:
		var ks []string
		for i, k := range keys {
			if o.Key&(1<<i) != 0 {
				ks = append(ks, fmt.Sprintf("%q", k))
			}
		}
		return fmt.Sprintf("MapToCache({%s},%s,%s)", strings.Join(ks, ","), v, durNames[o.Dur])
	case opAdvance:
		return "Advance(" + advNames[o.Arg] + ")"
	}
	return opNames[o.Kind]
}

type Case struct {
	DefExp  int  `json:"defexp"`  // index into defExps
	Cleanup int  `json:"cleanup"` // index into cleanups
	Ops     []Op `json:"ops"`
}

func (c Case) String() string {
	return fmt.Sprintf("cache.New(default=%v, cleanup=%v) %v", defExps[c.DefExp], cleanups[c.Cleanup], c.Ops)
}

// ---------------------------------------------------------------------------
// generators

// enumOp: reduced alphabet (2 keys; durations default/10ms/none) so that all
// sequences up to length 3 (thorough 4) can be enumerated for all 6 configurations.
func enumOp(s pbt.Src) Op {
	type alt struct {
		n  int
		mk func(i int) Op
	}
	alts := []alt{
		{12, func(i int) Op { return Op{Kind: opSet, Key: i % 2, Val: (i / 2) % 2, Dur: i / 4} }},
		{12, func(i int) Op { return Op{Kind: opUpdate, Key: i % 2, Val: (i / 2) % 2, Dur: i / 4} }},
		{2, func(i int) Op { return Op{Kind: opSetDefault, Key: i} }},
		{2, func(i int) Op { return Op{Kind: opGet, Key: i} }},
		{2, func(i int) Op { return Op{Kind: opDelete, Key: i} }},
		{2, func(i int) Op { return Op{Kind: opIsExpired, Key: i} }},
		{1, func(i int) Op { return Op{Kind: opFlush} }},
		{1, func(i int) Op { return Op{Kind: opDeleteExpired} }},
		{1, func(i int) Op { return Op{Kind: opCount} }},
		{1, func(i int) Op { return Op{Kind: opList} }},
		{8, func(i int) Op { return Op{Kind: opMapToCache, Key: 2 + i%2, Val: (i / 2) % 2, Dur: i / 4} }},
		{nAdv, func(i int) Op { return Op{Kind: opAdvance, Arg: i} }},
	}
	total := 0
	for _, a := range alts {
		total += a.n
	}
	i := s.Intn(total)
	for _, a := range alts {
		if i < a.n {
			return a.mk(i)
		}
		i -= a.n
	}
	panic("unreachable")
}

func enumLen(thorough bool) int {
	if thorough {
		return 4
	}
	return 3
}

func enum(s pbt.Src, thorough bool) Case {
	c := Case{DefExp: s.Intn(nEnumDefExps), Cleanup: s.Intn(len(cleanups))}
	c.Ops = pbt.Seq(s, 0, enumLen(thorough), enumOp)
	return c
}

func genOp(s pbt.Src) Op {
	// weights: mutators and advances dominate, observers follow
	switch k := s.Intn(20); {
	case k < 4:
		return Op{Kind: opSet, Key: s.Intn(3), Val: pick(s, 6), Dur: genDur(s)}
	case k < 6:
		return Op{Kind: opUpdate, Key: s.Intn(3), Val: pick(s, 6), Dur: genDur(s)}
	case k < 7:
		return Op{Kind: opSetDefault, Key: s.Intn(3), Val: pick(s, 6)}
	case k < 9:
		return Op{Kind: opGet, Key: s.Intn(3)}
	case k < 10:
		return Op{Kind: opDelete, Key: s.Intn(3)}
	case k < 11:
		return Op{Kind: opIsExpired, Key: s.Intn(3)}
	case k < 12:
		return Op{Kind: []int{opFlush, opDeleteExpired, opDeleteExpired, opCount, opList}[s.Intn(5)]}
	case k < 13:
		return Op{Kind: opMapToCache, Key: 1 + s.Intn(7), Val: pick(s, 4), Dur: genDur(s)}
	case k < 14:
		return Op{Kind: []int{opCount, opList}[s.Intn(2)]}
	default:
		return Op{Kind: opAdvance, Arg: s.Intn(nAdv)}
	}
}

// genDur: the four ordinary durations, and the largest Duration one time in nine.
func genDur(s pbt.Src) int {
	if i := s.Intn(9); i < 8 {
		return i % 4
	}
	return durHuge
}

// pick returns 1 with probability 1/n.
func pick(s pbt.Src, n int) int {
	switch s.Intn(n) {
	case 0:
		return 1
	case 1, 2:
		return 2 // the value the key already holds
	}
	return 0
}

func gen(s pbt.Src, thorough bool) Case {
	c := Case{DefExp: s.Intn(len(defExps)), Cleanup: s.Intn(len(cleanups))}
	max := 30
	if thorough {
		max = 60
	}
	c.Ops = pbt.Seq(s, 0, max, genOp)
	return c
}

func outOfEnum(c Case, thorough bool) bool {
	if len(c.Ops) > enumLen(thorough) || c.DefExp >= nEnumDefExps {
		return true
	}
	for _, o := range c.Ops {
		if o.Dur == durLong || o.Dur == durHuge || (o.Kind != opMapToCache && o.Key == 2) || (o.Kind == opMapToCache && o.Key != 2 && o.Key != 3) {
			return true
		}
	}
	return false
}

// ---------------------------------------------------------------------------
// model

type entry struct {
	val      string
	deadline int64 // UnixNano; 0 = never expires
	// maybeGone: a purge opportunity (cleanup tick or DeleteExpired) has happened at or
	// after the deadline, so the entry may have been physically removed.
	maybeGone bool
	ticks     int   // cleanup ticks strictly after the deadline
	setAt     int64 // when stored
}

const (
	live = iota
	atDeadline
	expired
)

func (e *entry) state(now int64) int {
	switch {
	case e.deadline == 0 || now < e.deadline:
		return live
	case now == e.deadline:
		return atDeadline
	}
	return expired
}

type model struct {
	defExp   time.Duration
	interval time.Duration
	created  int64
	lastTick int64 // time of the last cleanup tick processed
	m        map[string]*entry
}

func (m *model) deadlineFor(d time.Duration, now int64) int64 {
	if d == cache.DefaultExpiration {
		d = m.defExp
	}
	if d > 0 {
		if int64(d) > math.MaxInt64-now {
			return math.MaxInt64 // the deadline is not representable: later than every instant of the case
		}
		return now + int64(d)
	}
	return 0
}

// ticksUntil processes the cleanup ticks in (lastTick, now].
func (m *model) ticksUntil(now int64, r *pbt.R) {
	if m.interval <= 0 {
		return
	}
	for t := m.lastTick + int64(m.interval); t <= now; t += int64(m.interval) {
		m.lastTick = t
		nExpired, nLive := 0, 0
		for k, e := range m.m {
			switch {
			case e.deadline != 0 && e.deadline < t:
				nExpired++
				e.ticks++
				e.maybeGone = true
				if e.ticks >= 2 {
					// "expired entries disappear within about one interval": after two
					// ticks past the deadline the entry has to be gone.
					delete(m.m, k)
				}
			case e.deadline != 0 && e.deadline == t:
				e.maybeGone = true
				nLive++
			default:
				nLive++
			}
		}
		r.NonTrivialIf(nExpired > 0 && nLive > 0, "tick with expired and live entries")
	}
}

func (m *model) nextDeadline(now int64) (int64, bool) {
	var best int64
	ok := false
	for _, e := range m.m {
		if e.deadline > now && (!ok || e.deadline < best) {
			best, ok = e.deadline, true
		}
	}
	return best, ok
}

// ---------------------------------------------------------------------------
// property

func prop(c Case, r *pbt.R) (err error) {
	defExp, interval := defExps[c.DefExp], cleanups[c.Cleanup]
	ch := cache.New[string, string](defExp, interval)
	defer func() {
		ch.VerifStopCleanup()
		synctest.Wait()
	}()
	synctest.Wait() // let the cleanup goroutine create its ticker at the creation instant
	now := func() int64 { return time.Now().UnixNano() }
	m := &model{defExp: defExp, interval: interval, created: now(), lastTick: now(), m: map[string]*entry{}}
	fresh := 0
	ctx := func(i int) string {
		return fmt.Sprintf("cache.New(default=%v, cleanup=%v), ops %v (t=+%v)", defExp, interval, c.Ops[:i+1], time.Duration(now()-m.created))
	}
	value := func(o Op) string {
		if o.Val == 1 {
			return ""
		}
		if o.Val == 2 && o.Kind != opMapToCache {
			// the value this key already holds (live, expired or whatever): storing it again is a store like any other
			// (new deadline, rejected by Set while the entry lives)
			if e, ok := m.m[keys[o.Key]]; ok {
				return e.val
			}
		}
		fresh++
		return fmt.Sprintf("v%d", fresh)
	}

	// store applies an accepted store to the model.
	store := func(k, v string, d time.Duration) {
		if old, ok := m.m[k]; ok && old.state(now()) == expired {
			r.NonTrivialIf(true, "store over an expired key")
		}
		m.m[k] = &entry{val: v, deadline: m.deadlineFor(d, now()), setAt: now()}
	}

	observe := func(i int) error {
		// Count and List against the model (lenient about expired-but-unpurged entries).
		t := now()
		lo, hi := 0, len(m.m)
		for _, e := range m.m {
			if e.state(t) == live {
				lo++
			}
		}
		if n := ch.Count(); n < lo || n > hi {
			return fmt.Errorf("%s: Count() = %d, want between %d (live entries) and %d (stored, possibly expired)", ctx(i), n, lo, hi)
		}
		lst := ch.List()
		for k, it := range lst {
			e, ok := m.m[k]
			if !ok {
				return fmt.Errorf("%s: List() contains key %q which is not stored (deleted, flushed, purged or never set)", ctx(i), k)
			}
			if it == nil || it.Val() != e.val {
				return fmt.Errorf("%s: List()[%q] = %q, want %q", ctx(i), k, it.Val(), e.val)
			}
		}
		for k, e := range m.m {
			if e.state(t) == live {
				if _, ok := lst[k]; !ok {
					return fmt.Errorf("%s: List() lacks the live key %q", ctx(i), k)
				}
			}
		}
		// The listing is the caller's own map: emptying it and putting something else into it does not reach the cache.
		for k := range lst {
			delete(lst, k)
		}
		lst["zz-the-listing-is-mine"] = nil
		if n := ch.Count(); n < lo || n > hi {
			return fmt.Errorf("%s: after the caller emptied the map List() had returned and stored a key of its own in it, Count() = %d, want between %d and %d (the listing shares storage with the cache)", ctx(i), n, lo, hi)
		}
		if _, err := ch.Get("zz-the-listing-is-mine"); err == nil {
			return fmt.Errorf("%s: a key the caller stored in the map List() had returned is served by the cache", ctx(i))
		}
		return nil
	}

	get := func(i int, k string) error {
		t := now()
		it, gerr := ch.Get(k)
		e, ok := m.m[k]
		switch {
		case !ok:
			if gerr == nil || it != nil {
				return fmt.Errorf("%s: Get(%q) = (%q, %v) for a key that is not stored", ctx(i), k, it.Val(), gerr)
			}
		case e.state(t) == live:
			if gerr != nil || it == nil || it.Val() != e.val {
				return fmt.Errorf("%s: Get(%q) = (%q, %v), want the live value %q (deadline in %v)", ctx(i), k, it.Val(), gerr, e.val, time.Duration(e.deadline-t))
			}
			r.NonTrivialIf(e.deadline != 0 && e.deadline-t <= 1, "live 1ns before deadline")
		case e.state(t) == expired:
			if gerr == nil || it != nil {
				return fmt.Errorf("%s: Get(%q) = (%q, %v), want an error: the entry expired %v ago", ctx(i), k, it.Val(), gerr, time.Duration(t-e.deadline))
			}
			r.NonTrivialIf(true, "observation after deadline crossing")
		default: // exactly at the deadline: both answers are allowed
			if gerr == nil && (it == nil || it.Val() != e.val) {
				return fmt.Errorf("%s: Get(%q) = (%q, nil) at the deadline, want %q or an error", ctx(i), k, it.Val(), e.val)
			}
			r.Label("observation exactly at deadline")
		}
		return nil
	}

	isExpired := func(i int, k string) error {
		t := now()
		got := ch.IsExpired(k)
		e, ok := m.m[k]
		switch {
		case !ok:
			if got {
				return fmt.Errorf("%s: IsExpired(%q) = true for a key that is not stored", ctx(i), k)
			}
		case e.state(t) == live:
			if got {
				return fmt.Errorf("%s: IsExpired(%q) = true, but the entry is live (deadline in %v)", ctx(i), k, time.Duration(e.deadline-t))
			}
		case e.state(t) == expired && !e.maybeGone:
			if !got {
				return fmt.Errorf("%s: IsExpired(%q) = false, but the entry expired %v ago and was not purged", ctx(i), k, time.Duration(t-e.deadline))
			}
			r.NonTrivialIf(true, "IsExpired true")
		}
		return nil
	}

	// set performs a Set-like insert-if-absent and checks the outcome.
	set := func(i int, name string, k, v string, d time.Duration, gerr error) error {
		t := now()
		e, ok := m.m[k]
		st := -1
		if ok {
			st = e.state(t)
		}
		switch {
		case v == "":
			if gerr == nil {
				return fmt.Errorf("%s: %s stored/accepted the empty string value without an error", ctx(i), name)
			}
		case ok && st == live:
			if gerr == nil {
				return fmt.Errorf("%s: %s succeeded although key %q has a live entry", ctx(i), name, k)
			}
		case ok && st == atDeadline:
			// either reading of "at the deadline" is allowed: follow the implementation
			if gerr == nil {
				store(k, v, d)
			}
			r.Label("set exactly at deadline")
		default:
			if gerr != nil {
				return fmt.Errorf("%s: %s failed (%v) although key %q has no live entry", ctx(i), name, gerr, k)
			}
			store(k, v, d)
		}
		return nil
	}

	for i, o := range c.Ops {
		switch o.Kind {
		case opSet:
			k, v, d := keys[o.Key], value(o), durVals[o.Dur]
			if err := set(i, "Set", k, v, d, ch.Set(k, v, d)); err != nil {
				return err
			}
		case opSetDefault:
			k, v := keys[o.Key], value(o)
			if err := set(i, "SetDefault", k, v, cache.DefaultExpiration, ch.SetDefault(k, v)); err != nil {
				return err
			}
		case opUpdate:
			k, v, d := keys[o.Key], value(o), durVals[o.Dur]
			gerr := ch.Update(k, v, d)
			if v == "" {
				if gerr == nil {
					return fmt.Errorf("%s: Update accepted the empty string value without an error", ctx(i))
				}
			} else {
				if gerr != nil {
					return fmt.Errorf("%s: Update failed: %v", ctx(i), gerr)
				}
				store(k, v, d)
			}
		case opGet:
			if err := get(i, keys[o.Key]); err != nil {
				return err
			}
		case opIsExpired:
			if err := isExpired(i, keys[o.Key]); err != nil {
				return err
			}
		case opDelete:
			k := keys[o.Key]
			gerr := ch.Delete(k)
			e, ok := m.m[k]
			switch {
			case !ok:
				if gerr == nil {
					return fmt.Errorf("%s: Delete(%q) reported success for a key that is not stored", ctx(i), k)
				}
			case e.state(now()) == live || !e.maybeGone:
				if gerr != nil {
					return fmt.Errorf("%s: Delete(%q) failed for a stored entry: %v", ctx(i), k, gerr)
				}
			}
			delete(m.m, k)
		case opFlush:
			ch.Flush()
			m.m = map[string]*entry{}
		case opDeleteExpired:
			ch.DeleteExpired()
			t := now()
			for k, e := range m.m {
				switch e.state(t) {
				case expired:
					delete(m.m, k)
					r.NonTrivialIf(true, "DeleteExpired purges")
				case atDeadline:
					e.maybeGone = true
				}
			}
		case opCount, opList:
			// checked below after every operation
		case opMapToCache:
			d := durVals[o.Dur]
			in := map[string]string{}
			first := true
			for j, k := range keys {
				if o.Key&(1<<j) == 0 {
					continue
				}
				if first && o.Val == 1 {
					in[k] = ""
				} else {
					fresh++
					in[k] = fmt.Sprintf("v%d", fresh)
				}
				first = false
			}
			// classify every entry before the call
			t := now()
			mustFail, unsure := 0, 0
			for k, v := range in {
				e, ok := m.m[k]
				switch {
				case v == "":
					mustFail++
				case ok && e.state(t) == live:
					mustFail++
				case ok && e.state(t) == atDeadline:
					unsure++
				}
			}
			gerr := ch.MapToCache(in, d)
			if mustFail > 0 && gerr == nil {
				return fmt.Errorf("%s: MapToCache returned nil although %d of its entries cannot be stored (live duplicate or rejected value)", ctx(i), mustFail)
			}
			if mustFail == 0 && unsure == 0 && gerr != nil {
				return fmt.Errorf("%s: MapToCache failed (%v) although every entry can be stored", ctx(i), gerr)
			}
			if unsure > 0 && !(mustFail == 0 && gerr == nil) {
				// Which of the at-deadline keys were overwritten cannot be told from the joined
				// error: give up on this (rare) case rather than guess.
				r.Label("aborted: MapToCache exactly at a deadline")
				return nil
			}
			ks := make([]string, 0, len(in))
			for k := range in {
				ks = append(ks, k)
			}
			sort.Strings(ks)
			for _, k := range ks {
				v := in[k]
				e, ok := m.m[k]
				if v == "" || (ok && e.state(t) == live) {
					continue
				}
				store(k, v, d)
			}
		case opAdvance:
			t := now()
			var d int64
			switch o.Arg {
			case advBefore, advAt, advAfter:
				dl, ok := m.nextDeadline(t)
				if !ok || dl-t > int64(time.Second) {
					// nothing pending in the near future (a 1h entry is never waited for:
					// crossing it would mean 180000 cleanup ticks per case)
					d = int64(3 * time.Millisecond)
				} else {
					d = dl - t + int64(o.Arg-advAt)
				}
			case advTick:
				if interval > 0 {
					d = m.lastTick + int64(interval) - t
				} else {
					d = int64(20 * time.Millisecond)
				}
			case advMilli:
				d = int64(time.Millisecond)
			case advLong:
				d = int64(200 * time.Millisecond)
			}
			if d > 0 {
				time.Sleep(time.Duration(d))
				synctest.Wait() // the cleanup goroutine finishes its tick
				m.ticksUntil(now(), r)
			}
		}
		if err := observe(i); err != nil {
			return err
		}
	}

	// Final observation: every key now, then after a long quiet period.
	last := len(c.Ops) - 1
	for _, k := range keys {
		if err := get(last, k); err != nil {
			return fmt.Errorf("final: %w", err)
		}
		if err := isExpired(last, k); err != nil {
			return fmt.Errorf("final: %w", err)
		}
	}
	time.Sleep(200*time.Millisecond + 1)
	synctest.Wait()
	m.ticksUntil(now(), r)
	for _, k := range keys {
		if err := get(last, k); err != nil {
			return fmt.Errorf("after a final 200ms: %w", err)
		}
		if err := isExpired(last, k); err != nil {
			return fmt.Errorf("after a final 200ms: %w", err)
		}
	}
	if err := observe(last); err != nil {
		return fmt.Errorf("after a final 200ms: %w", err)
	}
	if interval > 0 {
		// everything with a deadline <= +60ms has seen many ticks: only entries that are
		// still live may be counted.
		t := now()
		liveN := 0
		for _, e := range m.m {
			if e.state(t) == live {
				liveN++
			}
		}
		// (an entry whose deadline coincides with the final instant or the last tick is
		// still undecided; the exact count is only asserted when none is)
		if len(m.m) == liveN {
			if n := ch.Count(); n != liveN {
				return fmt.Errorf("after a final 200ms with cleanup every %v: Count() = %d, want %d (only live entries remain); %s", interval, n, liveN, ctx(last))
			}
			r.Label("final cleanup verified")
		}
	}
	return nil
}

// ---------------------------------------------------------------------------
// volume: state that accumulates over many stores on one cache

type VolumeCase struct {
	Keys int `json:"keys"`
	Mix  int `json:"mix"` // 0: all entries live one hour, 1: every third never expires, 2: every third is stored with 1ms and has expired
}

func volumeProp(c VolumeCase, r *pbt.R) error {
	n := c.Keys
	if n < 1 || n > 20000 {
		return nil
	}
	mix := ((c.Mix % 3) + 3) % 3
	ch := cache.New[string, int](cache.NoExpiration, 0)
	short := func(k int) bool { return mix == 2 && k%3 == 0 }
	for k := 0; k < n; k++ {
		d := time.Hour
		switch {
		case mix == 1 && k%3 == 0:
			d = cache.NoExpiration
		case short(k):
			d = time.Millisecond
		}
		if err := ch.Set(fmt.Sprintf("key-%d", k), k+1, d); err != nil {
			return fmt.Errorf("cache with %d keys (mix %d): Set(key-%d) failed: %v", n, mix, k, err)
		}
		if k%4 == 0 {
			time.Sleep(100 * time.Nanosecond) // the stores happen at increasing (virtual) instants, so the deadlines differ
		}
	}
	time.Sleep(2 * time.Millisecond) // virtual: the 1ms entries are past their deadline, everything else is live
	lost, ghosts := 0, 0
	for k := 0; k < n; k++ {
		it, err := ch.Get(fmt.Sprintf("key-%d", k))
		if short(k) {
			if err == nil {
				ghosts++
			}
			continue
		}
		if err != nil || it.Val() != k+1 {
			lost++
		}
	}
	if lost > 0 || ghosts > 0 {
		return fmt.Errorf("cache with %d keys stored one after the other (mix %d), read back 2ms later: %d live entries are missing or wrong, %d expired entries are still served", n, mix, lost, ghosts)
	}
	if cnt := ch.Count(); cnt > n || (mix != 2 && cnt != n) {
		return fmt.Errorf("cache with %d keys (mix %d): Count() = %d", n, mix, cnt)
	}
	if err := ch.DeleteExpired(); err != nil {
		return fmt.Errorf("cache with %d keys (mix %d): DeleteExpired failed: %v", n, mix, err)
	}
	want := n
	if mix == 2 {
		want = n - (n+2)/3
	}
	if cnt := ch.Count(); cnt != want {
		return fmt.Errorf("cache with %d keys (mix %d): Count() = %d after DeleteExpired, want %d (only the expired entries are removed)", n, mix, cnt, want)
	}
	r.NonTrivialIf(n >= 1000, ">= 1000 keys")
	return nil
}

// ---------------------------------------------------------------------------
// a cache whose value type is an interface: the empty STRING is rejected whatever the static value type is

// AnyCase: Ops are (kind, value code): kind 0 Set, 1 Update, 2 MapToCache of {key, "m"}; value codes: 0 "" (rejected),
// 1 "x", 2 the integer 0, 3 nil, 4 the empty []byte (not a string: accepted).
type AnyCase struct {
	Ops [][2]int `json:"ops"`
}

func anyProp(c AnyCase, r *pbt.R) error {
	if len(c.Ops) > 64 {
		return nil
	}
	vals := []any{"", "x", 0, nil, []byte{}}
	names := []string{`""`, `"x"`, "0", "nil", "[]byte{}"}
	ch := cache.New[string, any](cache.NoExpiration, 0)
	stored := map[string]int{} // key -> value code
	rejected := false
	for i, op := range c.Ops {
		kind, vc := ((op[0]%3)+3)%3, ((op[1]%5)+5)%5
		key := fmt.Sprintf("k%d", i%2)
		ctx := fmt.Sprintf("cache.New[string, any], ops %v (kind 0 Set / 1 Update / 2 MapToCache; values %v), at op %d", c.Ops[:i+1], names, i)
		var err error
		switch kind {
		case 0:
			err = ch.Set(key, vals[vc], cache.NoExpiration)
			_, exists := stored[key]
			switch {
			case vc == 0:
				rejected = true
				if err == nil {
					return fmt.Errorf("%s: Set accepted the empty string without an error", ctx)
				}
			case exists:
				if err == nil {
					return fmt.Errorf("%s: Set succeeded although the key has a live entry", ctx)
				}
			default:
				if err != nil {
					return fmt.Errorf("%s: Set(%s) failed: %v", ctx, names[vc], err)
				}
				stored[key] = vc
			}
		case 1:
			err = ch.Update(key, vals[vc], cache.NoExpiration)
			if vc == 0 {
				rejected = true
				if err == nil {
					return fmt.Errorf("%s: Update accepted the empty string without an error", ctx)
				}
			} else {
				if err != nil {
					return fmt.Errorf("%s: Update(%s) failed: %v", ctx, names[vc], err)
				}
				stored[key] = vc
			}
		default:
			_, exists := stored[key]
			_, mexists := stored["m"]
			err = ch.MapToCache(map[string]any{key: vals[vc], "m": 1}, cache.NoExpiration)
			wantErr := vc == 0 || exists || mexists
			if wantErr != (err != nil) {
				return fmt.Errorf("%s: MapToCache({%s: %s, m: 1}) returned %v, want an error: %v (rejected value or existing key)", ctx, key, names[vc], err, wantErr)
			}
			if vc == 0 {
				rejected = true
			}
			if vc != 0 && !exists {
				stored[key] = vc
			}
			if !mexists {
				stored["m"] = -1
			}
		}
		if n := ch.Count(); n != len(stored) {
			return fmt.Errorf("%s: Count() = %d, want %d (a rejected value stores nothing and removes nothing)", ctx, n, len(stored))
		}
		for k, code := range stored {
			it, gerr := ch.Get(k)
			if gerr != nil || it == nil {
				return fmt.Errorf("%s: Get(%s) failed: %v", ctx, k, gerr)
			}
			if code >= 0 && code != 4 && it.Val() != vals[code] {
				return fmt.Errorf("%s: Get(%s) = %v, want %s", ctx, k, it.Val(), names[code])
			}
		}
	}
	r.NonTrivialIf(rejected, "an empty string was offered")
	return nil
}

// ---------------------------------------------------------------------------
// longlife: ONE cache through several bursts of short-lived entries and sweeps; the entries without a deadline stay

// LongLifeCase: Def indexes longDefs (the default lifetime), Bursts times: Burst entries with a 1ms lifetime are stored, the
// clock moves 2ms on, the expired ones are swept (explicitly, or by the cleanup goroutine when Cleanup is set). Four
// residents are stored first, one in each way an entry can be without a near deadline.
type LongLifeCase struct {
	Def     int  `json:"def"`
	Bursts  int  `json:"bursts"`
	Burst   int  `json:"burst"`
	Cleanup bool `json:"cleanup"`
}

var longDefs = []time.Duration{0, cache.NoExpiration, -time.Second, time.Hour}

func longLifeProp(c LongLifeCase, r *pbt.R) error {
	def := longDefs[((c.Def%len(longDefs))+len(longDefs))%len(longDefs)]
	bursts, burst := 1+((c.Bursts-1)%8+8)%8, 1+((c.Burst-1)%6000+6000)%6000
	interval := time.Duration(0)
	if c.Cleanup {
		interval = 20 * time.Millisecond
	}
	ch := cache.New[string, int](def, interval)
	if c.Cleanup {
		defer func() {
			ch.VerifStopCleanup()
			synctest.Wait()
		}()
		synctest.Wait()
	}
	ch.SetDefault("res-default", 1)
	ch.Set("res-none", 2, cache.NoExpiration)
	ch.Set("res-hour", 3, time.Hour)
	ch.Set("res-huge", 4, time.Duration(math.MaxInt64))
	residents := map[string]int{"res-default": 1, "res-none": 2, "res-hour": 3, "res-huge": 4}
	removed := 0
	for b := 0; b < bursts; b++ {
		for k := 0; k < burst; k++ {
			if err := ch.Set(fmt.Sprintf("b%d-%d", b, k), k, time.Millisecond); err != nil {
				return fmt.Errorf("cache.New(default %d ns, cleanup %v): Set of a fresh key in burst %d failed: %v", int64(def), interval, b, err)
			}
		}
		time.Sleep(2 * time.Millisecond)
		if c.Cleanup {
			time.Sleep(40 * time.Millisecond)
			synctest.Wait()
		} else {
			ch.DeleteExpired()
		}
		removed += burst
		ctx := fmt.Sprintf("one cache.New(default %d ns, cleanup %v) after %d bursts of %d entries with a 1ms lifetime, each burst followed by a sweep 2ms later (%d entries removed so far)", int64(def), interval, b+1, burst, removed)
		if got := ch.Count(); got != len(residents) {
			return fmt.Errorf("%s: Count() = %d, want the %d residents (stored by SetDefault, with NoExpiration, for one hour, for the largest Duration)", ctx, got, len(residents))
		}
		for k, v := range residents {
			if it, err := ch.Get(k); err != nil || it.Val() != v {
				return fmt.Errorf("%s: Get(%q) = (%v, %v), want the value %d: the entry has no deadline within the case", ctx, k, it, err, v)
			}
		}
	}
	r.NonTrivialIf(removed >= 4096, ">= 4096 entries removed from the one cache")
	return nil
}

func TestProp(t *testing.T) {
	pbt.Run(t, "C08",
		&pbt.Check[Case]{
			Name: "cache",
			Rule: "call sequences on cache.New[string,string](default in {-1,0,50ms}; random cases also -1s and the most negative Duration, which mean never-expires too; cleanup in {0,20ms}) inside a synctest bubble (virtual clock) against a map-with-deadlines model; " +
				"operations Set/SetDefault/Update (fresh or rejected empty value; duration default/10ms/none/1h, random cases also the largest Duration, whose deadline is not representable), Get, Delete, Flush, DeleteExpired, Count, List, MapToCache, IsExpired and " +
				"Advance to {next deadline-1ns, deadline, deadline+1ns, next cleanup tick, 1ms, 200ms}; Count/List are checked after every step, every key is read at the end and after a final 200ms. " +
				"Enumerated: every sequence up to length 3 (thorough 4) over a 50-operation alphabet (2 keys: a and the empty string, which is a key like any other; bulk loads of the empty key alone and of both keys) for all 6 configurations; random: up to 30 (60) operations over 3 keys. " +
				"Non-trivial = an observation separated from its store by a deadline crossing, a store over an expired key, a DeleteExpired that purges, a cleanup tick with both expired and live entries, or IsExpired answering true. " +
				"Lenient where the statement is open: exactly at the deadline either answer; Count/List may include expired-but-unpurged entries; cleanup must have removed an entry after two ticks past its deadline.",
			Enum: enum, Gen: gen, Prop: prop, OutOfEnum: outOfEnum,
			RapidQuick: 1500, RapidThorough: 20000,
			Bubble: true,
			Fixed: []Case{
				// an entry stored for the largest Duration is live, is not reported expired and survives DeleteExpired and cleanup
				{DefExp: 0, Cleanup: 1, Ops: []Op{{Kind: opSet, Key: 0, Dur: durHuge}, {Kind: opIsExpired, Key: 0}, {Kind: opDeleteExpired}, {Kind: opGet, Key: 0}, {Kind: opAdvance, Arg: advLong}, {Kind: opSet, Key: 0, Dur: durShort}}},
				{DefExp: 2, Cleanup: 0, Ops: []Op{{Kind: opUpdate, Key: 1, Dur: durHuge}, {Kind: opAdvance, Arg: advTick}, {Kind: opDeleteExpired}, {Kind: opCount}, {Kind: opMapToCache, Key: 3, Dur: durHuge}}},
			},
		},
		&pbt.Check[VolumeCase]{
			Name:  "volume",
			Rule:  "one cache, N keys stored one after the other (all for one hour / every third without expiry / every third with 1ms), read back 2ms later in virtual time: every live entry is served with its value, no expired one is, Count agrees, DeleteExpired removes exactly the expired ones. N in {1, 100, 1023, 1024, 1025, 3000} x 3 mixes (thorough also 10000). Non-trivial = N >= 1000.",
			Fixed: []VolumeCase{{1, 0}, {100, 2}, {1023, 0}, {1024, 0}, {1025, 1}, {3000, 0}, {3000, 2}, {1024, 2}},
			Gen: func(s pbt.Src, thorough bool) VolumeCase {
				if thorough {
					return VolumeCase{Keys: pbt.Pick(s, 513, 2049, 4097, 10000), Mix: s.Intn(3)}
				}
				return VolumeCase{Keys: pbt.Pick(s, 513, 2049), Mix: s.Intn(3)}
			},
			Prop: volumeProp, OutOfEnum: func(VolumeCase, bool) bool { return true },
			RapidQuick: 2, RapidThorough: 6, Bubble: true,
		},
		&pbt.Check[LongLifeCase]{
			Name: "longlife",
			Rule: "ONE cache (default lifetime 0, NoExpiration, -1s or 1h; without or with a cleanup goroutine every 20ms) holds four residents without a near deadline (stored by SetDefault, with NoExpiration, for one hour, for the largest Duration) and goes through 1..8 bursts of up to 6000 entries with a 1ms lifetime, each followed 2ms later by a sweep (DeleteExpired, or two cleanup ticks): after every sweep Count is 4 and every resident is served. Fixed: 3 x 2000 and 5 x 1000 on every default, both ways of sweeping. Non-trivial = at least 4096 entries removed.",
			Gen: func(s pbt.Src, _ bool) LongLifeCase {
				return LongLifeCase{Def: s.Intn(len(longDefs)), Bursts: 1 + s.Intn(8), Burst: pbt.Pick(s, 100, 1100, 2100, 4200), Cleanup: pbt.Bool(s)}
			},
			Prop: longLifeProp, OutOfEnum: func(LongLifeCase, bool) bool { return true },
			Fixed:      []LongLifeCase{{0, 3, 2000, false}, {0, 3, 2000, true}, {1, 3, 2000, false}, {2, 5, 1000, true}, {3, 5, 1000, false}, {0, 5, 1000, true}, {2, 3, 2000, false}, {3, 3, 2000, true}},
			RapidQuick: 2, RapidThorough: 30, Bubble: true,
		},
		&pbt.Check[AnyCase]{
			Name: "anyvalues",
			Rule: "cache.New[string, any]: Set / Update / MapToCache with the values \"\" (the rejected empty string, here behind an interface), \"x\", 0, nil and an empty []byte on two keys: the empty string is reported as an error and stores nothing, everything else is stored; Count and Get of every stored key after every operation. " +
				"Enumerated: every sequence of up to 3 (thorough 4) operations over 3 kinds x 5 values; random: up to 12. Non-trivial = an empty string was offered.",
			Enum: func(s pbt.Src, thorough bool) AnyCase {
				n := 3
				if thorough {
					n = 4
				}
				return AnyCase{Ops: pbt.Seq(s, 1, n, func(s pbt.Src) [2]int { return [2]int{s.Intn(3), s.Intn(5)} })}
			},
			Gen: func(s pbt.Src, _ bool) AnyCase {
				return AnyCase{Ops: pbt.Seq(s, 1, 12, func(s pbt.Src) [2]int { return [2]int{s.Intn(3), s.Intn(5)} })}
			},
			Prop:       anyProp,
			OutOfEnum:  func(c AnyCase, th bool) bool { return len(c.Ops) > 4 },
			RapidQuick: 100, RapidThorough: 2000,
		},
	)
}
