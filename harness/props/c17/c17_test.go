// C17: Memoize runs one computation per key at a time and serves the cached value.
//
// Sub-check "timeline": generated call timelines executed in virtual time
// (testing/synctest): every caller is a goroutine that starts at a generated
// instant; the supplied function sleeps for a generated latency and returns a
// fresh value or an error. All comparisons are on exact virtual instants.
//
// Sub-check "free": the same API hammered by real goroutines under the real
// scheduler (no bubble), with an atomic in-flight counter per key.
package c17

import (
	"errors"
	"fmt"
	"math"
	"runtime"
	"sort"
	"sync"
	"sync/atomic"
	"testing"
	"testing/synctest"
	"time"

	"github.com/esimov/gogu"
	"github.com/esimov/gogu/cache"
	"verif/pbt"
)

// mkey is the key type of the timeline and free-running sub-checks: a string type whose String method answers the same
// text for every key. A key is its underlying string; whatever the type prints as must not matter.
type mkey string

func (mkey) String() string { return "[key]" }

// the second key is the empty string: a key like any other
var keyNames = []mkey{"k0", "", "k2"}

// latencies of the supplied function: odd milliseconds, so that an execution that
// starts on the (even) call grid never ends on it; 0 is the degenerate case.
// The fourth one (random cases only) is longer than the memoizer's finite expiry (40ms).
var latencies = []time.Duration{0, 3 * time.Millisecond, 21 * time.Millisecond, 61 * time.Millisecond}

// gaps between the start of consecutive calls (even milliseconds)
var gapsSmall = []time.Duration{0, 2 * time.Millisecond, 10 * time.Millisecond, 50 * time.Millisecond}

// memoizer expiry: none, or 40ms (even, so that with odd latencies the expiry instant is off the call grid)
var expiries = []time.Duration{cache.NoExpiration, 40 * time.Millisecond}

// Call is one caller: it starts Gap after the previous caller's start and calls
// Memoize(Key, fn) where fn takes latencies[Lat] and fails iff Fail.
type Call struct {
	Key  int  `json:"key"`
	Gap  int  `json:"gap_ms"` // milliseconds after the previous call's start (even)
	Lat  int  `json:"lat"`
	Fail bool `json:"fail"`
	// Partial (only with Fail): the function returns a non-nil item TOGETHER with its error (a partial result).
	// The call still failed: the error goes to the callers and nothing is cached.
	Partial bool `json:"partial,omitempty"`
	// Inst (random cases only): which of three memoizers of the case is called. Memoizers are independent objects: the same
	// key on another memoizer is another key (its own function, its own cache, nothing to wait for).
	Inst int `json:"inst,omitempty"`
}

// kname names a logical key (memoizer*3 + key).
func kname(lk int) string {
	if lk < 3 {
		return fmt.Sprintf("%q", string(keyNames[lk]))
	}
	return fmt.Sprintf("%q on memoizer #%d", string(keyNames[lk%3]), lk/3)
}

type Case struct {
	Expiry int    `json:"expiry"`
	Calls  []Call `json:"calls"`
}

func (c Case) String() string {
	s := fmt.Sprintf("expiry=%v", expiries[c.Expiry])
	at := 0
	for i, cl := range c.Calls {
		at += cl.Gap
		out := "ok"
		if cl.Fail {
			out = "err"
			if cl.Partial {
				out = "item+err"
			}
		}
		s += fmt.Sprintf(" [#%d @%dms %s fn:%v/%s]", i, at, kname(cl.Inst*3+cl.Key), latencies[cl.Lat], out)
	}
	return s
}

func enumMax(thorough bool) int {
	if thorough {
		return 4
	}
	return 3
}

func enum(s pbt.Src, thorough bool) Case {
	c := Case{Expiry: s.Intn(2)}
	c.Calls = pbt.Seq(s, 1, enumMax(thorough), func(s pbt.Src) Call {
		i := s.Intn(2 * 4 * 3 * 3)
		return Call{Key: i % 2, Gap: int(gapsSmall[(i/2)%4] / time.Millisecond), Lat: (i / 8) % 3, Fail: i/24 >= 1, Partial: i/24 == 2}
	})
	return c
}

func gen(s pbt.Src, thorough bool) Case {
	c := Case{Expiry: s.Intn(2)}
	nk := 1 + s.Intn(3)
	ninst := pbt.Pick(s, 1, 1, 1, 2, 3)
	c.Calls = pbt.Seq(s, 1, 16, func(s pbt.Src) Call {
		gap := 0
		switch s.Intn(4) {
		case 0:
			gap = 0
		case 1:
			gap = 2
		case 2:
			gap = 2 * (1 + s.Intn(12))
		case 3:
			gap = 2 * (10 + s.Intn(25))
		}
		cl := Call{Key: s.Intn(nk), Gap: gap, Lat: s.Intn(4), Fail: s.Intn(4) == 0, Inst: s.Intn(ninst)}
		if cl.Fail {
			cl.Partial = s.Intn(3) == 0
		}
		return cl
	})
	return c
}

func outOfEnum(c Case, thorough bool) bool {
	if len(c.Calls) > enumMax(thorough) {
		return true
	}
	for _, cl := range c.Calls {
		ok := false
		for _, g := range gapsSmall {
			if time.Duration(cl.Gap)*time.Millisecond == g {
				ok = true
			}
		}
		if !ok || cl.Key > 1 || cl.Inst != 0 {
			return true
		}
	}
	return false
}

// mkItem builds a *cache.Item (it has no constructor) through an auxiliary cache.
func mkItem(v int) *cache.Item[int] {
	aux := cache.New[string, int](cache.NoExpiration, 0)
	aux.Set("x", v, cache.NoExpiration)
	it, _ := aux.Get("x")
	return it
}

type execRec struct {
	key        int
	start, end time.Duration
	ok         bool
	val        int
	err        error
	by         int // index of the call whose closure ran
}

type callRec struct {
	key        int
	start, end time.Duration
	val        int
	nilItem    bool
	err        error
	ran        bool             // its own closure was executed
	item       *cache.Item[int] // what Memoize handed out (kept and read again at the end of the case)
}

func prop(c Case, r *pbt.R) error {
	exp := expiries[c.Expiry]
	var ms [3]*gogu.Memoizer[mkey, int]
	for i := range ms {
		ms[i] = gogu.NewMemoizer[mkey, int](exp, 0)
	}
	t0 := time.Now()
	since := func() time.Duration { return time.Since(t0) }

	var mu sync.Mutex
	var execs []execRec
	calls := make([]callRec, len(c.Calls))
	var inflight [9]atomic.Int32
	var overlap atomic.Int32
	nextVal := 0

	var wg sync.WaitGroup
	at := time.Duration(0)
	for i, cl := range c.Calls {
		at += time.Duration(cl.Gap) * time.Millisecond
		i, cl, startAt := i, cl, at
		if cl.Inst < 0 || cl.Inst > 2 || cl.Key < 0 || cl.Key > 2 {
			return fmt.Errorf("harness: call outside the tables: %+v", cl)
		}
		lk := cl.Inst*3 + cl.Key
		wg.Add(1)
		go func() {
			defer wg.Done()
			time.Sleep(startAt)
			rec := callRec{key: lk, start: since()}
			fn := func() (*cache.Item[int], error) {
				if inflight[lk].Add(1) > 1 {
					overlap.Add(1)
				}
				mu.Lock()
				nextVal++
				v := 1000 + nextVal
				idx := len(execs)
				execs = append(execs, execRec{key: lk, start: since(), by: i, val: v})
				mu.Unlock()
				rec.ran = true
				if d := latencies[cl.Lat]; d > 0 {
					time.Sleep(d)
				}
				var it *cache.Item[int]
				var err error
				if cl.Fail {
					err = fmt.Errorf("fn error #%d", v)
					if cl.Partial {
						it = mkItem(v)
					}
				} else {
					it = mkItem(v)
				}
				mu.Lock()
				execs[idx].end = since()
				execs[idx].ok = !cl.Fail
				execs[idx].err = err
				mu.Unlock()
				inflight[lk].Add(-1)
				return it, err
			}
			it, err := ms[cl.Inst].Memoize(keyNames[cl.Key], fn)
			rec.end = since()
			rec.err = err
			rec.nilItem = it == nil
			if it != nil {
				rec.val = it.Val()
				rec.item = it
			}
			calls[i] = rec
		}()
	}
	wg.Wait()

	// Epilogue: what a caller received stays what it was. Let every finite entry expire, purge, memoize another key (so
	// that the cache stores again) and read every item handed out earlier once more.
	time.Sleep(200 * time.Millisecond)
	for _, m := range ms {
		m.Cache.DeleteExpired()
		if _, err := m.Memoize("another-key", func() (*cache.Item[int], error) { return mkItem(424242), nil }); err != nil {
			return fmt.Errorf("%v: Memoize of a fresh key after the timeline failed: %v", c, err)
		}
	}
	for i, cr := range calls {
		if cr.item != nil && cr.err == nil && cr.item.Val() != cr.val {
			return fmt.Errorf("%v: call #%d (%s) received the value %d; after the entries expired, were purged and another key was memoized, the item it holds reads %d", c, i, kname(cr.key), cr.val, cr.item.Val())
		}
	}

	if overlap.Load() > 0 {
		return fmt.Errorf("%v: two executions of the function for one key were in progress at the same time", c)
	}
	desc := func(i int) string {
		cr := calls[i]
		res := fmt.Sprintf("value %d", cr.val)
		if cr.err != nil {
			res = fmt.Sprintf("error %q", cr.err)
		}
		return fmt.Sprintf("call #%d (%s, started %v, returned %v with %s)", i, kname(cr.key), cr.start, cr.end, res)
	}
	execsStr := func() string {
		s := ""
		for j, e := range execs {
			out := fmt.Sprintf("value %d", e.val)
			if !e.ok {
				out = "error"
			}
			s += fmt.Sprintf(" {exec %d %s %v..%v %s by call #%d}", j, kname(e.key), e.start, e.end, out, e.by)
		}
		return s
	}
	sameOutcome := func(cr callRec, e execRec) bool {
		if e.ok {
			return cr.err == nil && !cr.nilItem && cr.val == e.val
		}
		return cr.err != nil && errors.Is(cr.err, e.err)
	}
	// Which successful executions really were cached? Memoize stores a result only when
	// no live value is cached at that moment, so the result of an execution that was
	// started by a caller who missed the cache at the very instant another execution
	// completed is returned to its callers but never cached.
	const (
		stCached = iota + 1
		stMaybe
		stNot
	)
	status := make([]int, len(execs))
	order := make([]int, 0, len(execs))
	for j := range execs {
		order = append(order, j)
	}
	sort.SliceStable(order, func(a, b int) bool { return execs[order[a]].end < execs[order[b]].end })
	for _, j := range order {
		e := execs[j]
		if !e.ok {
			status[j] = stNot
			continue
		}
		def, may := false, false
		for _, p := range order {
			q := execs[p]
			if p == j || q.key != e.key || !q.ok || status[p] == stNot {
				continue
			}
			if q.end == e.end && p != j {
				may = true // completed at the same instant: either may have been stored first
				continue
			}
			if status[p] == 0 {
				continue // completes later
			}
			strict := q.end < e.end && (exp <= 0 || e.end < q.end+exp)
			incl := q.end <= e.end && (exp <= 0 || e.end <= q.end+exp)
			if strict && status[p] == stCached {
				def = true
			} else if incl {
				may = true
			}
		}
		switch {
		case def:
			status[j] = stNot
		case may:
			status[j] = stMaybe
		default:
			status[j] = stCached
		}
	}
	// cachedAt: executions whose value is certainly cached and live at instant s (strictly inside its lifetime).
	cachedAt := func(key int, s time.Duration) []execRec {
		var out []execRec
		for j, e := range execs {
			if e.key == key && status[j] == stCached && e.end < s && (exp <= 0 || s < e.end+exp) {
				out = append(out, e)
			}
		}
		return out
	}
	// mayBeCachedAt: executions whose value may be cached and live at instant s (boundaries included).
	mayBeCachedAt := func(key int, s time.Duration) []execRec {
		var out []execRec
		for j, e := range execs {
			if e.key == key && (status[j] == stCached || status[j] == stMaybe) && e.end <= s && (exp <= 0 || s <= e.end+exp) {
				out = append(out, e)
			}
		}
		return out
	}

	// executions: each is needed and is triggered by a call that starts at that instant
	for j, e := range execs {
		if cs := cachedAt(e.key, e.start); len(cs) > 0 {
			return fmt.Errorf("%v: execution %d for %s started at %v although the value %d (completed %v) was cached and not expired; executions:%s",
				c, j, kname(e.key), e.start, cs[0].val, cs[0].end, execsStr())
		}
		found := false
		for _, cr := range calls {
			if cr.key == e.key && cr.start == e.start {
				found = true
			}
		}
		if !found {
			return fmt.Errorf("%v: execution %d for %s started at %v, when no call for that key started; executions:%s", c, j, kname(e.key), e.start, execsStr())
		}
	}

	joined, hits, afterErr, afterExpiry := 0, 0, 0, 0
	for i, cr := range calls {
		// (b) provenance
		if cr.err == nil {
			if cr.nilItem {
				return fmt.Errorf("%v: %s returned a nil item without an error", c, desc(i))
			}
			ok := false
			for _, e := range execs {
				if e.ok && e.val == cr.val {
					if e.key != cr.key {
						return fmt.Errorf("%v: %s received a value computed for %s; executions:%s", c, desc(i), kname(e.key), execsStr())
					}
					if e.start <= cr.end {
						ok = true
					}
				}
			}
			if !ok {
				return fmt.Errorf("%v: %s received a value no execution had produced by then; executions:%s", c, desc(i), execsStr())
			}
		} else {
			ok := false
			for _, e := range execs {
				if !e.ok && e.key == cr.key && errors.Is(cr.err, e.err) && e.start <= cr.end && e.end >= cr.start {
					ok = true
				}
			}
			if !ok {
				return fmt.Errorf("%v: %s received an error that no overlapping execution for its key produced (errors must not be cached); executions:%s", c, desc(i), execsStr())
			}
		}

		var inside []execRec
		boundary := false
		for _, e := range execs {
			if e.key != cr.key {
				continue
			}
			if e.start < cr.start && cr.start < e.end {
				inside = append(inside, e)
			}
			if e.end == cr.start || (exp > 0 && e.ok && e.end+exp == cr.start) {
				boundary = true
			}
		}
		cached := cachedAt(cr.key, cr.start)
		maybe := mayBeCachedAt(cr.key, cr.start)
		hitOK := func() bool {
			for _, e := range maybe {
				if sameOutcome(cr, e) && cr.end == cr.start && !cr.ran {
					return true
				}
			}
			return false
		}
		joinOK := func() bool {
			e := inside[0]
			return sameOutcome(cr, e) && cr.end == e.end && !cr.ran
		}
		switch {
		case len(maybe) > 0 && len(inside) > 0:
			// A value is (or may be) cached AND an execution is running (it was started by a
			// caller that missed the cache at the very instant the first execution
			// completed): serving the cached value and joining are both within the statement.
			if !hitOK() && !joinOK() {
				return fmt.Errorf("%v: %s started while value %d was cached and another execution was running: it must return the cached value at once or that execution's outcome, without invoking the function (own function ran: %v); executions:%s",
					c, desc(i), maybe[0].val, cr.ran, execsStr())
			}
			r.Label("cached value and running execution at once")
		case len(inside) > 0:
			// (c) joined a running execution
			e := inside[0]
			if !joinOK() {
				return fmt.Errorf("%v: %s started while an execution for its key was running (%v..%v): it must wait for it, return its outcome and not invoke the function (own function ran: %v); executions:%s",
					c, desc(i), e.start, e.end, cr.ran, execsStr())
			}
			joined++
		case len(cached) > 0:
			// (d) served from the cache
			if !hitOK() {
				return fmt.Errorf("%v: %s started after value %d was cached (completed %v) and before its expiry: it must return it at once without invoking the function (own function ran: %v); executions:%s",
					c, desc(i), cached[0].val, cached[0].end, cr.ran, execsStr())
			}
			hits++
		case len(maybe) > 0:
			r.Label("call while a value may or may not be cached (only provenance asserted)")
		case !boundary:
			// (e) nothing cached, nothing running: the call runs the function now (or shares
			// an execution started at this very instant by a concurrent caller)
			ok := false
			for _, e := range execs {
				if e.key == cr.key && e.start == cr.start && sameOutcome(cr, e) && cr.end == e.end {
					ok = true
				}
			}
			if !ok {
				return fmt.Errorf("%v: %s started with nothing cached and nothing running for its key, but its result does not come from an execution started at that instant; executions:%s", c, desc(i), execsStr())
			}
			for _, e := range execs {
				if e.key == cr.key && !e.ok && e.end < cr.start {
					afterErr++
					break
				}
			}
			if exp > 0 {
				for _, e := range execs {
					if e.key == cr.key && e.ok && e.end+exp < cr.start {
						afterExpiry++
						break
					}
				}
			}
		default:
			r.Label("call exactly at an execution end / expiry instant (only provenance asserted)")
		}
	}
	// after completion the cache holds, for every key, nothing or a produced value of that key
	for k := 0; k < 9; k++ {
		if it, err := ms[k/3].Cache.Get(keyNames[k%3]); err == nil && it != nil {
			ok := false
			for _, e := range execs {
				if e.key == k && e.ok && e.val == it.Val() {
					ok = true
				}
			}
			if !ok {
				return fmt.Errorf("%v: the cache holds %d for %s, which no execution for that key produced; executions:%s", c, it.Val(), kname(k), execsStr())
			}
		}
	}
	r.NonTrivialIf(joined > 0, "call joined a running execution")
	r.NonTrivialIf(afterErr > 0, "call after a failed execution")
	r.NonTrivialIf(afterExpiry > 0, "call after expiry")
	if hits > 0 {
		r.Label("cache hit")
	}
	if joined >= 2 {
		r.Label(">= 2 joiners")
	}
	return nil
}

// ---------------------------------------------------------------------------
// free-running sub-check (real scheduler)

type FreeCase struct {
	Keys    int  `json:"keys"`
	Callers int  `json:"callers"`
	Rounds  int  `json:"rounds"`
	Yield   int  `json:"yield"` // Gosched calls inside the function
	Fail    bool `json:"fail_first"`
	Procs   int  `json:"gomaxprocs"`
}

func genFree(s pbt.Src, thorough bool) FreeCase {
	return FreeCase{Keys: 1 + s.Intn(3), Callers: 1 + s.Intn(16), Rounds: 1 + s.Intn(4), Yield: s.Intn(4), Fail: pbt.Bool(s),
		Procs: pbt.Pick(s, 1, 2, 4, 16)}
}

func propFree(c FreeCase, r *pbt.R) error {
	old := runtime.GOMAXPROCS(c.Procs)
	defer runtime.GOMAXPROCS(old)
	m := gogu.NewMemoizer[mkey, int](cache.NoExpiration, 0)
	var inflight [3]atomic.Int32
	var overlap, execCount [3]atomic.Int32
	var nextVal atomic.Int32
	var produced sync.Map // value -> key
	type res struct {
		key int
		val int
		err error
		nil bool
	}
	for round := 0; round < c.Rounds; round++ {
		results := make([]res, c.Callers)
		start := make(chan struct{})
		var wg sync.WaitGroup
		// a key has a settled value once a successful execution completed in an EARLIER round
		settled := [3]int{}
		for k := 0; k < c.Keys; k++ {
			if it, err := m.Cache.Get(keyNames[k]); err == nil && it != nil {
				settled[k] = it.Val()
			}
		}
		before := [3]int32{execCount[0].Load(), execCount[1].Load(), execCount[2].Load()}
		for g := 0; g < c.Callers; g++ {
			g := g
			k := g % c.Keys
			wg.Add(1)
			go func() {
				defer wg.Done()
				<-start
				it, err := m.Memoize(keyNames[k], func() (*cache.Item[int], error) {
					if inflight[k].Add(1) > 1 {
						overlap[k].Add(1)
					}
					n := execCount[k].Add(1)
					for y := 0; y < c.Yield; y++ {
						runtime.Gosched()
					}
					defer inflight[k].Add(-1)
					if c.Fail && n == 1 {
						return nil, fmt.Errorf("first execution fails")
					}
					v := int(nextVal.Add(1)) + 5000
					produced.Store(v, k)
					return mkItem(v), nil
				})
				rs := res{key: k, err: err, nil: it == nil}
				if it != nil {
					rs.val = it.Val()
				}
				results[g] = rs
			}()
		}
		close(start)
		wg.Wait()
		for k := 0; k < c.Keys; k++ {
			if overlap[k].Load() > 0 {
				return fmt.Errorf("%+v round %d: two executions for key %q overlapped", c, round, string(keyNames[k]))
			}
			if settled[k] != 0 && execCount[k].Load() != before[k] {
				return fmt.Errorf("%+v round %d: the function ran again for %q although %d was cached (no expiry)", c, round, string(keyNames[k]), settled[k])
			}
		}
		for g, rs := range results {
			if rs.err != nil {
				if !c.Fail {
					return fmt.Errorf("%+v round %d caller %d: unexpected error %v", c, round, g, rs.err)
				}
				continue
			}
			if rs.nil {
				return fmt.Errorf("%+v round %d caller %d: nil item without error", c, round, g)
			}
			k, ok := produced.Load(rs.val)
			if !ok || k.(int) != rs.key {
				return fmt.Errorf("%+v round %d caller %d (%q): received %d, which was not produced for its key", c, round, g, string(keyNames[rs.key]), rs.val)
			}
			if settled[rs.key] != 0 && rs.val != settled[rs.key] {
				return fmt.Errorf("%+v round %d caller %d (%q): received %d although %d was cached", c, round, g, string(keyNames[rs.key]), rs.val, settled[rs.key])
			}
		}
	}
	r.NonTrivialIf(c.Callers >= 2, "concurrent callers")
	if c.Rounds >= 2 {
		r.Label("later round served from cache")
	}
	return nil
}

// ---------------------------------------------------------------------------
// results the cache cannot hold (the cache rejects the empty string): the callers still receive what was produced

// ZeroCase: Calls sequential Memoize calls for one key on a Memoizer[string,string]; Pat[i] says what the ith EXECUTION of
// the function returns: 'z' = an item whose value is the empty string (the zero value; the cache refuses to store it),
// 'v' = an item with a non-empty value of its own, 'e' = an error. Executions beyond the pattern return 'v'.
type ZeroCase struct {
	Calls int    `json:"calls"`
	Pat   string `json:"pat"`
}

func mkStrItem(v string) *cache.Item[string] {
	if v == "" {
		return new(cache.Item[string]) // the zero item: Val() == ""
	}
	aux := cache.New[string, string](cache.NoExpiration, 0)
	aux.Set("x", v, cache.NoExpiration)
	it, _ := aux.Get("x")
	return it
}

func zeroEnum(s pbt.Src, thorough bool) ZeroCase {
	n := 4
	if thorough {
		n = 6
	}
	pat := pbt.Seq(s, 0, n, func(s pbt.Src) byte { return "zve"[s.Intn(3)] })
	return ZeroCase{Calls: pbt.Range(s, 1, n), Pat: string(pat)}
}

func zeroProp(c ZeroCase, r *pbt.R) error {
	calls := c.Calls
	if calls < 0 || calls > 64 {
		return nil
	}
	m := gogu.NewMemoizer[string, string](cache.NoExpiration, 0)
	execs := 0
	cached := "" // the non-empty value a successful execution produced (from then on every call must return it)
	sawZero := false
	for i := 0; i < calls; i++ {
		before := execs
		var produced string
		var producedErr error
		it, err := m.Memoize("k", func() (*cache.Item[string], error) {
			execs++
			kind := byte('v')
			if execs <= len(c.Pat) {
				kind = c.Pat[execs-1]
			}
			switch kind {
			case 'z':
				produced = ""
				return mkStrItem(""), nil
			case 'e':
				producedErr = fmt.Errorf("fn error #%d", execs)
				return nil, producedErr
			}
			produced = fmt.Sprintf("value#%d", execs)
			return mkStrItem(produced), nil
		})
		ran := execs - before
		ctx := fmt.Sprintf("Memoizer[string,string], executions return %q (then values), call %d of %d", c.Pat, i+1, calls)
		switch {
		case cached != "":
			if ran != 0 || err != nil || it.Val() != cached {
				return fmt.Errorf("%s: the value %q was cached, but the call ran the function %d time(s) and returned (%q, %v)", ctx, cached, ran, it.Val(), err)
			}
		case ran != 1:
			return fmt.Errorf("%s: nothing is cached, the call ran the function %d time(s), want 1", ctx, ran)
		case producedErr != nil:
			if !errors.Is(err, producedErr) {
				return fmt.Errorf("%s: the execution failed with %q, the caller received (%q, %v)", ctx, producedErr, it.Val(), err)
			}
		default:
			if err != nil || it.Val() != produced {
				return fmt.Errorf("%s: the execution produced the value %q without an error, the caller received (%q, %v)", ctx, produced, it.Val(), err)
			}
			if produced != "" {
				cached = produced
			} else {
				sawZero = true
			}
		}
	}
	r.NonTrivialIf(sawZero, "an execution produced the empty string (not storable)")
	return nil
}

// ---------------------------------------------------------------------------
// volume: many distinct keys on one Memoizer (state that accumulates over many calls)

type VolumeCase struct {
	Keys   int `json:"keys"`
	Expiry int `json:"expiry"` // 0: none, 1: one hour
}

func volumeProp(c VolumeCase, r *pbt.R) error {
	n := c.Keys
	if n < 1 || n > 20000 {
		return nil
	}
	exp := time.Duration(cache.NoExpiration)
	if c.Expiry%2 == 1 {
		exp = time.Hour
	}
	m := gogu.NewMemoizer[string, int](exp, 0)
	runs := make([]int, n)
	ask := func(round int) error {
		for k := 0; k < n; k++ {
			k := k
			it, err := m.Memoize(fmt.Sprintf("key-%d", k), func() (*cache.Item[int], error) { runs[k]++; return mkItem(10*k + 1), nil })
			if err != nil || it == nil || it.Val() != 10*k+1 {
				return fmt.Errorf("Memoizer(expiry %v) with %d distinct keys, round %d: Memoize(key-%d) = (%v, %v), want %d", exp, n, round, k, it.Val(), err, 10*k+1)
			}
		}
		return nil
	}
	for round := 1; round <= 2; round++ {
		if err := ask(round); err != nil {
			return err
		}
	}
	again := 0
	for _, x := range runs {
		if x != 1 {
			again++
		}
	}
	if again > 0 {
		return fmt.Errorf("Memoizer(expiry %v): %d distinct keys memoized and asked for again at once: the function of %d keys did not run exactly once (values are cached and not expired)", exp, n, again)
	}
	r.NonTrivialIf(n >= 1000, ">= 1000 keys")
	return nil
}

// ---------------------------------------------------------------------------
// shared-items: the items a function returns are entries of another cache, or one item serves several keys

// SharedCase: sequential calls in virtual time on a memoizer whose entries live sharedLife. Calls are (key 0/1, gap in ms
// before the call). Mode 0 (nested): the function passed for key k asks an INNER memoizer (entries never expire) for
// the same key and returns its item; the inner computation may run once per key, however often the outer entry expires.
// Mode 1 (one item): the functions of both keys return one and the same item object (an entry of a third cache).
type SharedCase struct {
	Mode  int      `json:"mode"`
	Calls [][2]int `json:"calls"`
}

const sharedLife = 40 * time.Millisecond

var sharedGaps = []int{0, 10, 30, 41, 50}

func sharedProp(c SharedCase, r *pbt.R) error {
	if len(c.Calls) > 64 {
		return nil
	}
	outer := gogu.NewMemoizer[string, int](sharedLife, 0)
	inner := gogu.NewMemoizer[string, int](cache.NoExpiration, 0)
	one := mkItem(7)
	names := []string{"a", "b"}
	var computes, runs [2]int
	var deadline [2]time.Duration // instant at which the outer entry of the key expires; 0: nothing stored yet
	t0 := time.Now()
	mode := ((c.Mode % 2) + 2) % 2
	expired := false
	for i, cl := range c.Calls {
		k := ((cl[0] % 2) + 2) % 2
		if cl[1] > 0 {
			time.Sleep(time.Duration(cl[1]) * time.Millisecond)
		}
		now := time.Since(t0)
		before := runs[k]
		want := 7
		fn := func() (*cache.Item[int], error) { runs[k]++; return one, nil }
		if mode == 0 {
			want = 100 + k
			fn = func() (*cache.Item[int], error) {
				runs[k]++
				return inner.Memoize(names[k], func() (*cache.Item[int], error) { computes[k]++; return mkItem(100 + k), nil })
			}
		}
		it, err := outer.Memoize(names[k], fn)
		ran := runs[k] - before
		ctx := fmt.Sprintf("memoizer with %v entries, mode %d (0: the function returns the item of an inner never-expiring memoizer; 1: both keys' functions return one item object), calls (key, gap ms) %v: call %d at %v",
			sharedLife, mode, c.Calls[:i+1], i, now)
		if err != nil || it == nil || it.Val() != want {
			return fmt.Errorf("%s returned (%v, %v), want the value %d", ctx, it, err, want)
		}
		switch {
		case deadline[k] > 0 && now < deadline[k]:
			if ran != 0 {
				return fmt.Errorf("%s ran the function although the entry of key %q lives until %v", ctx, names[k], deadline[k])
			}
		case deadline[k] > 0 && now == deadline[k]:
			if ran == 1 {
				deadline[k] = now + sharedLife
			}
		default:
			if ran != 1 {
				return fmt.Errorf("%s ran the function %d time(s), want 1: the entry of key %q expired at %v (0s: never stored) - storing another key, or the same item elsewhere, must not prolong it", ctx, ran, names[k], deadline[k])
			}
			if deadline[k] > 0 {
				expired = true
			}
			deadline[k] = now + sharedLife
		}
		if mode == 0 && computes[k] != 1 {
			return fmt.Errorf("%s: the inner computation for key %q has run %d times, want once (the inner memoizer never expires; caching its item in the outer one must not change that)", ctx, names[k], computes[k])
		}
	}
	r.NonTrivialIf(expired, "a call after the outer entry expired")
	return nil
}

// ---------------------------------------------------------------------------
// sweep: a memoizer with a background cleanup never loses a value that has no deadline or whose deadline is far away

// SweepCase: Exp indexes sweepExps, Cleanup sweepCleanups; Keys keys are memoized, the bubble sleeps over several cleanup
// ticks, every key is asked for again (twice).
type SweepCase struct {
	Exp     int `json:"exp"`
	Cleanup int `json:"cleanup"`
	Keys    int `json:"keys"`
}

var sweepExps = []time.Duration{0, cache.NoExpiration, -time.Second, time.Hour, math.MinInt64}
var sweepCleanups = []time.Duration{5 * time.Millisecond, time.Millisecond, 50 * time.Millisecond}

func sweepProp(c SweepCase, r *pbt.R) error {
	exp := sweepExps[((c.Exp%len(sweepExps))+len(sweepExps))%len(sweepExps)]
	cl := sweepCleanups[((c.Cleanup%len(sweepCleanups))+len(sweepCleanups))%len(sweepCleanups)]
	n := 1 + ((c.Keys-1)%50+50)%50
	m := gogu.NewMemoizer[string, int](exp, cl)
	defer func() {
		m.Cache.VerifStopCleanup()
		synctest.Wait()
	}()
	synctest.Wait()
	runs := make([]int, n)
	for round := 0; round < 3; round++ {
		for k := 0; k < n; k++ {
			k := k
			it, err := m.Memoize(fmt.Sprintf("key-%d", k), func() (*cache.Item[int], error) { runs[k]++; return mkItem(10*k + 1), nil })
			if err != nil || it == nil || it.Val() != 10*k+1 {
				return fmt.Errorf("Memoizer(expiration %d ns, cleanup every %v), %d keys, round %d: Memoize(key-%d) = (%v, %v), want %d", int64(exp), cl, n, round, k, it, err, 10*k+1)
			}
			if runs[k] != 1 {
				return fmt.Errorf("Memoizer(expiration %d ns, cleanup every %v), %d keys, round %d (rounds are 120ms apart): the function of key-%d has run %d times, want once - its value has no deadline within the case and the background cleanup removes expired entries only",
					int64(exp), cl, n, round, k, runs[k])
			}
		}
		// short-lived neighbours under other keys, stored through the memoizer's exported cache (as many as there are memoized
		// keys, twice as many in the second round): the cleanup purges them during the pause - and nothing else
		for j := 0; j < n*(round+1); j++ {
			if err := m.Cache.Set(fmt.Sprintf("neighbour-%d-%d", round, j), -1, 3*time.Millisecond); err != nil {
				return fmt.Errorf("Memoizer(expiration %d ns, cleanup every %v): storing a neighbour entry in its cache failed: %v", int64(exp), cl, err)
			}
		}
		time.Sleep(120 * time.Millisecond)
		synctest.Wait()
		if got := m.Cache.Count(); got != n {
			return fmt.Errorf("Memoizer(expiration %d ns, cleanup every %v), %d keys, after round %d and 120ms: its cache counts %d entries, want the %d memoized ones (the short-lived neighbours are purged, nothing else)", int64(exp), cl, n, round, got, n)
		}
	}
	r.NonTrivialIf(true, "every case")
	return nil
}

func TestProp(t *testing.T) {
	pbt.Run(t, "C17",
		&pbt.Check[Case]{
			Name: "timeline",
			Rule: "call timelines in virtual time (synctest): callers start on an even-millisecond grid (gaps 0/2/10/50ms enumerated, 0..68ms random), each passes a function with latency {0,3ms,21ms} and outcome {value,error}; memoizer expiry {none,40ms}; 1..3 keys, up to 16 callers. " +
				"Oracle on exact virtual instants: in-flight counter per key <= 1; every result stems from an execution for the same key that started before the call returned (errors: one that overlapped the call); a call starting strictly inside an execution gets its outcome at its end without running its own function; " +
				"a call starting strictly after a successful execution and strictly before its expiry returns such a value at once without running; otherwise (off every boundary instant) the result comes from an execution started at the call's instant; no execution starts while an unexpired value is cached; every execution starts at the instant of a call for its key. " +
				"Enumerated: every timeline of 1..3 (thorough 4) calls over 2 keys (one of them the empty string) x 4 gaps x 3 latencies x 2 outcomes x 2 expiries. Non-trivial = some call joined a running execution, or came after a failed execution, or after expiry.",
			Enum: enum, Gen: gen, Prop: prop, OutOfEnum: outOfEnum,
			RapidQuick: 1500, RapidThorough: 20000,
			Bubble: true,
		},
		&pbt.Check[ZeroCase]{
			Name: "uncacheable",
			Rule: "sequential Memoize calls for one key on a Memoizer[string,string] whose function returns, per execution, an item holding the EMPTY string (which the cache refuses to store), an item with a value of its own, or an error: " +
				"every caller receives exactly what its execution produced (the empty value without an invented error), errors are not cached, the first non-empty value is served from then on without running the function. " +
				"Enumerated: 1..4 (thorough 6) calls x every outcome pattern of that length. Non-trivial = some execution produced the empty string.",
			Enum: zeroEnum, Prop: zeroProp,
		},
		&pbt.Check[SharedCase]{
			Name: "shared-items",
			Rule: "sequential calls in virtual time on a memoizer whose entries live 40ms, two keys, gaps from {0,10,30,41,50}ms; the functions return items that are entries elsewhere: either the item of an inner never-expiring memoizer (nested memoizers) or one item object for both keys. " +
				"Oracle per key: no run while its entry lives, exactly one run after it expired (either at the deadline instant), the right value always; the inner computation runs once per key whatever the outer one does. " +
				"Enumerated: both modes x every sequence of 1..4 (thorough 5) calls; random: up to 30 calls. Non-trivial = some call came after an expiry.",
			Enum: func(s pbt.Src, thorough bool) SharedCase {
				n := 4
				if thorough {
					n = 5
				}
				return SharedCase{Mode: s.Intn(2), Calls: pbt.Seq(s, 1, n, func(s pbt.Src) [2]int { return [2]int{s.Intn(2), sharedGaps[s.Intn(len(sharedGaps))]} })}
			},
			Gen: func(s pbt.Src, _ bool) SharedCase {
				return SharedCase{Mode: s.Intn(2), Calls: pbt.Seq(s, 1, 30, func(s pbt.Src) [2]int { return [2]int{s.Intn(2), sharedGaps[s.Intn(len(sharedGaps))]} })}
			},
			Prop: sharedProp,
			OutOfEnum: func(c SharedCase, thorough bool) bool {
				if thorough {
					return len(c.Calls) > 5
				}
				return len(c.Calls) > 4
			},
			RapidQuick: 300, RapidThorough: 5000,
			Bubble: true,
		},
		&pbt.Check[SweepCase]{
			Name: "sweep",
			Rule: "memoizers WITH a background cleanup (every 1, 5 or 50ms) whose entries have no deadline (expiration 0, NoExpiration, -1s, the most negative Duration) or a distant one (1h), in virtual time: 1..50 keys are memoized (after each round as many, then twice as many, 3ms neighbour entries under other keys are stored through the exported cache and purged by the cleanup), and asked for again 120ms and 240ms later: every function runs once, every value is right. Enumerated: 5 expirations x 3 intervals x {1, 2, 7} keys; random: up to 50 keys. Non-trivial = every case.",
			Enum: func(s pbt.Src, _ bool) SweepCase {
				return SweepCase{Exp: s.Intn(len(sweepExps)), Cleanup: s.Intn(len(sweepCleanups)), Keys: pbt.Pick(s, 1, 2, 7)}
			},
			Gen: func(s pbt.Src, _ bool) SweepCase {
				return SweepCase{Exp: s.Intn(len(sweepExps)), Cleanup: s.Intn(len(sweepCleanups)), Keys: 8 + s.Intn(43)}
			},
			Prop: sweepProp, OutOfEnum: func(c SweepCase, _ bool) bool { return c.Keys != 1 && c.Keys != 2 && c.Keys != 7 },
			RapidQuick: 30, RapidThorough: 600,
			Bubble: true,
		},
		&pbt.Check[VolumeCase]{
			Name:  "volume",
			Rule:  "one Memoizer (expiry none / 1h), N distinct keys memoized one after the other and then all asked for again: every value is right and every function ran exactly once. N in {1, 100, 1023, 1024, 1025, 3000} (thorough also 10000). Non-trivial = N >= 1000.",
			Fixed: []VolumeCase{{1, 0}, {100, 1}, {1023, 1}, {1024, 1}, {1025, 1}, {3000, 1}, {3000, 0}},
			Gen: func(s pbt.Src, thorough bool) VolumeCase {
				if thorough {
					return VolumeCase{Keys: pbt.Pick(s, 513, 2049, 4097, 10000), Expiry: s.Intn(2)}
				}
				return VolumeCase{Keys: pbt.Pick(s, 513, 2049), Expiry: s.Intn(2)}
			},
			Prop: volumeProp, OutOfEnum: func(VolumeCase, bool) bool { return true },
			RapidQuick: 2, RapidThorough: 6,
		},
		&pbt.Check[FreeCase]{
			Name: "free",
			Rule: "free-running goroutines (real scheduler, GOMAXPROCS in {1,2,4,16}, 1..16 callers x 1..3 keys x 1..4 rounds, injected yields, optionally a failing first execution): in-flight counter per key <= 1, values belong to the key, once a value is cached later rounds get it and the function is not run again. Non-trivial = >= 2 concurrent callers.",
			Gen:  genFree, Prop: propFree, OutOfEnum: func(FreeCase, bool) bool { return true },
			RapidQuick: 150, RapidThorough: 3000,
		},
	)
}
