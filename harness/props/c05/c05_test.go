// C05: queues deliver elements first-in first-out without loss.
//
// Both implementations of package queue (the slice-backed Queue and the linked
// LQueue) are driven through the same operation sequences and compared, after
// every step, with a plain slice model.
package c05

import (
	"fmt"
	"strings"
	"testing"

	"github.com/esimov/gogu/queue"
	"verif/pbt"
)

// ---------------------------------------------------------------------------
// the two implementations behind one interface

type fifo interface {
	Enqueue(v int)
	// Dequeue returns the element and whether the call reported an error
	// (only the slice-backed variant can).
	Dequeue() (v int, reportedEmpty bool)
	Peek() int
	Search(v int) bool
	Size() int
	Clear()
}

type sliceQ struct{ q *queue.Queue[int] }

func (s sliceQ) Enqueue(v int) { s.q.Enqueue(v) }
func (s sliceQ) Dequeue() (int, bool) {
	v, err := s.q.Dequeue()
	return v, err != nil
}
func (s sliceQ) Peek() int         { return s.q.Peek() }
func (s sliceQ) Search(v int) bool { return s.q.Search(v) }
func (s sliceQ) Size() int         { return s.q.Size() }
func (s sliceQ) Clear()            { s.q.Clear() }

type linkedQ struct{ q *queue.LQueue[int] }

func (l linkedQ) Enqueue(v int)        { l.q.Enqueue(v) }
func (l linkedQ) Dequeue() (int, bool) { return l.q.Dequeue(), false }
func (l linkedQ) Peek() int            { return l.q.Peek() }
func (l linkedQ) Search(v int) bool    { return l.q.Search(v) }
func (l linkedQ) Size() int            { return l.q.Size() }
func (l linkedQ) Clear()               { l.q.Clear() }

// ---------------------------------------------------------------------------
// cases

const (
	opEnqueue = iota
	opDequeue
	opClear
	opPeek
	opSize
	opSearch
	nKinds
)

var opNames = []string{"Enqueue", "Dequeue", "Clear", "Peek", "Size", "Search"}

// Op is one call; Val is the argument of Enqueue and Search.
type Op struct {
	Kind int `json:"kind"`
	Val  int `json:"val"`
}

func (o Op) String() string {
	if o.Kind < 0 || o.Kind >= nKinds {
		return fmt.Sprintf("?%d", o.Kind)
	}
	if o.Kind == opEnqueue || o.Kind == opSearch {
		return fmt.Sprintf("%s(%d)", opNames[o.Kind], o.Val)
	}
	return opNames[o.Kind]
}

// Observer bits of Case.Obs: which observers are called after EVERY step (all
// of them are always called once after the last step).
const (
	obsSize = 1 << iota
	obsPeek
	obsSearch
	obsAll = obsSize | obsPeek | obsSearch
)

// Case is one history. First is the mandatory initial element of the linked
// queue (ignored by the slice-backed one, which starts empty).
type Case struct {
	First int  `json:"first"`
	Obs   int  `json:"obs"`
	Ops   []Op `json:"ops"`
}

// enumerated scope: mutators only, values 1..3, observers after every step all on or all off.
const enumVals = 3

func enumLen(thorough bool) int {
	if thorough {
		return 10
	}
	return 8
}

func enumOp(s pbt.Src) Op {
	i := s.Intn(enumVals + 2)
	switch {
	case i < enumVals:
		return Op{Kind: opEnqueue, Val: 1 + i}
	case i == enumVals:
		return Op{Kind: opDequeue}
	}
	return Op{Kind: opClear}
}

func enumFor(linked bool) func(pbt.Src, bool) Case {
	return func(s pbt.Src, thorough bool) Case {
		c := Case{}
		if linked {
			c.First = 1 + s.Intn(enumVals)
		}
		c.Obs = pbt.Pick(s, obsAll, 0)
		c.Ops = pbt.Seq(s, 0, enumLen(thorough), enumOp)
		return c
	}
}

// random scope: phases of filling, draining (regardless of the size, so that
// the queue is regularly over-drained), mixed use and clearing; values 1..5, in
// one case out of eight also 0 (the zero value as a regular element); explicit
// observer calls at random places and any combination of per-step observers.
type randGen struct{ zero bool }

func (g randGen) val(s pbt.Src) int {
	if g.zero {
		return (1 + s.Intn(6)) % 6 // shrinks towards 1, not towards the zero value
	}
	return 1 + s.Intn(5)
}

func (g randGen) enq(s pbt.Src) Op { return Op{Kind: opEnqueue, Val: g.val(s)} }

func (g randGen) op(s pbt.Src) Op {
	switch i := s.Intn(12); {
	case i < 4:
		return g.enq(s)
	case i < 8:
		return Op{Kind: opDequeue}
	case i == 8:
		return Op{Kind: opClear}
	case i == 9:
		return Op{Kind: opPeek}
	case i == 10:
		return Op{Kind: opSize}
	}
	return Op{Kind: opSearch, Val: s.Intn(7)}
}

func dequeues(n int) []Op {
	out := make([]Op, n)
	for i := range out {
		out[i] = Op{Kind: opDequeue}
	}
	return out
}

func (g randGen) phase(s pbt.Src) []Op {
	switch s.Intn(12) {
	case 0, 1, 2: // fill
		return pbt.Seq(s, 1, 9, g.enq)
	case 3, 4, 5, 6: // drain, possibly beyond empty
		return dequeues(1 + s.Intn(11))
	case 7, 8: // mixed
		return pbt.Seq(s, 1, 10, g.op)
	case 9: // big fill: beyond several growth steps of a slice
		return pbt.Seq(s, 10, 40, g.enq)
	case 10: // big drain
		return dequeues(20 + s.Intn(31))
	}
	// clear, sometimes twice, sometimes followed by a dequeue on the cleared queue
	out := []Op{{Kind: opClear}}
	switch s.Intn(3) {
	case 1:
		out = append(out, Op{Kind: opClear})
	case 2:
		out = append(out, Op{Kind: opDequeue})
	}
	return out
}

func randLen(thorough bool) (phases, maxOps int) {
	if thorough {
		return 120, 600
	}
	return 40, 200
}

func genFor(linked bool) func(pbt.Src, bool) Case {
	return func(s pbt.Src, thorough bool) Case {
		c := Case{}
		g := randGen{zero: s.Intn(8) == 7}
		if linked {
			c.First = g.val(s)
		}
		c.Obs = s.Intn(obsAll + 1)
		nph, maxOps := randLen(thorough)
		for _, ph := range pbt.Seq(s, 2, nph, g.phase) {
			c.Ops = append(c.Ops, ph...)
		}
		if len(c.Ops) > maxOps {
			c.Ops = c.Ops[:maxOps]
		}
		return c
	}
}

func outOfEnumFor(linked bool) func(Case, bool) bool {
	return func(c Case, thorough bool) bool { return outOfEnum(linked, c, thorough) }
}

func outOfEnum(linked bool, c Case, thorough bool) bool {
	if len(c.Ops) > enumLen(thorough) || (c.Obs != 0 && c.Obs != obsAll) {
		return true
	}
	if linked && (c.First < 1 || c.First > enumVals) {
		return true
	}
	for _, o := range c.Ops {
		if o.Kind > opClear || (o.Kind == opEnqueue && (o.Val < 1 || o.Val > enumVals)) {
			return true
		}
	}
	return false
}

// ---------------------------------------------------------------------------
// oracle

// elem is a model element: the value and the index of the step that enqueued it
// (-1 for the initial element of the linked queue).
type elem struct{ v, at int }

type run struct {
	linked bool
	q      fifo
	search []int // values the per-step observer asks Search for
	m      []elem
	c      Case
	step   int    // index of the current step, len(c.Ops) while in the epilogue
	phase  string // epilogue phase (a format with one %d), formatted only when a message is built
	phaseK int

	// Peek observed on the empty slice-backed queue since it last became empty:
	// the statement only ties it to the element of the next Dequeue.
	emptyPeek      int
	emptyPeekValid bool
}

func (x *run) where() string {
	n := x.step + 1
	if n > len(x.c.Ops) {
		n = len(x.c.Ops)
	}
	var b strings.Builder
	if x.linked {
		fmt.Fprintf(&b, "NewLinked(%d)", x.c.First)
	} else {
		b.WriteString("New()")
	}
	ops := x.c.Ops[:n]
	if len(ops) > 40 {
		fmt.Fprintf(&b, " ...%d ops...", len(ops)-40)
		ops = ops[len(ops)-40:]
	}
	for _, o := range ops {
		b.WriteString(" ")
		b.WriteString(o.String())
	}
	if x.phase != "" {
		b.WriteString(" | " + strings.ReplaceAll(x.phase, "%d", fmt.Sprint(x.phaseK)))
	}
	return fmt.Sprintf("%s [obs=%d, model holds %s]", b.String(), x.c.Obs, x.held())
}

// held prints the model, front first (abbreviated when long).
func (x *run) held() string {
	v := x.values()
	if len(v) <= 16 {
		return fmt.Sprint(v)
	}
	return fmt.Sprintf("%d elements, front %v ... back %v", len(v), v[:8], v[len(v)-4:])
}

func (x *run) values() []int {
	out := make([]int, len(x.m))
	for i, e := range x.m {
		out[i] = e.v
	}
	return out
}

func (x *run) holds(v int) bool {
	for _, e := range x.m {
		if e.v == v {
			return true
		}
	}
	return false
}

func (x *run) checkSize() error {
	if n := x.q.Size(); n != len(x.m) {
		return fmt.Errorf("%s: Size() = %d, want %d (enqueues minus successful dequeues since the last Clear)", x.where(), n, len(x.m))
	}
	return nil
}

func (x *run) checkPeek() error {
	p := x.q.Peek()
	switch {
	case len(x.m) > 0:
		if p != x.m[0].v {
			return fmt.Errorf("%s: Peek() = %d, want %d (the element the next Dequeue has to return)", x.where(), p, x.m[0].v)
		}
	case x.linked:
		// the next Dequeue has to return the zero value
		if p != 0 {
			return fmt.Errorf("%s: Peek() = %d on an empty linked queue, want the zero value (what the next Dequeue has to return)", x.where(), p)
		}
	default:
		// slice-backed and empty: the next Dequeue reports an error; the element that
		// accompanies the error is not specified, Peek only has to agree with it.
		if x.emptyPeekValid && x.emptyPeek != p {
			return fmt.Errorf("%s: Peek() on the empty queue returned %d and then %d without any operation in between that adds an element", x.where(), x.emptyPeek, p)
		}
		x.emptyPeek, x.emptyPeekValid = p, true
	}
	return nil
}

func (x *run) checkSearch(v int) error {
	got, want := x.q.Search(v), x.holds(v)
	if got != want {
		return fmt.Errorf("%s: Search(%d) = %v, want %v", x.where(), v, got, want)
	}
	return nil
}

// searchSet returns the values Search is asked for by the per-step observer:
// the zero value, every value the case ever enqueues (or searches explicitly)
// and one value that is never enqueued. At most 16 values (hand-edited replay
// files may contain more; the rest is simply not probed).
func searchSet(c Case, linked bool) []int {
	set := make([]int, 1, 8)
	add := func(v int) {
		for _, w := range set {
			if w == v {
				return
			}
		}
		if len(set) < 15 {
			set = append(set, v)
		}
	}
	if linked {
		add(c.First)
	}
	for _, o := range c.Ops {
		if o.Kind == opEnqueue || o.Kind == opSearch {
			add(o.Val)
		}
	}
	add(1) // the epilogue enqueues 2 and 1
	add(2)
	absent := set[0]
	for _, v := range set {
		if v >= absent {
			absent = v + 1
		}
	}
	return append(set, absent)
}

func (x *run) observe(mask int) error {
	if mask&obsSize != 0 {
		if err := x.checkSize(); err != nil {
			return err
		}
	}
	if mask&obsPeek != 0 {
		if err := x.checkPeek(); err != nil {
			return err
		}
	}
	if mask&obsSearch != 0 {
		for _, v := range x.search {
			if err := x.checkSearch(v); err != nil {
				return err
			}
		}
	}
	return nil
}

func (x *run) enqueue(v int) {
	x.q.Enqueue(v)
	x.m = append(x.m, elem{v, x.step})
	x.emptyPeekValid = false
}

// dequeue performs one Dequeue and compares it with the model. It returns the
// model element removed (ok=false when the model was empty).
func (x *run) dequeue() (e elem, ok bool, err error) {
	got, reported := x.q.Dequeue()
	if len(x.m) == 0 {
		if x.linked {
			if got != 0 {
				return e, false, fmt.Errorf("%s: Dequeue() on the empty linked queue returned %d, want the zero value", x.where(), got)
			}
			return e, false, nil
		}
		if !reported {
			return e, false, fmt.Errorf("%s: Dequeue() on the empty queue returned (%d, nil), want an error", x.where(), got)
		}
		if x.emptyPeekValid && x.emptyPeek != got {
			return e, false, fmt.Errorf("%s: Peek() on the empty queue returned %d but the next Dequeue returned element %d (with its error)", x.where(), x.emptyPeek, got)
		}
		return e, false, nil
	}
	e = x.m[0]
	if reported {
		return e, false, fmt.Errorf("%s: Dequeue() reported an error (element %d) although the queue is not empty", x.where(), got)
	}
	if got != e.v {
		return e, false, fmt.Errorf("%s: Dequeue() = %d, want %d (the oldest element held)", x.where(), got, e.v)
	}
	x.m = x.m[1:]
	return e, true, nil
}

func propFor(linked bool) func(Case, *pbt.R) error {
	return func(c Case, r *pbt.R) error {
		x := &run{linked: linked, c: c, step: -1, search: searchSet(c, linked)}
		if linked {
			x.q = linkedQ{queue.NewLinked(c.First)}
			x.m = []elem{{c.First, -1}}
		} else {
			x.q = sliceQ{queue.New[int]()}
		}
		// the fresh queue
		x.phase = "fresh"
		if err := x.observe(c.Obs); err != nil {
			return err
		}
		x.phase = ""

		var (
			emptied, emptiedByClear   bool // the queue went from non-empty to empty at some point
			refilled, refilledClear   bool // ... and an Enqueue followed
			farDequeue                bool // a Dequeue returned an element enqueued >= 2 steps earlier
			emptyDequeue, emptyThenEn bool
			drains, maxSize           int
			zeroVal                   = linked && c.First == 0
		)
		for i, op := range c.Ops {
			x.step = i
			switch op.Kind {
			case opEnqueue:
				if emptied {
					refilled = true
				}
				if emptiedByClear {
					refilledClear = true
				}
				if emptyDequeue {
					emptyThenEn = true
				}
				if op.Val == 0 {
					zeroVal = true
				}
				x.enqueue(op.Val)
			case opDequeue:
				e, ok, err := x.dequeue()
				if err != nil {
					return err
				}
				if ok {
					if i-e.at >= 2 {
						farDequeue = true
					}
					if len(x.m) == 0 {
						emptied = true
						drains++
					}
				} else {
					emptyDequeue = true
				}
			case opClear:
				if len(x.m) > 0 {
					emptied, emptiedByClear = true, true
				}
				x.q.Clear()
				x.m = nil
			case opPeek:
				if err := x.checkPeek(); err != nil {
					return err
				}
			case opSize:
				if err := x.checkSize(); err != nil {
					return err
				}
			case opSearch:
				if err := x.checkSearch(op.Val); err != nil {
					return err
				}
			default:
				return nil // not an operation (hand-edited replay file): nothing to check
			}
			if len(x.m) > maxSize {
				maxSize = len(x.m)
			}
			if err := x.observe(c.Obs); err != nil {
				return err
			}
		}

		r.NonTrivialIf(refilled, "emptied, then enqueued again")
		r.NonTrivialIf(refilledClear, "cleared while non-empty, then enqueued again")
		r.NonTrivialIf(farDequeue, "dequeued an element enqueued >= 2 operations earlier")
		if emptyDequeue {
			r.Label("dequeue on empty")
		}
		if emptyThenEn {
			r.Label("dequeue on empty, then enqueued again")
		}
		if drains >= 2 {
			r.Label("drained by Dequeue >= 2 times")
		}
		if drains >= 5 {
			r.Label("drained by Dequeue >= 5 times")
		}
		if maxSize >= 3 {
			r.Label("size reached >= 3")
		}
		if maxSize >= 10 {
			r.Label("size reached >= 10")
		}
		if maxSize >= 40 {
			r.Label("size reached >= 40")
		}
		if zeroVal {
			r.Label("holds the zero value as an element")
		}
		switch c.Obs {
		case 0:
			r.Label("observers only at the end")
		case obsAll:
			r.Label("all observers after every step")
		default:
			r.Label("some observers after every step")
		}

		// Epilogue. 1: every observer on the final state.
		x.step = len(c.Ops)
		x.phase = "final state"
		if err := x.observe(obsAll); err != nil {
			return err
		}
		// 2: drain; everything still held comes out in order, exactly once.
		left := len(x.m)
		for k := 0; k < left; k++ {
			x.phase, x.phaseK = "final drain, Dequeue #%d", k+1
			if _, _, err := x.dequeue(); err != nil {
				return err
			}
			if err := x.observe(obsSize | obsPeek); err != nil {
				return err
			}
		}
		// 3: the drained queue reports emptiness and stays as it is.
		x.phase = "drained"
		if err := x.observe(obsAll); err != nil {
			return err
		}
		for k := 0; k < 2; k++ {
			x.phase, x.phaseK = "drained, Dequeue on empty #%d", k+1
			if _, _, err := x.dequeue(); err != nil {
				return err
			}
			if err := x.observe(obsAll); err != nil {
				return err
			}
		}
		// 4: and it can be refilled.
		x.phase = "drained, over-dequeued, then Enqueue(2) Enqueue(1)"
		x.enqueue(2)
		if err := x.observe(obsAll); err != nil {
			return err
		}
		x.enqueue(1)
		if err := x.observe(obsAll); err != nil {
			return err
		}
		for k := 0; k < 2; k++ {
			x.phase, x.phaseK = "drained, over-dequeued, Enqueue(2) Enqueue(1), Dequeue #%d", k+1
			if _, _, err := x.dequeue(); err != nil {
				return err
			}
			if err := x.observe(obsAll); err != nil {
				return err
			}
		}
		return nil
	}
}

// ---------------------------------------------------------------------------

func en(v int) Op { return Op{Kind: opEnqueue, Val: v} }

var (
	dq = Op{Kind: opDequeue}
	cl = Op{Kind: opClear}
	pk = Op{Kind: opPeek}
	sz = Op{Kind: opSize}
)

func se(v int) Op { return Op{Kind: opSearch, Val: v} }

// fixed boundary cases (both implementations run all of them).
var fixed = []Case{
	{First: 1, Obs: obsAll},
	{First: 1, Obs: 0},
	// the script of lqueue_test.go, continued with the observations it leaves out
	{First: 1, Obs: 0, Ops: []Op{en(2), en(3), pk, dq, pk, dq, pk, se(3), dq, en(10), sz, dq, dq, sz, cl, sz, pk, se(10), en(4), dq}},
	// drain, over-drain, refill
	{First: 3, Obs: obsAll, Ops: []Op{dq, dq, dq, en(1), en(2), dq, dq, dq, en(3), dq}},
	// clear a long queue and use it again
	{First: 2, Obs: obsAll, Ops: []Op{en(1), en(2), en(3), en(1), cl, en(3), en(2), dq, cl, cl, dq, en(1), dq}},
	// zero value as a regular element
	{First: 0, Obs: obsAll, Ops: []Op{en(0), en(1), en(0), dq, dq, se(0), dq, dq, dq, en(0), se(0), dq}},
}

const ruleText = "operation sequences against a slice model (front = index 0); after every step the result of the step (Dequeue: element and, slice-backed, error; " +
	"linked: zero value when empty) and - depending on the case's observer mask - Size, Peek and Search of every value the case uses, of the zero value and of a value never enqueued; after the last step all " +
	"observers, then a full drain (order, exactly once), two Dequeues on the drained queue (emptiness reported, nothing changes), a refill with two elements and their Dequeue. " +
	"Enumerated: every sequence of Enqueue(1|2|3)/Dequeue/Clear up to length 8 (thorough 10), observers after every step all on or all off%s. " +
	"Random: 2..40 (thorough 120) phases of fill (1-9 Enqueue, sometimes 10-40) / drain (1-11 Dequeue, sometimes 20-50, whatever the size) / mixed (incl. explicit Peek, Size, Search calls) / Clear, cut at 200 (600) operations, " +
	"values 1..5 (one random case in eight: 0..5, labelled), any observer mask. Otherwise elements are non-zero, so the zero value means 'empty'. " +
	"Non-trivial = the queue went from non-empty to empty (last element dequeued, or Clear) and was enqueued to again, or a Dequeue returned an element enqueued >= 2 operations earlier. " +
	"Distinct = enumerated cases (injective encoding) + hash-distinct random cases outside the enumerated scope. " +
	"Lenient: the element accompanying the slice-backed queue's empty error is not constrained (Peek on the empty slice-backed queue only has to agree with it)."

// ---------------------------------------------------------------------------
// pointer elements: Search reports exactly the POINTERS currently held

// PtrCase: Ops[i] = k >= 0: Enqueue(the k-th of four pointers, of which #0 and #1 point to equal integers), -1: Dequeue, -2: Clear.
type PtrCase struct {
	Ops []int `json:"ops"`
}

func ptrProp(c PtrCase, r *pbt.R) error {
	if len(c.Ops) > 200 {
		return nil
	}
	a, b, x, y, twin := 7, 7, 9, 0, 7
	tab := []*int{&a, &b, &x, &y}
	type pq interface {
		Enqueue(*int)
		Peek() *int
		Search(*int) bool
		Size() int
		Clear()
	}
	run := func(name string, q pq, deq func() *int, model []*int) error {
		for i, op := range c.Ops {
			switch {
			case op >= 0:
				p := tab[op%len(tab)]
				q.Enqueue(p)
				model = append(model, p)
			case op == -1:
				got := deq()
				if len(model) == 0 {
					if got != nil {
						return fmt.Errorf("%s of *int, ops %v: Dequeue on an empty queue returned a non-nil pointer", name, c.Ops[:i+1])
					}
				} else {
					if got != model[0] {
						return fmt.Errorf("%s of *int, ops %v: Dequeue did not return the pointer enqueued first", name, c.Ops[:i+1])
					}
					model = model[1:]
				}
			default:
				q.Clear()
				model = nil
			}
			if q.Size() != len(model) {
				return fmt.Errorf("%s of *int, ops %v: Size() = %d, want %d", name, c.Ops[:i+1], q.Size(), len(model))
			}
			if len(model) > 0 {
				if got := q.Peek(); got != model[0] {
					return fmt.Errorf("%s of *int, ops %v: Peek does not return the pointer the next Dequeue returns", name, c.Ops[:i+1])
				}
			}
			for j, p := range append(append([]*int(nil), tab...), &twin) {
				held := false
				for _, m := range model {
					held = held || m == p
				}
				if got := q.Search(p); got != held {
					return fmt.Errorf("%s of *int, ops %v: Search(pointer #%d) = %v, want %v (pointers #0, #1 and the never-enqueued #4 point to equal integers but are different pointers)", name, c.Ops[:i+1], j, got, held)
				}
			}
		}
		return nil
	}
	sq := queue.New[*int]()
	if err := run("Queue", sq, func() *int { v, _ := sq.Dequeue(); return v }, nil); err != nil {
		return err
	}
	lq := queue.NewLinked(tab[2])
	if err := run("LQueue", lq, lq.Dequeue, []*int{tab[2]}); err != nil {
		return err
	}
	twins := false
	for _, op := range c.Ops {
		twins = twins || op == 0 || op == 1
	}
	r.NonTrivialIf(twins, "a pointer with an equal-valued twin was enqueued")
	return nil
}

// ---------------------------------------------------------------------------
// bulk: long fills and drains (hundreds to thousands of elements), observed at the phase boundaries

// BulkCase: Phases are (kind, count): 0 = Enqueue count elements (a running counter 1, 2, 3, ...: every element is unique, the
// zero value is never enqueued), 1 = Dequeue count times (whatever the size), 2 = Clear. The linked queue starts with [1].
type BulkCase struct {
	Linked bool     `json:"linked"`
	Phases [][2]int `json:"phases"`
}

// counts around the powers of two, where slice-backed storage grows, shrinks or is reallocated
var bulkCounts = []int{1, 2, 5, 31, 32, 33, 63, 64, 65, 100, 127, 128, 129, 255, 256, 257, 300, 511, 512, 513, 1000, 1023, 1024, 1025, 2000, 4097}

func bulkGen(s pbt.Src, thorough bool) BulkCase {
	c := BulkCase{Linked: pbt.Bool(s)}
	max := 8
	if thorough {
		max = 16
	}
	c.Phases = pbt.Seq(s, 2, max, func(s pbt.Src) [2]int {
		n := bulkCounts[s.Intn(len(bulkCounts))]
		if s.Intn(4) == 0 {
			n = 1 + s.Intn(3000)
		}
		return [2]int{pbt.Pick(s, 0, 0, 0, 1, 1, 1, 1, 2), n}
	})
	return c
}

func bulkProp(c BulkCase, r *pbt.R) error {
	var q fifo
	var model []int
	next := 0
	name := "queue.New[int]()"
	if c.Linked {
		next = 1
		q = linkedQ{queue.NewLinked(1)}
		model = []int{1}
		name = "queue.NewLinked(1)"
	} else {
		q = sliceQ{queue.New[int]()}
	}
	total, maxSize, refilled, wasBig := 0, 0, false, false
	for pi, ph := range c.Phases {
		kind, n := ((ph[0]%3)+3)%3, ph[1]
		if n < 0 || n > 5000 || total > 40000 {
			return nil
		}
		total += n
		ctx := func() string { return fmt.Sprintf("%s, phases (0 Enqueue n, 1 Dequeue n, 2 Clear) %v, in phase %d", name, c.Phases[:pi+1], pi) }
		switch kind {
		case 0:
			if wasBig && len(model) < maxSize/4 {
				refilled = true
			}
			for i := 0; i < n; i++ {
				next++
				q.Enqueue(next)
				model = append(model, next)
			}
		case 1:
			for i := 0; i < n; i++ {
				got, empty := q.Dequeue()
				if len(model) == 0 {
					if (c.Linked && got != 0) || (!c.Linked && !empty) {
						return fmt.Errorf("%s: Dequeue #%d on the empty queue returned (%d, emptiness reported: %v)", ctx(), i+1, got, empty)
					}
					continue
				}
				if got != model[0] || empty {
					return fmt.Errorf("%s: Dequeue #%d returned (%d, emptiness reported: %v), want %d (%d elements held)", ctx(), i+1, got, empty, model[0], len(model))
				}
				model = model[1:]
				if i%64 == 0 && q.Size() != len(model) {
					return fmt.Errorf("%s: after Dequeue #%d Size() = %d, want %d", ctx(), i+1, q.Size(), len(model))
				}
			}
		default:
			q.Clear()
			model = nil
		}
		if len(model) > maxSize {
			maxSize = len(model)
		}
		if maxSize >= 256 {
			wasBig = true
		}
		if got := q.Size(); got != len(model) {
			return fmt.Errorf("%s: Size() = %d, want %d", ctx(), got, len(model))
		}
		probe := map[int]bool{0: false, next + 1: false}
		if len(model) > 0 {
			if got := q.Peek(); got != model[0] {
				return fmt.Errorf("%s: Peek() = %d, want %d", ctx(), got, model[0])
			}
			probe[model[0]], probe[model[len(model)-1]], probe[model[len(model)/2]] = true, true, true
			if model[0] > 1 {
				probe[model[0]-1] = false // dequeued (or cleared) last
			}
		} else if c.Linked {
			if got := q.Peek(); got != 0 {
				return fmt.Errorf("%s: Peek() on the empty linked queue = %d, want the zero value", ctx(), got)
			}
		}
		for v, want := range probe {
			if got := q.Search(v); got != want {
				return fmt.Errorf("%s: Search(%d) = %v, want %v (%d elements held, %d..%d)", ctx(), v, got, want, len(model), first(model), last(model))
			}
		}
	}
	// drain: order, exactly once
	for i, want := range model {
		got, empty := q.Dequeue()
		if got != want || empty {
			return fmt.Errorf("%s, phases %v, final drain: Dequeue #%d returned (%d, emptiness reported: %v), want %d", name, c.Phases, i+1, got, empty, want)
		}
	}
	if got := q.Size(); got != 0 {
		return fmt.Errorf("%s, phases %v: Size() = %d after the final drain", name, c.Phases, got)
	}
	r.NonTrivialIf(wasBig, "held >= 256 elements at some point")
	if refilled {
		r.Label("enqueued to again after shrinking below a quarter of its largest size")
	}
	return nil
}

func first(m []int) int {
	if len(m) == 0 {
		return 0
	}
	return m[0]
}

func last(m []int) int {
	if len(m) == 0 {
		return 0
	}
	return m[len(m)-1]
}

// ---------------------------------------------------------------------------
// endurance: ONE instance lives through hundreds of phases that move its size between boundary values

// EnduranceCase: Targets are indices into enduranceSizes; the queue is moved to each target size in turn (enqueuing a
// running counter or dequeuing, every dequeued element compared with the model) and observed there. The head of the
// queue has then travelled over hundreds of thousands of positions in one backing structure.
type EnduranceCase struct {
	Linked  bool  `json:"linked"`
	Targets []int `json:"targets"`
}

var enduranceSizes = []int{0, 0, 0, 1, 2, 63, 64, 65, 127, 128, 129, 255, 256, 257, 511, 512, 513, 1023, 1024, 1025, 2047, 2048, 2049, 4095, 4096, 4097}

func enduranceGen(s pbt.Src, thorough bool) EnduranceCase {
	n := 150
	if thorough {
		n = 600
	}
	return EnduranceCase{Linked: s.Intn(4) == 0, Targets: pbt.Seq(s, 20, n, func(s pbt.Src) int { return s.Intn(len(enduranceSizes)) })}
}

func enduranceProp(c EnduranceCase, r *pbt.R) error {
	if len(c.Targets) > 2000 {
		return nil
	}
	var q fifo
	var model []int
	next := 0
	name := "queue.New[int]()"
	if c.Linked {
		next, q, model, name = 1, linkedQ{queue.NewLinked(1)}, []int{1}, "queue.NewLinked(1)"
	} else {
		q = sliceQ{queue.New[int]()}
	}
	ops := 0
	for ti, t := range c.Targets {
		want := enduranceSizes[((t%len(enduranceSizes))+len(enduranceSizes))%len(enduranceSizes)]
		if c.Linked && want > 1025 {
			want = want % 1025 // Search on the linked queue is linear, keep the case cheap
		}
		ctx := func() string {
			return fmt.Sprintf("%s, one instance moved through the sizes %v (indices into %v), at target %d = size %d, after %d operations", name, c.Targets[:ti+1], enduranceSizes, ti, want, ops)
		}
		for len(model) < want {
			next++
			q.Enqueue(next)
			model = append(model, next)
			ops++
		}
		for len(model) > want {
			got, empty := q.Dequeue()
			ops++
			if got != model[0] || empty {
				return fmt.Errorf("%s: Dequeue returned (%d, emptiness reported: %v), want %d (%d elements held)", ctx(), got, empty, model[0], len(model))
			}
			model = model[1:]
		}
		if got := q.Size(); got != len(model) {
			return fmt.Errorf("%s: Size() = %d, want %d", ctx(), got, len(model))
		}
		if len(model) > 0 {
			if got := q.Peek(); got != model[0] {
				return fmt.Errorf("%s: Peek() = %d, want %d", ctx(), got, model[0])
			}
			if !q.Search(model[len(model)-1]) || !q.Search(model[0]) {
				return fmt.Errorf("%s: Search of the front %d / back %d element reports absence", ctx(), model[0], model[len(model)-1])
			}
		} else {
			got, empty := q.Dequeue()
			if (c.Linked && got != 0) || (!c.Linked && !empty) {
				return fmt.Errorf("%s: Dequeue on the empty queue returned (%d, emptiness reported: %v)", ctx(), got, empty)
			}
		}
		if q.Search(next+1) || q.Search(0) || (len(model) > 0 && model[0] > 1 && q.Search(model[0]-1)) {
			return fmt.Errorf("%s: Search finds an element that is not held (never enqueued, the zero value, or the one dequeued last)", ctx())
		}
	}
	r.NonTrivialIf(ops >= 20000, ">= 20000 operations on the one instance")
	return nil
}

func TestProp(t *testing.T) {
	pbt.Run(t, "C05",
		&pbt.Check[Case]{
			Name:  "queue",
			Rule:  "queue.New[int](): " + fmt.Sprintf(ruleText, ", starting empty"),
			Enum:  enumFor(false),
			Gen:   genFor(false),
			Prop:  propFor(false),
			Fixed: fixed, OutOfEnum: outOfEnumFor(false),
			RapidQuick: 1500, RapidThorough: 20000,
		},
		&pbt.Check[Case]{
			Name:  "lqueue",
			Rule:  "queue.NewLinked(first): " + fmt.Sprintf(ruleText, ", for every initial element 1..3 (the model starts as [first])"),
			Enum:  enumFor(true),
			Gen:   genFor(true),
			Prop:  propFor(true),
			Fixed: fixed, OutOfEnum: outOfEnumFor(true),
			RapidQuick: 1500, RapidThorough: 20000,
		},
		&pbt.Check[PtrCase]{
			Name: "pointers",
			Rule: "both queues instantiated with *int: Enqueue of one of four pointers (two of them point to equal integers) / Dequeue / Clear; after every call Size, Peek (pointer identity) and Search of all four pointers and of a never-enqueued fifth pointer to an equal integer: Search reports exactly the POINTERS held. " +
				"Enumerated: every sequence of up to 4 (thorough 5) operations over {Enqueue p0..p3, Dequeue, Clear}; random: up to 40. Non-trivial = a pointer that has an equal-valued twin was enqueued.",
			Enum: func(s pbt.Src, thorough bool) PtrCase {
				n := 4
				if thorough {
					n = 5
				}
				return PtrCase{Ops: pbt.Seq(s, 0, n, func(s pbt.Src) int { return s.Intn(6) - 2 })}
			},
			Gen:        func(s pbt.Src, _ bool) PtrCase { return PtrCase{Ops: pbt.Seq(s, 0, 40, func(s pbt.Src) int { return s.Intn(7) - 2 })} },
			Prop:       ptrProp,
			OutOfEnum:  func(c PtrCase, th bool) bool { return len(c.Ops) > 5 },
			RapidQuick: 200, RapidThorough: 3000,
		},
		&pbt.Check[BulkCase]{
			Name: "bulk",
			Rule: "long fills and drains on both queues: 2..8 (thorough 16) phases of Enqueue n (a running counter: every element unique) / Dequeue n (whatever the size) / Clear with n around the powers of two up to 4097 or random up to 3000; every Dequeue result is compared with the model, " +
				"Size every 64 Dequeues, and at every phase boundary Size, Peek and Search of the front, middle and back elements, of the element removed last, of the zero value and of a value never enqueued; final drain in order. Random only. Non-trivial = the queue held >= 256 elements at some point.",
			Gen: bulkGen, Prop: bulkProp, OutOfEnum: func(BulkCase, bool) bool { return true },
			RapidQuick: 400, RapidThorough: 6000,
		},		&pbt.Check[EnduranceCase]{
			Name: "endurance",
			Rule: "ONE queue (slice-backed; one case in four linked) is moved through 20..150 (thorough 600) target sizes drawn from {0, 1, 2, 2^k-1, 2^k, 2^k+1 for 2^k = 64..4096} by enqueuing a running counter or dequeuing (every dequeued element compared with the model); at every target Size, Peek, Search of front/back/absent elements, and a Dequeue on the empty queue. The instance sees tens to hundreds of thousands of operations and its head travels accordingly. Random only. Non-trivial = at least 20000 operations.",
			Gen: enduranceGen, Prop: enduranceProp, OutOfEnum: func(EnduranceCase, bool) bool { return true },
			RapidQuick: 60, RapidThorough: 600,
		},
	)
}
