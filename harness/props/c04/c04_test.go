// C04: the binary search tree behaves as an ordered map.
package c04

import (
	"cmp"
	"fmt"
	"math"
	"runtime"
	"sort"
	"strings"
	"testing"
	"time"

	"github.com/esimov/gogu/bstree"
	"verif/pbt"
)

// Open known finding: Delete of an absent key still decrements Size (pinned by
// the repository's bstree Example). While it is present, Size is not asserted
// after the first Delete(absent) of a case; everything else stays exact.
const kfSize = "bst-delete-absent-size"

const (
	opUpsert    = iota // Upsert(Key, fresh value)
	opDelete           // Delete(Key)
	opDeleteNth        // Delete of the (Key mod size)-th present key in comparator order; Delete(Key) on an empty tree
	opGet              // Get(Key)
	opSize             // Size()
	opTraverse         // Traverse(...)
	nKinds
)

var kindNames = []string{"Upsert", "Delete", "DeleteNth", "Get", "Size", "Traverse"}

// Op is one call. The value of an Upsert is 1000 + its step index (fresh for every step).
type Op struct {
	Kind int `json:"kind"`
	Key  int `json:"key"`
}

// Case: keys are 0..NKeys-1 (look-ups also probe -1 and NKeys, which are never
// upserted). Pre are keys upserted first, in this order; then Ops run.
// Watch 0: the observers (Get of every key, Size, Traverse) run once after the
// last step (and where Ops says so); Watch 1: additionally a local observation
// (Get of the key and of its neighbours in comparator order, Size) after every
// mutating step and the full observation after every stride-th step.
type Case struct {
	Comp    int   `json:"comp"`
	NKeys   int   `json:"nkeys"`
	Watch   int   `json:"watch"`
	PreKind int   `json:"prekind"` // how Pre was produced (label only)
	Pre     []int `json:"pre"`
	Ops     []Op  `json:"ops"`
}

// The comparators handed to the tree (less) and, defined separately, the rank
// the oracle sorts by. All three are strict total orders on int.
const scramble = 0x155

var comps = []struct {
	name string
	less func(a, b int) bool
	rank func(k int) int
}{
	{"asc", func(a, b int) bool { return a < b }, func(k int) int { return k }},
	{"desc", func(a, b int) bool { return a > b }, func(k int) int { return -k }},
	{"xor", func(a, b int) bool { return a^scramble < b^scramble }, func(k int) int { return k ^ scramble }},
}

var preKinds = []string{"none", "sorted", "reversed", "random", "balanced"}

// ---------------------------------------------------------------------------
// generators

// enumScope: quick = every sequence up to length 6 over keys 0..4,
// thorough = every sequence up to length 7 over keys 0..5.
func enumScope(thorough bool) (maxLen, nkeys int) {
	if thorough {
		return 7, 6
	}
	return 6, 5
}

func enum(s pbt.Src, thorough bool) Case {
	maxLen, nkeys := enumScope(thorough)
	c := Case{Comp: s.Intn(len(comps)), NKeys: nkeys, Watch: s.Intn(2)}
	c.Ops = pbt.Seq(s, 0, maxLen, func(s pbt.Src) Op {
		i := s.Intn(2 * nkeys)
		return Op{Kind: i / nkeys, Key: i % nkeys}
	})
	return c
}

// balanced appends the keys lo, lo+step, ... (< hi) median first, so that a plain
// BST built from them is perfectly balanced (every inner node has two children).
func balanced(out []int, keys []int) []int {
	if len(keys) == 0 {
		return out
	}
	// breadth-first over the index ranges
	type span struct{ lo, hi int }
	queue := []span{{0, len(keys)}}
	for len(queue) > 0 {
		sp := queue[0]
		queue = queue[1:]
		if sp.lo >= sp.hi {
			continue
		}
		mid := (sp.lo + sp.hi) / 2
		out = append(out, keys[mid])
		queue = append(queue, span{sp.lo, mid}, span{mid + 1, sp.hi})
	}
	return out
}

// key range classes of the random generator (rapid favours small values inside a
// range, so the spread is forced by drawing the class first).
var keyClasses = [][2]int{{2, 5}, {6, 8}, {9, 24}, {25, 64}, {65, 160}, {161, 400}}

func gen(s pbt.Src, thorough bool) Case {
	c := Case{Comp: s.Intn(len(comps))}
	cl := keyClasses[s.Intn(len(keyClasses))]
	c.NKeys = pbt.Range(s, cl[0], cl[1])
	if s.Intn(4) > 0 {
		c.Watch = 1
	}
	c.PreKind = s.Intn(len(preKinds))
	switch c.PreKind {
	case 1, 2, 4:
		// every step-th key of a prefix of the key range
		step := pbt.Range(s, 1, 3)
		top := c.NKeys
		if pbt.Bool(s) {
			top = pbt.Range(s, 1, c.NKeys)
		}
		var keys []int
		for k := 0; k < top; k += step {
			keys = append(keys, k)
		}
		switch c.PreKind {
		case 1:
			c.Pre = keys
		case 2:
			for i := len(keys) - 1; i >= 0; i-- {
				c.Pre = append(c.Pre, keys[i])
			}
		default:
			c.Pre = balanced(nil, keys)
		}
	case 3:
		n := c.NKeys
		c.Pre = pbt.Seq(s, 0, n, func(s pbt.Src) int { return s.Intn(n) })
	}
	max := 120
	if thorough {
		max = 300
	}
	n := c.NKeys
	c.Ops = pbt.Seq(s, 0, max, func(s pbt.Src) Op {
		// weights: Upsert 4, Delete 2, DeleteNth 3, Get 1, Size 1, Traverse 1
		switch i := s.Intn(12); {
		case i < 4:
			return Op{Kind: opUpsert, Key: s.Intn(n)}
		case i < 6:
			return Op{Kind: opDelete, Key: s.Intn(n)}
		case i < 9:
			return Op{Kind: opDeleteNth, Key: s.Intn(n)}
		case i < 10:
			return Op{Kind: opGet, Key: s.Intn(n+2) - 1}
		case i < 11:
			return Op{Kind: opSize}
		default:
			return Op{Kind: opTraverse}
		}
	})
	return c
}

func outOfEnum(c Case, thorough bool) bool {
	maxLen, nkeys := enumScope(thorough)
	if len(c.Pre) > 0 || c.NKeys > nkeys || len(c.Ops) > maxLen {
		return true
	}
	for _, o := range c.Ops {
		if o.Kind > opDelete {
			return true
		}
	}
	return false
}

// ---------------------------------------------------------------------------
// reference model: the present keys in comparator order plus a value table.

type model struct {
	rank  func(int) int
	order []int  // present keys, sorted by rank
	val   []int  // by key
	has   []bool // by key
}

func newModel(rank func(int) int, nkeys int) *model {
	return &model{rank: rank, val: make([]int, nkeys), has: make([]bool, nkeys)}
}

// pos is the index of the first present key that does not come before k.
func (m *model) pos(k int) int {
	rk := m.rank(k)
	return sort.Search(len(m.order), func(i int) bool { return m.rank(m.order[i]) >= rk })
}

func (m *model) present(k int) bool { return k >= 0 && k < len(m.has) && m.has[k] }

func (m *model) put(k, v int) {
	if !m.has[k] {
		i := m.pos(k)
		m.order = append(m.order, 0)
		copy(m.order[i+1:], m.order[i:])
		m.order[i] = k
		m.has[k] = true
	}
	m.val[k] = v
}

func (m *model) del(k int) {
	i := m.pos(k)
	m.order = append(m.order[:i], m.order[i+1:]...)
	m.has[k] = false
	m.val[k] = 0
}

// ---------------------------------------------------------------------------
// shadow tree: a textbook unbalanced BST with successor deletion, used ONLY to
// label which structural situation a Delete met (never to decide a verdict).

type snode struct {
	l, r *snode
	k    int
}

type shadow struct {
	root *snode
	rank func(int) int
}

func (s *shadow) insert(k int) {
	rk := s.rank(k)
	p := &s.root
	for *p != nil {
		switch rn := s.rank((*p).k); {
		case rk < rn:
			p = &(*p).l
		case rk > rn:
			p = &(*p).r
		default:
			return
		}
	}
	*p = &snode{k: k}
}

type delShape struct {
	root, leaf, leftOnly, rightOnly, two bool
	succDirect, succHasRight             bool
}

func (s *shadow) remove(k int) (d delShape) {
	rk := s.rank(k)
	p := &s.root
	for *p != nil && (*p).k != k {
		if rk < s.rank((*p).k) {
			p = &(*p).l
		} else {
			p = &(*p).r
		}
	}
	n := *p
	if n == nil {
		return d
	}
	d.root = n == s.root
	switch {
	case n.l == nil && n.r == nil:
		d.leaf = true
		*p = nil
	case n.r == nil:
		d.leftOnly = true
		*p = n.l
	case n.l == nil:
		d.rightOnly = true
		*p = n.r
	default:
		d.two = true
		q := &n.r
		for (*q).l != nil {
			q = &(*q).l
		}
		succ := *q
		d.succDirect = succ == n.r
		d.succHasRight = succ.r != nil
		n.k = succ.k
		*q = succ.r
	}
	return d
}

func (s *shadow) height() int {
	var h func(n *snode) int
	h = func(n *snode) int {
		if n == nil {
			return 0
		}
		a, b := h(n.l), h(n.r)
		if b > a {
			a = b
		}
		return a + 1
	}
	return h(s.root)
}

// ---------------------------------------------------------------------------
// execution

// obsBudget bounds the work of the periodic full observations of one case
// (single look-ups spent = (NKeys+2) * number of observations).
const obsBudget = 6000

type abortTraverse struct{}

type run struct {
	c       Case
	r       *pbt.R
	tree    *bstree.BsTree[int, int]
	m       *model
	nth     map[int]int // step -> key a DeleteNth resolved to
	tainted bool        // a Delete of an absent key happened
	sizeOK  bool        // Size was asserted at least once after all steps
}

func (x *run) nsteps() int { return len(x.c.Pre) + len(x.c.Ops) }

func (x *run) opAt(i int) Op {
	if i < len(x.c.Pre) {
		return Op{Kind: opUpsert, Key: x.c.Pre[i]}
	}
	return x.c.Ops[i-len(x.c.Pre)]
}

func (x *run) norm(k int) int {
	n := x.c.NKeys
	return ((k % n) + n) % n
}

// where describes the steps executed so far (the last 40 of them).
func (x *run) where(i int) string {
	var b strings.Builder
	fmt.Fprintf(&b, "comparator %s, keys 0..%d, after [", comps[x.c.Comp].name, x.c.NKeys-1)
	from := 0
	if i >= 40 {
		from = i - 39
		fmt.Fprintf(&b, "(%d earlier steps) ", from)
	}
	for j := from; j <= i && j < x.nsteps(); j++ {
		if j > from {
			b.WriteByte(' ')
		}
		op := x.opAt(j)
		switch op.Kind {
		case opUpsert:
			fmt.Fprintf(&b, "Upsert(%d,%d)", x.norm(op.Key), 1000+j)
		case opDelete:
			fmt.Fprintf(&b, "Delete(%d)", x.norm(op.Key))
		case opDeleteNth:
			if k, ok := x.nth[j]; ok {
				fmt.Fprintf(&b, "Delete(%d)", k)
			} else {
				fmt.Fprintf(&b, "DeleteNth(%d)", op.Key)
			}
		case opGet:
			fmt.Fprintf(&b, "Get(%d)", op.Key)
		default:
			b.WriteString(kindNames[op.Kind])
		}
	}
	b.WriteString("]")
	return b.String()
}

func (x *run) checkGet(i, k int) error {
	it, err := x.tree.Get(k)
	if x.m.present(k) {
		if err != nil || it.Key != k || it.Val != x.m.val[k] {
			return fmt.Errorf("%s: Get(%d) = ({%d %d}, %v), want ({%d %d}, nil): the key is present with that value",
				x.where(i), k, it.Key, it.Val, err, k, x.m.val[k])
		}
		return nil
	}
	if err == nil {
		return fmt.Errorf("%s: Get(%d) = ({%d %d}, nil), want not-found: the key is not present", x.where(i), k, it.Key, it.Val)
	}
	return nil
}

func (x *run) checkSize(i int, final bool) error {
	got := x.tree.Size()
	if x.tainted && x.r.KF(kfSize) {
		x.r.Excluded(kfSize)
		return nil
	}
	if got != len(x.m.order) {
		if x.tainted {
			return fmt.Errorf("%s: Size mismatch after Delete of an absent key: Size() = %d, want %d present keys %v",
				x.where(i), got, len(x.m.order), x.m.order)
		}
		return fmt.Errorf("%s: Size() = %d, want %d present keys %v (no Delete of an absent key so far)",
			x.where(i), got, len(x.m.order), x.m.order)
	}
	if final {
		x.sizeOK = true
	}
	return nil
}

func fmtItems(items []bstree.Item[int, int]) string {
	var b strings.Builder
	b.WriteByte('[')
	for j, it := range items {
		if j == 24 {
			fmt.Fprintf(&b, " ... (%d more)", len(items)-j)
			break
		}
		if j > 0 {
			b.WriteByte(' ')
		}
		fmt.Fprintf(&b, "%d:%d", it.Key, it.Val)
	}
	b.WriteByte(']')
	return b.String()
}

func (x *run) checkTraverse(i int) error {
	want := make([]bstree.Item[int, int], len(x.m.order))
	for j, k := range x.m.order {
		want[j] = bstree.Item[int, int]{Key: k, Val: x.m.val[k]}
	}
	limit := len(want) + 8   // items recorded
	hard := 2*len(want) + 64 // items after which the traversal is abandoned
	got := make([]bstree.Item[int, int], 0, len(want))
	n := 0
	aborted := func() (ab bool) {
		defer func() {
			if p := recover(); p != nil {
				if _, ok := p.(abortTraverse); ok {
					ab = true
					return
				}
				panic(p)
			}
		}()
		x.tree.Traverse(func(it bstree.Item[int, int]) {
			n++
			if n <= limit {
				got = append(got, it)
			}
			if n > hard {
				panic(abortTraverse{})
			}
		})
		return false
	}()
	if aborted {
		return fmt.Errorf("%s: Traverse delivered more than %d items for %d present keys (abandoned); first items %s, want %s",
			x.where(i), hard, len(want), fmtItems(got), fmtItems(want))
	}
	bad := n != len(want)
	for j := 0; !bad && j < len(want); j++ {
		bad = got[j] != want[j]
	}
	if bad {
		return fmt.Errorf("%s: Traverse visited %d items %s, want the %d present key:value pairs in comparator order %s",
			x.where(i), n, fmtItems(got), len(want), fmtItems(want))
	}
	return nil
}

// observe is the full observation: Get of every key of the alphabet and of two
// keys outside it, Size, Traverse.
func (x *run) observe(i int, final bool) error {
	for k := -1; k <= x.c.NKeys; k++ {
		if err := x.checkGet(i, k); err != nil {
			return err
		}
	}
	if err := x.checkSize(i, final); err != nil {
		return err
	}
	return x.checkTraverse(i)
}

// local looks up k and its neighbours in comparator order and reads Size.
func (x *run) local(i, k int) error {
	if err := x.checkGet(i, k); err != nil {
		return err
	}
	p := x.m.pos(k)
	for _, j := range []int{p - 1, p, p + 1} {
		if j >= 0 && j < len(x.m.order) && x.m.order[j] != k {
			if err := x.checkGet(i, x.m.order[j]); err != nil {
				return err
			}
		}
	}
	return x.checkSize(i, false)
}

func prop(c Case, r *pbt.R) error {
	if c.Comp < 0 || c.Comp >= len(comps) || c.NKeys < 1 || c.NKeys > 1<<16 || c.Watch < 0 || c.Watch > 1 {
		return fmt.Errorf("malformed case: comp %d, nkeys %d, watch %d", c.Comp, c.NKeys, c.Watch)
	}
	for _, o := range c.Ops {
		if o.Kind < 0 || o.Kind >= nKinds {
			return fmt.Errorf("malformed case: operation kind %d", o.Kind)
		}
	}
	cmp := comps[c.Comp]
	x := &run{c: c, r: r, tree: bstree.New[int, int](cmp.less), m: newModel(cmp.rank, c.NKeys)}
	sh := &shadow{rank: cmp.rank}
	deleted := make([]bool, c.NKeys)
	n := x.nsteps()
	stride := 1 + (c.NKeys+2)*n/obsBudget

	var (
		reUpsert, overwrite, delOthersRemain, delAbsent, delAbsentEmpty bool
		emptied, maxSize                                                = false, 0
		shapes                                                          delShape
		twoKinds                                                        [4]bool // [direct|deep][succ leaf|succ has right]
	)
	for i := 0; i < n; i++ {
		op := x.opAt(i)
		k := x.norm(op.Key)
		mutating := false
		switch op.Kind {
		case opUpsert:
			mutating = true
			if x.m.has[k] {
				overwrite = true
			} else {
				if deleted[k] {
					reUpsert = true
				}
				sh.insert(k)
			}
			x.m.put(k, 1000+i)
			x.tree.Upsert(k, 1000+i)
			if len(x.m.order) > maxSize {
				maxSize = len(x.m.order)
			}
		case opDelete, opDeleteNth:
			mutating = true
			if op.Kind == opDeleteNth {
				if len(x.m.order) > 0 {
					k = x.m.order[k%len(x.m.order)]
				}
				if x.nth == nil {
					x.nth = map[int]int{}
				}
				x.nth[i] = k
			}
			was := x.m.has[k]
			err := x.tree.Delete(k)
			if was && err != nil {
				return fmt.Errorf("%s: Delete(%d) returned %q for a present key, want nil", x.where(i), k, err)
			}
			if !was && err == nil {
				return fmt.Errorf("%s: Delete(%d) returned nil for an absent key, want not-found", x.where(i), k)
			}
			if was {
				d := sh.remove(k)
				x.m.del(k)
				deleted[k] = true
				shapes.root = shapes.root || d.root
				shapes.leaf = shapes.leaf || d.leaf
				shapes.leftOnly = shapes.leftOnly || d.leftOnly
				shapes.rightOnly = shapes.rightOnly || d.rightOnly
				if d.two {
					shapes.two = true
					j := 0
					if !d.succDirect {
						j = 2
					}
					if d.succHasRight {
						j++
					}
					twoKinds[j] = true
				}
				if len(x.m.order) > 0 {
					delOthersRemain = true
				} else {
					emptied = true
				}
			} else {
				delAbsent = true
				if len(x.m.order) == 0 {
					delAbsentEmpty = true
				}
				x.tainted = true
			}
		case opGet:
			if err := x.checkGet(i, op.Key); err != nil {
				return err
			}
		case opSize:
			if err := x.checkSize(i, false); err != nil {
				return err
			}
		case opTraverse:
			if err := x.checkTraverse(i); err != nil {
				return err
			}
		}
		if c.Watch == 1 && i < n-1 {
			if mutating {
				if err := x.local(i, k); err != nil {
					return err
				}
			}
			if (i+1)%stride == 0 {
				if err := x.observe(i, false); err != nil {
					return err
				}
			}
		}
	}
	if err := x.observe(n-1, true); err != nil {
		return err
	}

	// evidence
	r.NonTrivialIf(shapes.two, "delete: node with two children")
	r.NonTrivialIf(delOthersRemain, "delete, then look-up of the remaining keys")
	r.NonTrivialIf(reUpsert, "re-upsert of a deleted key")
	if twoKinds[0] {
		r.Label("delete 2 children: successor = right child, leaf")
	}
	if twoKinds[1] {
		r.Label("delete 2 children: successor = right child, has right subtree")
	}
	if twoKinds[2] {
		r.Label("delete 2 children: successor deeper, leaf")
	}
	if twoKinds[3] {
		r.Label("delete 2 children: successor deeper, has right subtree")
	}
	if shapes.root {
		r.Label("delete: root node")
	}
	if shapes.leaf {
		r.Label("delete: leaf")
	}
	if shapes.leftOnly {
		r.Label("delete: left child only")
	}
	if shapes.rightOnly {
		r.Label("delete: right child only")
	}
	if delAbsent {
		r.Label("delete: absent key")
	}
	if delAbsentEmpty {
		r.Label("delete: absent key, empty tree")
	}
	if overwrite {
		r.Label("upsert: overwrite present key")
	}
	if emptied && len(x.m.order) > 0 {
		r.Label("emptied and refilled")
	}
	if x.sizeOK {
		r.Label("Size asserted to the end")
	}
	r.Label("comparator " + cmp.name)
	if c.Watch == 1 {
		r.Label("observed after every step")
	}
	if len(c.Pre) > 0 {
		r.Label("preload " + preKinds[c.PreKind%len(preKinds)])
	}
	switch {
	case maxSize >= 100:
		r.Label("max size >= 100")
	case maxSize >= 20:
		r.Label("max size 20..99")
	case maxSize >= 4:
		r.Label("max size 4..19")
	}
	if maxSize >= 20 {
		if h := sh.height(); h >= 12 {
			r.Label("final height >= 12")
		}
	}
	return nil
}

// ---------------------------------------------------------------------------

// Hand-written boundary cases: a perfectly balanced 7-key tree taken apart from
// the root (every structural Delete case), for every comparator.
func fixedCases() []Case {
	var out []Case
	for comp := range comps {
		for watch := 0; watch < 2; watch++ {
			out = append(out,
				Case{Comp: comp, NKeys: 7, Watch: watch, PreKind: 4, Pre: []int{3, 1, 5, 0, 2, 4, 6}, Ops: []Op{
					{opDelete, 3}, {opGet, 4}, {opDelete, 4}, {opDelete, 5}, {opUpsert, 3}, {opDelete, 1}, {opTraverse, 0},
					{opDelete, 6}, {opDelete, 2}, {opDelete, 0}, {opSize, 0}, {opDelete, 3}, {opUpsert, 3}, {opUpsert, 3}}},
				Case{Comp: comp, NKeys: 6, Watch: watch, PreKind: 1, Pre: []int{0, 1, 2, 3, 4, 5}, Ops: []Op{
					{opDeleteNth, 0}, {opDeleteNth, 1}, {opUpsert, 0}, {opDelete, 0}, {opDelete, 0}, {opUpsert, 0}}},
				Case{Comp: comp, NKeys: 8, Watch: watch, Ops: []Op{
					{opUpsert, 1}, {opUpsert, 0}, {opUpsert, 6}, {opUpsert, 3}, {opUpsert, 2}, {opUpsert, 4}, {opUpsert, 5}, {opUpsert, 7},
					{opDelete, 1}, {opDelete, 2}, {opDelete, 3}, {opUpsert, 1}, {opDelete, 6}}},
			)
		}
	}
	return out
}

// ---------------------------------------------------------------------------
// other instantiations: string, float64 and uint8 keys, struct values, comparators with a twist

// TypesCase: Ops are (kind, key code): kind 0 Upsert(fresh value), 1 Delete, 2 Get. KT: 0 string keys ("k007") ascending,
// 1 float64 keys (c/4-3) descending, 2 uint8 keys ascending, 3 string keys ordered by (length, then bytes) - a strict total
// order that differs from the natural one, 4 float64 keys compared by integer part (ties), 5 float64 keys under (value, then
// sign bit), where -0.0 and +0.0 are different keys, 6 float64 keys that are neighbouring representable values.
type TypesCase struct {
	KT  int      `json:"kt"`
	N   int      `json:"n"`
	Ops [][2]int `json:"ops"`
}

type tval struct {
	A int
	B string
}

func runTypes[K cmp.Ordered](c TypesCase, name string, mk func(int) K, less func(a, b K) bool, r *pbt.R) error {
	n := c.N
	if n < 1 || n > 512 || len(c.Ops) > 5000 {
		return nil
	}
	t := bstree.New[K, tval](less)
	model := map[int]tval{}
	next, absentDeleted := 0, false
	carve := r.KF(kfSize)
	for i, op := range c.Ops {
		k := ((op[1] % n) + n) % n
		ctx := func() string { return fmt.Sprintf("bstree.New[%s, struct] after %d of ops %v", name, i+1, c.Ops) }
		switch ((op[0] % 3) + 3) % 3 {
		case 0:
			next++
			v := tval{A: next, B: fmt.Sprint("v", next)}
			t.Upsert(mk(k), v)
			model[k] = v
		case 1:
			err := t.Delete(mk(k))
			_, present := model[k]
			if present != (err == nil) {
				return fmt.Errorf("%s: Delete(%v) returned %v, the key is present: %v", ctx(), mk(k), err, present)
			}
			if !present {
				absentDeleted = true
			}
			delete(model, k)
		default:
			got, err := t.Get(mk(k))
			want, present := model[k]
			if present != (err == nil) || (present && (got.Val != want || less(got.Key, mk(k)) || less(mk(k), got.Key))) {
				return fmt.Errorf("%s: Get(%v) = (%v, %v), want (%v, present %v)", ctx(), mk(k), got, err, want, present)
			}
		}
		if absentDeleted && carve {
			r.Excluded(kfSize)
		} else if t.Size() != len(model) {
			return fmt.Errorf("%s: Size() = %d, want %d", ctx(), t.Size(), len(model))
		}
	}
	var keys []K
	t.Traverse(func(it bstree.Item[K, tval]) {
		if len(keys) <= len(model)+4 {
			keys = append(keys, it.Key)
		}
	})
	if len(keys) != len(model) {
		return fmt.Errorf("bstree.New[%s, struct] after ops %v: Traverse visits %d keys, want %d", name, c.Ops, len(keys), len(model))
	}
	for i := 1; i < len(keys); i++ {
		if !less(keys[i-1], keys[i]) {
			return fmt.Errorf("bstree.New[%s, struct] after ops %v: Traverse visits %v before %v, against the comparator", name, c.Ops, keys[i-1], keys[i])
		}
	}
	r.NonTrivialIf(len(model) >= 3, ">= 3 keys at the end")
	return nil
}

// runTies: keys c/2 (0, 0.5, 1, 1.5, ...) under "integer part of a < integer part of b": 2j and 2j+1 are one key.
func runTies(c TypesCase, r *pbt.R) error {
	n := c.N
	if n < 1 || n > 512 || len(c.Ops) > 5000 {
		return nil
	}
	less := func(a, b float64) bool { return math.Floor(a) < math.Floor(b) }
	mk := func(i int) float64 { return float64(i) / 2 }
	t := bstree.New[float64, int](less)
	model := map[int]int{} // class (integer part) -> value
	next, absentDeleted := 0, false
	carve := r.KF(kfSize)
	sawTie := false
	for i, op := range c.Ops {
		k := ((op[1] % n) + n) % n
		cls := k / 2
		ctx := func() string {
			return fmt.Sprintf("bstree.New[float64, int] with keys compared by integer part, after %d of ops %v (key code c = c/2)", i+1, c.Ops)
		}
		switch ((op[0] % 3) + 3) % 3 {
		case 0:
			next++
			if _, ok := model[cls]; ok {
				sawTie = true
			}
			t.Upsert(mk(k), next)
			model[cls] = next
		case 1:
			err := t.Delete(mk(k))
			_, present := model[cls]
			if present != (err == nil) {
				return fmt.Errorf("%s: Delete(%v) returned %v; a key equivalent to it is present: %v", ctx(), mk(k), err, present)
			}
			if !present {
				absentDeleted = true
			}
			delete(model, cls)
		default:
			got, err := t.Get(mk(k))
			want, present := model[cls]
			if present != (err == nil) || (present && (got.Val != want || math.Floor(got.Key) != float64(cls))) {
				return fmt.Errorf("%s: Get(%v) = (%v, %v), want value %d (an equivalent key is present: %v)", ctx(), mk(k), got, err, want, present)
			}
		}
		if absentDeleted && carve {
			r.Excluded(kfSize)
		} else if t.Size() != len(model) {
			return fmt.Errorf("%s: Size() = %d, want %d keys (equivalence classes)", ctx(), t.Size(), len(model))
		}
	}
	var classes []float64
	t.Traverse(func(it bstree.Item[float64, int]) {
		if len(classes) <= len(model)+4 {
			classes = append(classes, math.Floor(it.Key))
			if want, ok := model[int(math.Floor(it.Key))]; !ok || want != it.Val {
				classes = append(classes, -1) // wrong value: forces the length test below to fail
			}
		}
	})
	if len(classes) != len(model) {
		return fmt.Errorf("bstree.New[float64, int] with keys compared by integer part, after ops %v: Traverse visits %v (integer parts; -1 marks a stale value), want each of the %d keys once with its current value", c.Ops, classes, len(model))
	}
	for i := 1; i < len(classes); i++ {
		if !(classes[i-1] < classes[i]) {
			return fmt.Errorf("bstree.New[float64, int] with keys compared by integer part, after ops %v: Traverse order %v", c.Ops, classes)
		}
	}
	r.NonTrivialIf(sawTie, "Upsert of a key equivalent to, but different from, a stored one")
	return nil
}

func typesProp(c TypesCase, r *pbt.R) error {
	if ((c.KT%7)+7)%7 == 4 {
		return runTies(c, r)
	}
	switch ((c.KT % 7) + 7) % 7 {
	case 5:
		// -0.0 and +0.0 are two keys under a comparator that looks at the sign bit (the language's == calls them equal)
		return runTypes(c, "float64 under (value, then sign bit): -0.0 precedes +0.0", func(i int) float64 {
			switch {
			case i < 3:
				return float64(i-3) / 2
			case i == 3:
				return math.Copysign(0, -1)
			}
			return float64(i-4) / 2
		}, func(a, b float64) bool { return a < b || (a == b && math.Signbit(a) && !math.Signbit(b)) }, r)
	case 6:
		return runTypes(c, "float64 (neighbouring representable values at 0.3)", func(i int) float64 { return math.Float64frombits(math.Float64bits(0.3) + uint64(i)) },
			func(a, b float64) bool { return a < b }, r)
	case 0:
		return runTypes(c, "string", func(i int) string { return fmt.Sprintf("k%03d", i) }, func(a, b string) bool { return a < b }, r)
	case 1:
		return runTypes(c, "float64 (descending)", func(i int) float64 { return float64(i)/4 - 3 }, func(a, b float64) bool { return a > b }, r)
	case 2:
		return runTypes(c, "uint8", func(i int) uint8 { return uint8(i % 85 * 3) }, func(a, b uint8) bool { return a < b }, r)
	default:
		return runTypes(c, "string ordered by length, then bytes", func(i int) string {
			return strings.Repeat("z", i%4) + string(rune('a'+i/4%26)) + strings.Repeat("y", i/104)
		},
			func(a, b string) bool {
				if len(a) != len(b) {
					return len(a) < len(b)
				}
				return a < b
			}, r)
	}
}

func typesGen(s pbt.Src, thorough bool) TypesCase {
	c := TypesCase{KT: s.Intn(7), N: pbt.Pick(s, 3, 6, 20, 80)}
	max := 150
	if thorough {
		max = 600
	}
	c.Ops = pbt.Seq(s, 1, max, func(s pbt.Src) [2]int { return [2]int{pbt.Pick(s, 0, 0, 0, 1, 2), s.Intn(c.N)} })
	return c
}

// ---------------------------------------------------------------------------
// Traverse while another goroutine edits OTHER keys: the keys that are present throughout are visited once each, in order

type TravCase struct {
	N     int   `json:"n"`     // keys 0..N-1 are inserted in the order given by Order
	Order []int `json:"order"` // insertion order as a Lehmer-like code (taken modulo the remaining count)
	Slow  int   `json:"slow"`  // the callback sleeps 200us at every Slow-th item (0: yields only)
}

func travGen(s pbt.Src, thorough bool) TravCase {
	n := 8 + s.Intn(40)
	return TravCase{N: n, Order: pbt.Seq(s, n, n, func(s pbt.Src) int { return s.Intn(n) }), Slow: s.Intn(4)}
}

func travProp(c TravCase, r *pbt.R) error {
	n := c.N
	if n < 4 || n > 256 || len(c.Order) < n {
		return nil
	}
	t := bstree.New[int, int](func(a, b int) bool { return a < b })
	rest := make([]int, n)
	for i := range rest {
		rest[i] = i
	}
	for i := 0; i < n; i++ {
		j := ((c.Order[i] % len(rest)) + len(rest)) % len(rest)
		t.Upsert(rest[j], 100+rest[j])
		rest = append(rest[:j], rest[j+1:]...)
	}
	// the writer deletes and re-inserts the ODD keys; the even keys are never touched
	stop := make(chan struct{})
	done := make(chan struct{})
	go func() {
		defer close(done)
		for round := 0; ; round++ {
			for k := 1; k < n; k += 2 {
				select {
				case <-stop:
					return
				default:
				}
				if (round+k/2)%2 == 0 {
					t.Delete(k)
				} else {
					t.Upsert(k, 100+k)
				}
			}
		}
	}()
	var visited []int
	for pass := 0; pass < 3; pass++ {
		visited = visited[:0]
		count := 0
		t.Traverse(func(it bstree.Item[int, int]) {
			count++
			if len(visited) < 2*n {
				visited = append(visited, it.Key)
			}
			if c.Slow > 0 && count%c.Slow == 0 {
				time.Sleep(200 * time.Microsecond)
			} else {
				runtime.Gosched()
			}
		})
		seen := map[int]int{}
		for i, k := range visited {
			seen[k]++
			if i > 0 && visited[i-1] >= k {
				close(stop)
				<-done
				return fmt.Errorf("Traverse while another goroutine deletes and re-inserts the odd keys of 0..%d: keys visited out of order or twice: %v", n-1, visited)
			}
		}
		for k := 0; k < n; k += 2 {
			if seen[k] != 1 {
				close(stop)
				<-done
				return fmt.Errorf("Traverse while another goroutine deletes and re-inserts the odd keys of 0..%d (the even keys are never touched): key %d, present throughout, was visited %d times; visited %v", n-1, k, seen[k], visited)
			}
		}
	}
	close(stop)
	<-done
	r.NonTrivial()
	return nil
}

// ---------------------------------------------------------------------------
// endurance: ONE tree lives through tens of thousands of insertions and removals

// EnduranceCase: Resident keys stay in the tree for the whole case; Churn further keys are upserted and deleted again
// (each lives for Lag later insertions), in ascending, descending or scattered order. The residents are looked up, Size is
// read and Traverse is counted at checkpoints: every 4096 removals, and after every removal in the neighbourhoods of the
// 4096th, 32768th and 65536th one.
type EnduranceCase struct {
	Resident int  `json:"resident"`
	Churn    int  `json:"churn"`
	Lag      int  `json:"lag"`
	Order    int  `json:"order"`
	Desc     bool `json:"desc"`
}

func enduranceProp(c EnduranceCase, r *pbt.R) error {
	res, churn, lag := 1+((c.Resident-1)%200+200)%200, ((c.Churn%150000)+150000)%150000, 1+((c.Lag-1)%64+64)%64
	less := func(a, b int) bool { return a < b }
	if c.Desc {
		less = func(a, b int) bool { return a > b }
	}
	t := bstree.New[int, int](less)
	// residents: odd multiples of 1000003 spread over the key space; churn keys: even numbers
	resKey := func(i int) int { return (2*i+1)*1000003 - 50000000 }
	for i := 0; i < res; i++ {
		t.Upsert(resKey(i), -i)
	}
	churnKey := func(i int) int {
		switch ((c.Order % 3) + 3) % 3 {
		case 0:
			return 2 * i
		case 1:
			return -2 * i
		}
		return 2 * ((i * 7919) % 1000003)
	}
	live := 0
	check := func(removed int) error {
		ctx := fmt.Sprintf("one bstree (descending comparator: %v) with %d resident keys, after %d removals of short-lived keys (each removed %d insertions after its own)", c.Desc, res, removed, lag)
		if got := t.Size(); got != res+live {
			return fmt.Errorf("%s: Size() = %d, want %d", ctx, got, res+live)
		}
		for i := 0; i < res; i++ {
			if it, err := t.Get(resKey(i)); err != nil || it.Val != -i {
				return fmt.Errorf("%s: Get(resident key %d) = (%v, %v), want the value %d", ctx, resKey(i), it, err, -i)
			}
		}
		n := 0
		t.Traverse(func(bstree.Item[int, int]) { n++ })
		if n != res+live {
			return fmt.Errorf("%s: Traverse visited %d items, want %d", ctx, n, res+live)
		}
		return nil
	}
	removed := 0
	for i := 0; i < churn+lag; i++ {
		if i < churn {
			t.Upsert(churnKey(i), i)
			live++
		}
		if j := i - lag; j >= 0 && j < churn {
			if err := t.Delete(churnKey(j)); err != nil {
				return fmt.Errorf("one bstree with %d resident keys: Delete(%d) of a present key returned %v after %d removals", res, churnKey(j), err, removed)
			}
			live--
			removed++
			near := false
			for _, m := range []int{4096, 32768, 65536, 131072} {
				if removed >= m-2 && removed <= m+2 {
					near = true
				}
			}
			if near || removed%4096 == 0 {
				if err := check(removed); err != nil {
					return err
				}
			}
		}
	}
	if err := check(removed); err != nil {
		return err
	}
	r.NonTrivialIf(removed >= 4096, ">= 4096 removals on the one tree")
	if removed >= 65536 {
		r.Label(">= 65536 removals")
	}
	return nil
}

// ---------------------------------------------------------------------------
// bigtraverse: Traverse over thousands of keys with a consumer that is slow now and then

// BigTravCase: N keys (a scattered insertion order), the callback pauses at the items whose positions are listed in Slow.
type BigTravCase struct {
	N    int   `json:"n"`
	Slow []int `json:"slow"`
	Desc bool  `json:"desc"`
}

func bigTravProp(c BigTravCase, r *pbt.R) error {
	n := 1 + ((c.N-1)%20000+20000)%20000
	less := func(a, b int) bool { return a < b }
	if c.Desc {
		less = func(a, b int) bool { return a > b }
	}
	t := bstree.New[int, int](less)
	for i := 0; i < n; i++ {
		k := (i * 7919) % n // a permutation of 0..n-1 when n and 7919 are coprime; repeats only overwrite
		t.Upsert(k, 3*k+1)
	}
	present := t.Size()
	slow := map[int]bool{}
	for _, p := range c.Slow {
		slow[((p%n)+n)%n] = true
	}
	pos, bad := 0, ""
	prev := 0
	t.Traverse(func(it bstree.Item[int, int]) {
		if slow[pos] {
			time.Sleep(300 * time.Microsecond)
		}
		if bad == "" {
			if it.Val != 3*it.Key+1 {
				bad = fmt.Sprintf("item %d is {%d %d}: not the value stored under that key", pos, it.Key, it.Val)
			} else if pos > 0 && !less(prev, it.Key) {
				bad = fmt.Sprintf("item %d has the key %d after the key %d: not in comparator order (or visited twice)", pos, it.Key, prev)
			}
		}
		prev = it.Key
		pos++
	})
	ctx := fmt.Sprintf("bstree of %d keys (descending comparator: %v), Traverse with a callback that pauses at the positions %v", present, c.Desc, c.Slow)
	if bad != "" {
		return fmt.Errorf("%s: %s", ctx, bad)
	}
	if pos != present {
		return fmt.Errorf("%s: visited %d items, want %d", ctx, pos, present)
	}
	r.NonTrivialIf(present > 1024, "more than 1024 keys")
	return nil
}

// ---------------------------------------------------------------------------
// ptrvalues: values are pointers - the most recently upserted POINTER is what Get and Traverse hand out

// PtrValCase: Ops are (kind, key): 0 Upsert(k, a NEW pointer to the integer k%3), 1 Delete(k), 2 Get(k).
type PtrValCase struct {
	N   int      `json:"n"`
	Ops [][2]int `json:"ops"`
}

func ptrValProp(c PtrValCase, r *pbt.R) error {
	n := c.N
	if n < 1 || n > 512 || len(c.Ops) > 5000 {
		return nil
	}
	t := bstree.New[int, *int](func(a, b int) bool { return a < b })
	model := map[int]*int{}
	again, absentDeleted := false, false
	carve := r.KF(kfSize)
	for i, op := range c.Ops {
		k := ((op[1] % n) + n) % n
		ctx := func() string {
			return fmt.Sprintf("bstree.New[int, *int] over keys 0..%d, after %d of ops %v (0 Upsert a new pointer to k%%3, 1 Delete, 2 Get)", n-1, i+1, c.Ops)
		}
		switch ((op[0] % 3) + 3) % 3 {
		case 0:
			v := new(int)
			*v = k % 3
			if _, ok := model[k]; ok {
				again = true
			}
			t.Upsert(k, v)
			model[k] = v
		case 1:
			err := t.Delete(k)
			if _, present := model[k]; present != (err == nil) {
				return fmt.Errorf("%s: Delete(%d) returned %v, the key is present: %v", ctx(), k, err, present)
			} else if !present {
				absentDeleted = true
			}
			delete(model, k)
		default:
			got, err := t.Get(k)
			want, present := model[k]
			if present != (err == nil) || (present && got.Val != want) {
				return fmt.Errorf("%s: Get(%d) = (%p, %v), want the pointer upserted last (%p, present %v); both point to %d", ctx(), k, got.Val, err, want, present, k%3)
			}
		}
		if absentDeleted && carve {
			r.Excluded(kfSize)
		} else if t.Size() != len(model) {
			return fmt.Errorf("%s: Size() = %d, want %d", ctx(), t.Size(), len(model))
		}
	}
	cnt := 0
	t.Traverse(func(it bstree.Item[int, *int]) {
		if want, ok := model[it.Key]; ok && want == it.Val {
			cnt++
		} else {
			cnt += 1000000
		}
	})
	if cnt != len(model) {
		return fmt.Errorf("bstree.New[int, *int] after ops %v: Traverse does not visit exactly the %d present keys with the pointers upserted last", c.Ops, len(model))
	}
	r.NonTrivialIf(again, "a present key was upserted again with another pointer to an equal integer")
	return nil
}

func TestProp(t *testing.T) {
	// A Traverse hands every item from an internal goroutine to the caller; with
	// 16 shard processes on the machine a small GOMAXPROCS avoids the cost of
	// waking idle Ps for every hand-over. The tree is used by one goroutine only.
	runtime.GOMAXPROCS(1)
	pbt.Run(t, "C04",
		&pbt.Check[Case]{
			Name: "ordered-map",
			Rule: "Upsert(k, fresh value)/Delete(k) sequences on a bstree.BsTree[int,int] against a reference model (value table + present keys sorted by the comparator's rank); " +
				"after the last step (every prefix is itself a case) and, with watch=1, also after the steps: Get of every key of the alphabet and of two never-upserted keys, Size, the Traverse sequence; every Delete result. " +
				"Comparators: a<b, a>b and the scrambled total order (a^0x155)<(b^0x155). " +
				"Enumerated: every Upsert/Delete sequence up to length 6 over keys 0..4 (thorough: up to length 7 over keys 0..5) x 3 comparators x watch 0/1 (observers only at the end / after every step). " +
				"Random: key ranges 2..400, optional preload (sorted, reversed, random, balanced insertion order), up to 120 (300) operations Upsert/Delete/Delete-of-the-nth-present-key/Get/Size/Traverse. " +
				"Non-trivial = a Delete hit a node with two children (per a textbook shadow tree used for labelling only), or a successful Delete left other keys that were then looked up, or a deleted key was upserted again. " +
				"Distinct = enumerated cases (injective encoding) + hash-distinct random cases outside the enumerated scope. " +
				"Known finding " + kfSize + ": Size is not asserted after the first Delete of an absent key of a case.",
			Enum: enum, Gen: gen, Prop: prop, OutOfEnum: outOfEnum,
			RapidQuick: 3000, RapidThorough: 40000,
			Fixed: fixedCases(),
		},
		&pbt.Check[TypesCase]{
			Name: "types",
			Rule: "the same ordered-map semantics on other instantiations: bstree.New[K, struct] with K = string ascending, float64 descending (negative, zero, fractional keys), uint8, strings ordered by (length, bytes), float64 keys compared by their integer part only (a strict weak order with ties: equivalent keys are one key), float64 keys under (value, then sign bit), where -0.0 and +0.0 are two keys although == calls them equal, and float64 keys that are neighbouring representable values; random Upsert/Delete/Get sequences of up to 150 (600) operations over 3..80 keys against a Go map: results of every call, Size after every call (subject to the known finding), Traverse in comparator order at the end. Non-trivial = >= 3 keys at the end.",
			Gen:  typesGen, Prop: typesProp, OutOfEnum: func(TypesCase, bool) bool { return true },
			RapidQuick: 400, RapidThorough: 5000,
		},
		&pbt.Check[TravCase]{
			Name: "traverse-concurrent",
			Rule: "free-running (real scheduler): a tree of 8..47 keys built in a random insertion order; one goroutine keeps deleting and re-inserting the ODD keys while Traverse runs three times with a callback that yields or sleeps 200us: every EVEN key (present throughout, never touched) is visited exactly once and the visited keys are strictly ascending. " +
				"(Whether an odd key is seen is up to the interleaving.) Non-trivial = every case.",
			Gen: travGen, Prop: travProp, OutOfEnum: func(TravCase, bool) bool { return true },
			RapidQuick: 8, RapidThorough: 100,
		},
		&pbt.Check[PtrValCase]{
			Name: "ptrvalues",
			Rule: "bstree.New[int, *int]: every Upsert stores a NEW pointer to the integer k%3, so a present key is regularly upserted again with a different pointer to an equal integer; Get and Traverse must hand out the pointer upserted last (identity), Delete and Size as in the model (Size subject to the open finding). Random: up to 100 (400) operations over 2..30 keys. Non-trivial = a re-Upsert happened.",
			Gen: func(s pbt.Src, thorough bool) PtrValCase {
				max := 100
				if thorough {
					max = 400
				}
				c := PtrValCase{N: pbt.Pick(s, 2, 5, 12, 30)}
				c.Ops = pbt.Seq(s, 1, max, func(s pbt.Src) [2]int { return [2]int{pbt.Pick(s, 0, 0, 0, 1, 2, 2), s.Intn(c.N)} })
				return c
			},
			Prop: ptrValProp, OutOfEnum: func(PtrValCase, bool) bool { return true },
			RapidQuick: 600, RapidThorough: 8000,
		},
		&pbt.Check[BigTravCase]{
			Name: "bigtraverse",
			Rule: "a tree of up to 20000 keys built in a scattered order; Traverse with a callback that pauses (300us) at chosen positions, so that whatever produces the items runs ahead of the consumer: every key once, with its value, in comparator order. Fixed: 1023, 1024, 1025, 3000 and 5000 keys pausing at the first item; random: sizes around 1024, 2048, 4096 and up to 20000 with 0..4 pauses. Non-trivial = more than 1024 keys.",
			Gen: func(s pbt.Src, _ bool) BigTravCase {
				return BigTravCase{N: pbt.Pick(s, 100, 1023, 1025, 2049, 4097, 9000, 20000), Slow: pbt.Seq(s, 0, 4, func(s pbt.Src) int { return pbt.Pick(s, 0, 1, 1023, 1024, 1025, 2048) }), Desc: pbt.Bool(s)}
			},
			Prop: bigTravProp, OutOfEnum: func(BigTravCase, bool) bool { return true },
			Fixed:      []BigTravCase{{1023, []int{0}, false}, {1024, []int{0}, false}, {1025, []int{0}, false}, {3000, []int{0}, true}, {5000, []int{0, 1024}, false}},
			RapidQuick: 4, RapidThorough: 60,
		},
		&pbt.Check[EnduranceCase]{
			Name: "endurance",
			Rule: "ONE tree with 1..200 resident keys lives through up to 70000 (thorough 140000) insertions and removals of short-lived keys (ascending, descending or scattered; each removed 1..64 insertions after its own; either comparator): every Delete of a present key succeeds, and at checkpoints (every 4096 removals and after each removal within 2 of the 4096th, 32768th, 65536th, 131072nd) Size, Get of every resident key and the number of items Traverse visits are right. Fixed: 70000 removals with 8 residents; random: a few more. Non-trivial = at least 4096 removals.",
			Gen: func(s pbt.Src, thorough bool) EnduranceCase {
				churn := pbt.Pick(s, 5000, 9000, 70000)
				if thorough {
					churn = pbt.Pick(s, 9000, 70000, 140000)
				}
				return EnduranceCase{Resident: pbt.Pick(s, 1, 2, 8, 100), Churn: churn, Lag: 1 + s.Intn(64), Order: s.Intn(3), Desc: pbt.Bool(s)}
			},
			Prop: enduranceProp, OutOfEnum: func(EnduranceCase, bool) bool { return true },
			Fixed:      []EnduranceCase{{Resident: 8, Churn: 70000, Lag: 4, Order: 2}, {Resident: 1, Churn: 70000, Lag: 1, Order: 0, Desc: true}},
			RapidQuick: 4, RapidThorough: 40,
		},
	)
}
