// C14: map helpers select, transform and invert entries exactly.
//
// Every sub-check builds fresh Go maps from a canonical entry list (the model: entries sorted
// by key, keys unique), calls the helpers and compares what they return with references computed
// on the entry list only. Every case is executed three times with three different insertion
// orders, because Go randomises map iteration and the oracle has to hold for every order.
package c14

import (
	"fmt"
	"sort"
	"testing"

	"github.com/esimov/gogu"
	"verif/pbt"
)

// reps is the number of executions of every case (fresh maps, different insertion order each time).
const reps = 3

// P is one map entry {key, value}.
type P [2]int

// img is the result type of the value and key transformations (distinct from int on purpose).
type img int

// ---------------------------------------------------------------------------
// model helpers

// canon resolves duplicate keys (the last pair wins) and sorts the entries by key.
func canon(ps []P) []P {
	sorted := true
	for i := 1; i < len(ps); i++ {
		if ps[i-1][0] >= ps[i][0] {
			sorted = false
			break
		}
	}
	if sorted {
		return ps // already canonical (every enumerated map is); never modified afterwards
	}
	out := make([]P, 0, len(ps))
next:
	for _, p := range ps {
		for i := range out {
			if out[i][0] == p[0] {
				out[i][1] = p[1]
				continue next
			}
		}
		out = append(out, p)
	}
	for i := 1; i < len(out); i++ {
		for j := i; j > 0 && out[j][0] < out[j-1][0]; j-- {
			out[j], out[j-1] = out[j-1], out[j]
		}
	}
	return out
}

// build makes a fresh map; the insertion order depends on rep (ascending, descending, odd
// positions first) so that the randomised iteration starts from different layouts.
func build(es []P, rep int) map[int]int {
	m := map[int]int{}
	n := len(es)
	switch rep % 3 {
	case 0:
		for i := 0; i < n; i++ {
			m[es[i][0]] = es[i][1]
		}
	case 1:
		for i := n - 1; i >= 0; i-- {
			m[es[i][0]] = es[i][1]
		}
	default:
		for i := 1; i < n; i += 2 {
			m[es[i][0]] = es[i][1]
		}
		for i := 0; i < n; i += 2 {
			m[es[i][0]] = es[i][1]
		}
	}
	return m
}

func buildAll(ms [][]P, rep int) []map[int]int {
	out := make([]map[int]int, len(ms))
	for i, es := range ms {
		out[i] = build(es, rep+i)
	}
	return out
}

func canonAll(ms [][]P) [][]P {
	out := make([][]P, len(ms))
	for i, m := range ms {
		out[i] = canon(m)
	}
	return out
}

func in(xs []int, x int) bool {
	for _, y := range xs {
		if y == x {
			return true
		}
	}
	return false
}

func lookup(es []P, k int) (int, bool) {
	for _, e := range es {
		if e[0] == k {
			return e[1], true
		}
	}
	return 0, false
}

func mod(a, n int) int {
	a %= n
	if a < 0 {
		a += n
	}
	return a
}

// tab reads a function table: i -> t[i mod len(t)] (identity for an empty table).
func tab(t []int, i int) int {
	if len(t) == 0 {
		return i
	}
	return t[mod(i, len(t))]
}

func sameMap(got map[int]int, want []P) bool {
	if len(got) != len(want) {
		return false
	}
	for _, e := range want {
		if v, ok := got[e[0]]; !ok || v != e[1] {
			return false
		}
	}
	return true
}

func sameSeq(got []map[int]int, want [][]P) bool {
	if len(got) != len(want) {
		return false
	}
	for i := range want {
		if !sameMap(got[i], want[i]) {
			return false
		}
	}
	return true
}

func equalEntries(a, b []P) bool {
	if len(a) != len(b) {
		return false
	}
	for i := range a {
		if a[i] != b[i] {
			return false
		}
	}
	return true
}

func sortedCopy(xs []int) []int {
	out := append([]int{}, xs...)
	sort.Ints(out)
	return out
}

func equalInts(a, b []int) bool {
	if len(a) != len(b) {
		return false
	}
	for i := range a {
		if a[i] != b[i] {
			return false
		}
	}
	return true
}

func valuesOf(es []P) []int {
	out := make([]int, len(es))
	for i, e := range es {
		out[i] = e[1]
	}
	return out
}

func distinct(sorted []int) []int {
	out := []int{}
	for i, v := range sorted {
		if i == 0 || v != sorted[i-1] {
			out = append(out, v)
		}
	}
	return out
}

// show prints an entry list the way fmt prints a map (keys sorted).
func show(es []P) string {
	m := make(map[int]int, len(es))
	for _, e := range es {
		m[e[0]] = e[1]
	}
	return fmt.Sprint(m)
}

func showSeq(ms [][]P) string {
	s := "["
	for i, es := range ms {
		if i > 0 {
			s += " "
		}
		s += show(es)
	}
	return s + "]"
}

// predVals is the family of predicates on whole maps (PartitionMap, Filter2DMapCollection);
// every member is a function of the multiset of values only.
// mode 0: some value is in vs; mode 1: every value is in vs; mode 2: the number of entries is in vs.
func predVals(mode int, vs []int, vals []int) bool {
	switch mod(mode, 3) {
	case 0:
		for _, v := range vals {
			if in(vs, v) {
				return true
			}
		}
		return false
	case 1:
		for _, v := range vals {
			if !in(vs, v) {
				return false
			}
		}
		return true
	default:
		return in(vs, len(vals))
	}
}

func mapPred(mode int, vs []int) func(map[int]int) bool {
	return func(m map[int]int) bool {
		var buf [8]int
		vals := buf[:0]
		for _, v := range m {
			vals = append(vals, v)
		}
		return predVals(mode, vs, vals)
	}
}

var modeNames = []string{"some value in vs", "every value in vs", "len in vs"}

// ---------------------------------------------------------------------------
// generators

// bounds of the enumerated single-map scope: keys 0..nk-1, values 0..nv-1.
func bounds(thorough bool) (nk, nv int) {
	if thorough {
		return 5, 4
	}
	return 4, 3
}

// enumMap: every key is absent or carries one of nv values ((nv+1)^nk maps, injective).
func enumMap(s pbt.Src, nk, nv int) []P {
	m := make([]P, 0, nk)
	for k := 0; k < nk; k++ {
		if c := s.Intn(nv + 1); c > 0 {
			m = append(m, P{k, c - 1})
		}
	}
	return m
}

// enumSet: every subset of 0..n-1 as a sorted list.
func enumSet(s pbt.Src, n int) []int {
	bits := s.Intn(1 << n)
	out := make([]int, 0, n)
	for i := 0; i < n; i++ {
		if bits>>i&1 == 1 {
			out = append(out, i)
		}
	}
	return out
}

// random scope: keys -4..19, values 0..5, up to 20 pairs (a repeated key overwrites).
const (
	rndKeys   = 24
	rndKeyOff = 4
	rndVals   = 6
	rndMaxLen = 20
)

func genKey(s pbt.Src) int { return s.Intn(rndKeys) - rndKeyOff }

func genMap(s pbt.Src, maxLen int) []P {
	// one map in sixteen (where the caller allows 20 pairs) is large: hundreds to a few thousand entries
	if maxLen >= rndMaxLen && s.Intn(16) == 0 {
		n := []int{63, 64, 65, 255, 256, 257, 1000, 2048}[s.Intn(8)]
		a, b, nv := 1+s.Intn(5), s.Intn(7), 2+s.Intn(rndVals-1)
		out := make([]P, n)
		for i := range out {
			out[i] = P{i - rndKeyOff, (a*i*i + b*i) % nv}
		}
		return out
	}
	return pbt.Seq(s, 0, maxLen, func(s pbt.Src) P { return P{genKey(s), s.Intn(rndVals)} })
}

func genValSet(s pbt.Src) []int {
	return pbt.Seq(s, 0, rndVals, func(s pbt.Src) int { return s.Intn(rndVals + 1) })
}

func genKeySet(s pbt.Src) []int {
	return pbt.Seq(s, 0, 12, genKey)
}

func mapOutside(es []P, nk, nv int) bool {
	for _, e := range es {
		if e[0] < 0 || e[0] >= nk || e[1] < 0 || e[1] >= nv {
			return true
		}
	}
	return false
}

// enumerated collections: 0..2 maps over the full quick domain (4 keys x 3 values), plus exactly
// 3 maps over a reduced domain (quick: 3 keys x 2 values, thorough: 4 keys x 2 values).
func collBounds(thorough bool) (nk3, nv3 int) {
	if thorough {
		return 4, 2
	}
	return 3, 2
}

func enumColl(s pbt.Src, thorough bool) [][]P {
	n := s.Intn(4)
	out := make([][]P, n)
	nk, nv := 4, 3
	if n == 3 {
		nk, nv = collBounds(thorough)
	}
	for i := range out {
		out[i] = enumMap(s, nk, nv)
	}
	return out
}

func genColl(s pbt.Src) [][]P {
	return pbt.Seq(s, 0, 6, func(s pbt.Src) []P { return genMap(s, 10) })
}

func collOutside(ms [][]P, thorough bool) bool {
	if len(ms) > 3 {
		return true
	}
	nk, nv := 4, 3
	if len(ms) == 3 {
		nk, nv = collBounds(thorough)
	}
	for _, m := range ms {
		if mapOutside(canon(m), nk, nv) {
			return true
		}
	}
	return false
}

func collLabels(r *pbt.R, ms [][]P) {
	empty, equal := false, false
	for i, es := range ms {
		if len(es) == 0 {
			empty = true
		}
		for j := 0; j < i; j++ {
			if equalEntries(es, ms[j]) {
				equal = true
			}
		}
	}
	if empty {
		r.Label("collection holds an empty map")
	}
	if equal {
		r.Label("collection holds two equal maps")
	}
}

// ---------------------------------------------------------------------------
// check "valpred": MapEvery, MapSome, MapContains, FilterMap, Find, FindKey

type ValPredCase struct {
	M     []P   `json:"m"`
	VS    []int `json:"vs"`    // the predicate holds exactly for these values
	Probe int   `json:"probe"` // the value MapContains looks for
}

func valPredProp(c ValPredCase, r *pbt.R) error {
	es := canon(c.M)
	p := func(v int) bool { return in(c.VS, v) }
	var q []P // qualifying entries, ascending keys
	contains := false
	for _, e := range es {
		if p(e[1]) {
			q = append(q, e)
		}
		if e[1] == c.Probe {
			contains = true
		}
	}
	every, some := len(q) == len(es), len(q) > 0
	r.NonTrivialIf(len(es) >= 2, ">= 2 entries")
	switch {
	case len(q) == 0:
		r.Label("no entry qualifies")
	case every:
		r.Label("every entry qualifies")
	default:
		r.Label("predicate splits the map")
	}
	if len(q) >= 2 {
		r.Label(">= 2 entries qualify (FindKey is free, Find is not)")
	}
	if v, ok := lookup(es, 0); ok && !p(v) && some {
		r.Label("zero key present but not qualifying, another qualifies")
	}
	if contains {
		r.Label("probe value present")
	}
	for rep := 0; rep < reps; rep++ {
		where := func() string { return fmt.Sprintf("m=%s, predicate: value in %v (run %d)", show(es), c.VS, rep) }
		if got := gogu.MapEvery(build(es, rep), p); got != every {
			return fmt.Errorf("%s: MapEvery = %v, want %v", where(), got, every)
		}
		if got := gogu.MapSome(build(es, rep), p); got != some {
			return fmt.Errorf("%s: MapSome = %v, want %v", where(), got, some)
		}
		if got := gogu.MapContains(build(es, rep), c.Probe); got != contains {
			return fmt.Errorf("m=%s (run %d): MapContains(%d) = %v, want %v", show(es), rep, c.Probe, got, contains)
		}
		fmArg := build(es, rep)
		if got := gogu.FilterMap(fmArg, p); !sameMap(got, q) {
			return fmt.Errorf("%s: FilterMap = %v, want exactly the qualifying entries %s", where(), got, show(q))
		}
		if !sameMap(fmArg, es) {
			return fmt.Errorf("%s: FilterMap changed the map it was given: it now reads %v", where(), fmArg)
		}
		// the selection is a map of its own: what is done to it afterwards does not reach the map it was taken from
		if sel := gogu.FilterMap(fmArg, p); sel != nil {
			sel[-12345] = 1
			for k := range sel {
				if k != -12345 {
					delete(sel, k)
					break
				}
			}
			if !sameMap(fmArg, es) {
				return fmt.Errorf("%s: editing the map FilterMap returned changed the map it was given: it now reads %v", where(), fmArg)
			}
		}
		got := gogu.Find(build(es, rep), p)
		if some && !sameMap(got, q[:1]) {
			return fmt.Errorf("%s: Find = %v, want the qualifying entry with the smallest key %s", where(), got, show(q[:1]))
		}
		if !some && len(got) != 0 {
			return fmt.Errorf("%s: Find = %v, want an empty map (nothing qualifies)", where(), got)
		}
		k := gogu.FindKey(build(es, rep), p)
		if some {
			if _, ok := lookup(q, k); !ok {
				return fmt.Errorf("%s: FindKey = %d, which is not the key of a qualifying entry (qualifying: %s)", where(), k, show(q))
			}
		} else if k != 0 {
			return fmt.Errorf("%s: FindKey = %d, want the zero key (nothing qualifies)", where(), k)
		}
	}
	return nil
}

func valPredEnum(s pbt.Src, thorough bool) ValPredCase {
	nk, nv := bounds(thorough)
	return ValPredCase{M: enumMap(s, nk, nv), VS: enumSet(s, nv), Probe: s.Intn(nv + 1)}
}

func valPredGen(s pbt.Src, _ bool) ValPredCase {
	return ValPredCase{M: genMap(s, rndMaxLen), VS: genValSet(s), Probe: s.Intn(rndVals + 1)}
}

// ---------------------------------------------------------------------------
// check "kvpred": PickBy, OmitBy (partition), FindByKey

type KVPredCase struct {
	M    []P   `json:"m"`
	Mode int   `json:"mode"` // 0: key in KS && value in VS, 1: ||, 2: exactly one of the two
	KS   []int `json:"ks"`   // FindByKey uses "key in KS"
	VS   []int `json:"vs"`
}

var kvModeNames = []string{"key in ks && value in vs", "key in ks || value in vs", "key in ks != value in vs"}

func kvPredProp(c KVPredCase, r *pbt.R) error {
	es := canon(c.M)
	mode := mod(c.Mode, 3)
	kp := func(k int) bool { return in(c.KS, k) }
	f := func(k, v int) bool {
		a, b := in(c.KS, k), in(c.VS, v)
		switch mode {
		case 0:
			return a && b
		case 1:
			return a || b
		}
		return a != b
	}
	var yes, no, kq []P
	for _, e := range es {
		if f(e[0], e[1]) {
			yes = append(yes, e)
		} else {
			no = append(no, e)
		}
		if kp(e[0]) {
			kq = append(kq, e)
		}
	}
	r.NonTrivialIf(len(es) >= 2, ">= 2 entries")
	if len(yes) > 0 && len(no) > 0 {
		r.Label("predicate splits the map")
	}
	switch {
	case len(kq) == 0:
		r.Label("no key qualifies")
	case len(kq) >= 2:
		r.Label(">= 2 keys qualify (FindByKey is free)")
	}
	for rep := 0; rep < reps; rep++ {
		where := func() string {
			return fmt.Sprintf("m=%s, predicate: %s with ks=%v vs=%v (run %d)", show(es), kvModeNames[mode], c.KS, c.VS, rep)
		}
		pickArg := build(es, rep)
		picked := gogu.PickBy(pickArg, f)
		if !sameMap(pickArg, es) {
			return fmt.Errorf("%s: PickBy changed the map it was given: it now reads %v", where(), pickArg)
		}
		if !sameMap(picked, yes) {
			return fmt.Errorf("%s: PickBy = %v, want exactly the qualifying entries %s", where(), picked, show(yes))
		}
		omitted := gogu.OmitBy(build(es, rep), f)
		if !sameMap(omitted, no) {
			return fmt.Errorf("%s: OmitBy = %v, want exactly the other entries %s", where(), omitted, show(no))
		}
		if err := partitions(es, picked, omitted); err != nil {
			return fmt.Errorf("%s: PickBy = %v and OmitBy = %v do not partition the map: %v", where(), picked, omitted, err)
		}
		got := gogu.FindByKey(build(es, rep), kp)
		if len(kq) == 0 {
			if len(got) != 0 {
				return fmt.Errorf("m=%s, predicate: key in %v (run %d): FindByKey = %v, want an empty map (no key qualifies)", show(es), c.KS, rep, got)
			}
			continue
		}
		ok := false
		if len(got) == 1 {
			for _, e := range kq {
				if v, has := got[e[0]]; has && v == e[1] {
					ok = true
				}
			}
		}
		if !ok {
			return fmt.Errorf("m=%s, predicate: key in %v (run %d): FindByKey = %v, want exactly one of the qualifying entries %s", show(es), c.KS, rep, got, show(kq))
		}
	}
	return nil
}

// partitions: every entry of the original is in exactly one of a and b, with its value, and nothing else is.
func partitions(es []P, a, b map[int]int) error {
	if len(a)+len(b) != len(es) {
		return fmt.Errorf("%d + %d entries, the map has %d", len(a), len(b), len(es))
	}
	for _, e := range es {
		va, ina := a[e[0]]
		vb, inb := b[e[0]]
		if ina == inb {
			return fmt.Errorf("key %d is in both or in neither", e[0])
		}
		if (ina && va != e[1]) || (inb && vb != e[1]) {
			return fmt.Errorf("key %d changed its value", e[0])
		}
	}
	return nil
}

func kvPredEnum(s pbt.Src, thorough bool) KVPredCase {
	nk, nv := bounds(thorough)
	return KVPredCase{M: enumMap(s, nk, nv), Mode: s.Intn(3), KS: enumSet(s, nk), VS: enumSet(s, nv)}
}

func kvPredGen(s pbt.Src, _ bool) KVPredCase {
	return KVPredCase{M: genMap(s, rndMaxLen), Mode: s.Intn(3), KS: genKeySet(s), VS: genValSet(s)}
}

// ---------------------------------------------------------------------------
// check "keylist": Pick, Omit (partition)

type KeyListCase struct {
	M    []P   `json:"m"`
	Keys []int `json:"keys"`
}

func keyListProp(c KeyListCase, r *pbt.R) error {
	es := canon(c.M)
	var yes, no []P
	for _, e := range es {
		if in(c.Keys, e[0]) {
			yes = append(yes, e)
		} else {
			no = append(no, e)
		}
	}
	foreign, dup := false, false
	for i, k := range c.Keys {
		if _, ok := lookup(es, k); !ok {
			foreign = true
		}
		if in(c.Keys[:i], k) {
			dup = true
		}
	}
	r.NonTrivialIf(len(es) >= 2 && len(c.Keys) > 0, ">= 2 entries and >= 1 key")
	if len(c.Keys) == 0 {
		r.Label("no keys (Pick reports an error)")
	}
	if foreign {
		r.Label("key list names an absent key")
	}
	if dup {
		r.Label("key list repeats a key")
	}
	if len(yes) > 0 && len(no) > 0 {
		r.Label("key list splits the map")
	}
	// one key list in the caller's hands, spread into every call (as a caller partitioning a map would do)
	held := append([]int{}, c.Keys...)
	for rep := 0; rep < reps; rep++ {
		where := func() string { return fmt.Sprintf("m=%s keys=%v (run %d, the same list spread into every call)", show(es), c.Keys, rep) }
		picked, err := gogu.Pick(build(es, rep), held...)
		if len(c.Keys) == 0 {
			if err == nil {
				return fmt.Errorf("%s: Pick without keys returned no error", where())
			}
			if len(picked) != 0 {
				return fmt.Errorf("%s: Pick without keys returned %v, want an empty map", where(), picked)
			}
		} else {
			if err != nil {
				return fmt.Errorf("%s: Pick returned the error %q", where(), err)
			}
			if !sameMap(picked, yes) {
				return fmt.Errorf("%s: Pick = %v, want exactly the entries under the listed keys %s", where(), picked, show(yes))
			}
		}
		omitted := gogu.Omit(build(es, rep), held...)
		if !sameMap(omitted, no) {
			return fmt.Errorf("%s: Omit = %v, want exactly the entries under the other keys %s", where(), omitted, show(no))
		}
		if err := partitions(es, picked, omitted); err != nil {
			return fmt.Errorf("%s: Pick = %v and Omit = %v do not partition the map: %v", where(), picked, omitted, err)
		}
	}
	return nil
}

func keyListBounds(thorough bool) int {
	if thorough {
		return 4
	}
	return 3
}

func keyListEnum(s pbt.Src, thorough bool) KeyListCase {
	nk, nv := bounds(thorough)
	m := enumMap(s, nk, nv)
	// key nk is never a key of the map
	return KeyListCase{M: m, Keys: pbt.Seq(s, 0, keyListBounds(thorough), func(s pbt.Src) int { return s.Intn(nk + 1) })}
}

func keyListGen(s pbt.Src, _ bool) KeyListCase {
	return KeyListCase{M: genMap(s, rndMaxLen), Keys: genKeySet(s)}
}

// ---------------------------------------------------------------------------
// check "values": Keys, Values, MapValues, MapCollection, Invert, MapUnique

type ValuesCase struct {
	M  []P   `json:"m"`
	VT []int `json:"vt"` // the value transformation is v -> VT[v mod len(VT)]
}

// valuesRound checks Keys, Values, MapValues, MapCollection, Invert and MapUnique on the map mk() hands over, whose entries are es.
func valuesRound(es []P, vt []int, mk func() map[int]int, where func() string) error {
	keys := make([]int, len(es))
	for i, e := range es {
		keys[i] = e[0]
	}
	vals := sortedCopy(valuesOf(es))
	dvals := distinct(vals)
	images := make([]int, len(es))
	for i, e := range es {
		images[i] = tab(vt, e[1])
	}
	simages := sortedCopy(images)
	if got := gogu.Keys(mk()); !equalInts(sortedCopy(got), keys) {
		return fmt.Errorf("%s: Keys = %v, want every key once: %v", where(), got, keys)
	}
	if got := gogu.Values(mk()); !equalInts(sortedCopy(got), vals) {
		return fmt.Errorf("%s: Values = %v, want the value of every entry once: %v", where(), got, vals)
	}
	mv := gogu.MapValues(mk(), func(v int) img { return img(tab(vt, v)) })
	okMV := len(mv) == len(es)
	for i, e := range es {
		if v, ok := mv[e[0]]; !ok || v != img(images[i]) {
			okMV = false
		}
	}
	if !okMV {
		return fmt.Errorf("%s, function table %v: MapValues = %v, want every key with the image of its value", where(), vt, mv)
	}
	if got := gogu.MapCollection(mk(), func(v int) int { return tab(vt, v) }); !equalInts(sortedCopy(got), simages) {
		return fmt.Errorf("%s, function table %v: MapCollection = %v, want the image of every value once: %v", where(), vt, got, simages)
	}
	inv := gogu.Invert(mk())
	if len(inv) != len(dvals) {
		return fmt.Errorf("%s: Invert = %v has %d keys, the map has %d distinct values", where(), inv, len(inv), len(dvals))
	}
	for _, v := range dvals {
		k, ok := inv[v]
		if !ok {
			return fmt.Errorf("%s: Invert = %v misses the value %d", where(), inv, v)
		}
		if ov, has := lookup(es, k); !has || ov != v {
			return fmt.Errorf("%s: Invert = %v maps %d to %d, which is not a key that held it", where(), inv, v, k)
		}
	}
	u := gogu.MapUnique(mk())
	n := 0
	seen := make([]int, 0, len(u))
	for _, e := range es {
		gv, ok := u[e[0]]
		if !ok {
			continue
		}
		n++
		if gv != e[1] {
			return fmt.Errorf("%s: MapUnique = %v changed the value under key %d", where(), u, e[0])
		}
		if in(seen, gv) {
			return fmt.Errorf("%s: MapUnique = %v keeps the value %d twice", where(), u, gv)
		}
		seen = append(seen, gv)
	}
	if n != len(u) {
		return fmt.Errorf("%s: MapUnique = %v holds a key the map does not have", where(), u)
	}
	if len(seen) != len(dvals) {
		return fmt.Errorf("%s: MapUnique = %v keeps %d values, the map has %d distinct values %v", where(), u, len(seen), len(dvals), dvals)
	}
	return nil
}

func valuesProp(c ValuesCase, r *pbt.R) error {
	es := canon(c.M)
	dvals := distinct(sortedCopy(valuesOf(es)))
	r.NonTrivialIf(len(es) >= 2, ">= 2 entries")
	if len(dvals) < len(es) {
		r.Label("a value occurs under several keys (Invert / MapUnique are free)")
	} else if len(es) >= 2 {
		r.Label("all values distinct")
	}
	for rep := 0; rep < reps; rep++ {
		where := func() string { return fmt.Sprintf("m=%s (run %d)", show(es), rep) }
		if err := valuesRound(es, c.VT, func() map[int]int { return build(es, rep) }, where); err != nil {
			return err
		}
	}
	// One map object serves two rounds: between them every value is raised in place (same object, same keys, same size,
	// other values). An answer remembered per map object would be stale.
	m := build(es, 0)
	same := func() map[int]int { return m }
	if err := valuesRound(es, c.VT, same, func() string { return fmt.Sprintf("m=%s (one map object for every call)", show(es)) }); err != nil {
		return err
	}
	es2 := make([]P, len(es))
	for i, e := range es {
		es2[i] = P{e[0], e[1] + 1000}
		m[e[0]] = e[1] + 1000
	}
	return valuesRound(es2, c.VT, same, func() string {
		return fmt.Sprintf("m=%s, the same map object that held %s before every value was raised by 1000 in place", show(es2), show(es))
	})
}

func valuesEnum(s pbt.Src, thorough bool) ValuesCase {
	nk, nv := bounds(thorough)
	c := ValuesCase{M: enumMap(s, nk, nv), VT: make([]int, nv)}
	for i := range c.VT {
		c.VT[i] = s.Intn(nv)
	}
	return c
}

func valuesGen(s pbt.Src, _ bool) ValuesCase {
	return ValuesCase{M: genMap(s, rndMaxLen), VT: pbt.Seq(s, 1, rndVals, func(s pbt.Src) int { return s.Intn(rndVals) })}
}

// ---------------------------------------------------------------------------
// check "mapkeys": MapKeys

type MapKeysCase struct {
	M    []P   `json:"m"`
	Mode int   `json:"mode"` // 0: KT[k], 1: KT[k]*64+v, 2: KT[k+v]
	KT   []int `json:"kt"`
}

var keyFnNames = []string{"kt[k]", "kt[k]*64+v", "kt[k+v]"}

func keyFn(mode int, kt []int) func(k, v int) img {
	return func(k, v int) img {
		switch mod(mode, 3) {
		case 0:
			return img(tab(kt, k))
		case 1:
			return img(tab(kt, k)*64 + v)
		}
		return img(tab(kt, k+v))
	}
}

func mapKeysProp(c MapKeysCase, r *pbt.R) error {
	es := canon(c.M)
	f := keyFn(c.Mode, c.KT)
	images := make([]img, len(es))
	dimg := []img{}
	for i, e := range es {
		images[i] = f(e[0], e[1])
		seen := false
		for _, x := range dimg {
			if x == images[i] {
				seen = true
			}
		}
		if !seen {
			dimg = append(dimg, images[i])
		}
	}
	r.NonTrivialIf(len(es) >= 2, ">= 2 entries")
	if len(dimg) < len(es) {
		r.Label("key function collapses two entries")
	} else if len(es) >= 2 {
		r.Label("key function injective on the map")
	}
	for rep := 0; rep < reps; rep++ {
		where := func() string {
			return fmt.Sprintf("m=%s, key function %s with kt=%v (run %d)", show(es), keyFnNames[mod(c.Mode, 3)], c.KT, rep)
		}
		got := gogu.MapKeys(build(es, rep), f)
		if len(got) != len(dimg) {
			return fmt.Errorf("%s: MapKeys = %v has %d keys, the entries have %d distinct image keys %v", where(), got, len(got), len(dimg), dimg)
		}
		for _, nk := range dimg {
			v, ok := got[nk]
			if !ok {
				return fmt.Errorf("%s: MapKeys = %v misses the image key %d", where(), got, nk)
			}
			stems := false
			for i, e := range es {
				if images[i] == nk && e[1] == v {
					stems = true
				}
			}
			if !stems {
				return fmt.Errorf("%s: MapKeys = %v holds %d under %d, but no entry with that image key has that value", where(), got, v, nk)
			}
		}
	}
	return nil
}

func mapKeysEnum(s pbt.Src, thorough bool) MapKeysCase {
	nk, nv := bounds(thorough)
	c := MapKeysCase{M: enumMap(s, nk, nv), Mode: s.Intn(3), KT: make([]int, nk)}
	for i := range c.KT {
		c.KT[i] = s.Intn(4)
	}
	return c
}

func mapKeysGen(s pbt.Src, _ bool) MapKeysCase {
	return MapKeysCase{M: genMap(s, rndMaxLen), Mode: s.Intn(3), KT: pbt.Seq(s, 1, 12, func(s pbt.Src) int { return s.Intn(16) })}
}

// ---------------------------------------------------------------------------
// check "slicetomap": SliceToMap

type SliceToMapCase struct {
	Ks []int `json:"ks"`
	Vs []int `json:"vs"`
}

func callSliceToMap(ks, vs []int) (m map[int]int, panicked bool) {
	defer func() {
		if p := recover(); p != nil {
			m, panicked = nil, true
		}
	}()
	return gogu.SliceToMap(ks, vs), false
}

func sliceToMapProp(c SliceToMapCase, r *pbt.R) error {
	equal := len(c.Ks) == len(c.Vs)
	var want []P
	dup := false
	if equal {
		ps := make([]P, len(c.Ks))
		for i := range c.Ks {
			ps[i] = P{c.Ks[i], c.Vs[i]}
			if in(c.Ks[:i], c.Ks[i]) {
				dup = true
			}
		}
		want = canon(ps) // canon lets the last pair win
	}
	r.NonTrivialIf(!equal, "unequal lengths (rejected)")
	r.NonTrivialIf(equal && len(c.Ks) >= 2, ">= 2 positions")
	if dup {
		r.Label("repeated key (last wins)")
	}
	for rep := 0; rep < reps; rep++ {
		got, panicked := callSliceToMap(append([]int{}, c.Ks...), append([]int{}, c.Vs...))
		if !equal {
			if !panicked {
				return fmt.Errorf("SliceToMap(%v, %v) accepted slices of unequal length and returned %v", c.Ks, c.Vs, got)
			}
			continue
		}
		if panicked {
			return fmt.Errorf("SliceToMap(%v, %v) panicked on slices of equal length", c.Ks, c.Vs)
		}
		if !sameMap(got, want) {
			return fmt.Errorf("SliceToMap(%v, %v) = %v, want %s (positions paired, last wins)", c.Ks, c.Vs, got, show(want))
		}
	}
	return nil
}

func sliceToMapEnum(s pbt.Src, thorough bool) SliceToMapCase {
	nk, nv := bounds(thorough)
	max := keyListBounds(thorough)
	return SliceToMapCase{
		Ks: pbt.Seq(s, 0, max, func(s pbt.Src) int { return s.Intn(nk) }),
		Vs: pbt.Seq(s, 0, max, func(s pbt.Src) int { return s.Intn(nv) }),
	}
}

func sliceToMapGen(s pbt.Src, _ bool) SliceToMapCase {
	ks := pbt.Seq(s, 0, rndMaxLen, genKey)
	// mostly equal lengths: the value list is cut or padded to len(ks) + d, d in -2..2 with 0 favoured
	d := []int{0, 0, 0, 0, -1, 1, -2, 2}[s.Intn(8)]
	n := len(ks) + d
	if n < 0 {
		n = 0
	}
	vs := make([]int, n)
	for i := range vs {
		vs[i] = s.Intn(rndVals)
	}
	return SliceToMapCase{Ks: ks, Vs: vs}
}

// ---------------------------------------------------------------------------
// check "pluck": Pluck

type PluckCase struct {
	Maps [][]P `json:"maps"`
	Key  int   `json:"key"`
}

func pluckProp(c PluckCase, r *pbt.R) error {
	ms := canonAll(c.Maps)
	want := []int{}
	for _, es := range ms {
		if v, ok := lookup(es, c.Key); ok {
			want = append(want, v)
		}
	}
	r.NonTrivialIf(len(want) >= 1 && len(ms) >= 2, ">= 2 maps, key present in one")
	if len(want) > 0 && len(want) < len(ms) {
		r.Label("key present in some maps only")
	}
	if in(want, 0) {
		r.Label("plucked value is the zero value")
	}
	collLabels(r, ms)
	for rep := 0; rep < reps; rep++ {
		got := gogu.Pluck(buildAll(ms, rep), c.Key)
		if !equalInts(got, want) {
			return fmt.Errorf("maps=%s (run %d): Pluck(key %d) = %v, want %v (the value of every map that has the key, in order)", showSeq(ms), rep, c.Key, got, want)
		}
	}
	return nil
}

func pluckEnum(s pbt.Src, thorough bool) PluckCase {
	return PluckCase{Maps: enumColl(s, thorough), Key: s.Intn(5)} // key 4 is in no enumerated map
}

func pluckGen(s pbt.Src, _ bool) PluckCase {
	return PluckCase{Maps: genColl(s), Key: genKey(s)}
}

// ---------------------------------------------------------------------------
// check "collfilter": FilterMapCollection

type CollFilterCase struct {
	Maps [][]P `json:"maps"`
	VS   []int `json:"vs"`
}

func collFilterProp(c CollFilterCase, r *pbt.R) error {
	ms := canonAll(c.Maps)
	p := func(v int) bool { return in(c.VS, v) }
	want := [][]P{}
	multi := false
	for _, es := range ms {
		n := 0
		for _, e := range es {
			if p(e[1]) {
				n++
			}
		}
		if n > 0 {
			want = append(want, es)
		}
		if n >= 2 {
			multi = true
		}
	}
	r.NonTrivialIf(len(want) >= 1, ">= 1 map kept")
	if multi {
		r.Label("a map has >= 2 qualifying values")
	}
	if len(want) > 0 && len(want) < len(ms) {
		r.Label("some maps kept, some dropped")
	}
	collLabels(r, ms)
	for rep := 0; rep < reps; rep++ {
		coll := buildAll(ms, rep)
		got := gogu.FilterMapCollection(coll, p)
		if !sameSeq(coll, ms) {
			return fmt.Errorf("maps=%s, predicate: value in %v (run %d): after FilterMapCollection the caller's collection reads %v (it is an argument: same maps, same order)", showSeq(ms), c.VS, rep, coll)
		}
		if !sameSeq(got, want) {
			return fmt.Errorf("maps=%s, predicate: value in %v (run %d): FilterMapCollection = %v, want %s (every map with a qualifying value once, in order)",
				showSeq(ms), c.VS, rep, got, showSeq(want))
		}
	}
	return nil
}

func collFilterEnum(s pbt.Src, thorough bool) CollFilterCase {
	return CollFilterCase{Maps: enumColl(s, thorough), VS: enumSet(s, 3)}
}

func collFilterGen(s pbt.Src, _ bool) CollFilterCase {
	return CollFilterCase{Maps: genColl(s), VS: genValSet(s)}
}

// ---------------------------------------------------------------------------
// check "partition": PartitionMap

type PartitionCase struct {
	Maps [][]P `json:"maps"`
	Mode int   `json:"mode"` // predicate on a map, see predVals
	VS   []int `json:"vs"`
}

func partitionProp(c PartitionCase, r *pbt.R) error {
	ms := canonAll(c.Maps)
	yes, no := [][]P{}, [][]P{}
	for _, es := range ms {
		if len(es) == 0 {
			continue // the statement routes the non-empty maps only
		}
		if predVals(c.Mode, c.VS, valuesOf(es)) {
			yes = append(yes, es)
		} else {
			no = append(no, es)
		}
	}
	r.NonTrivialIf(len(yes)+len(no) >= 2, ">= 2 non-empty maps")
	if len(yes) > 0 && len(no) > 0 {
		r.Label("both sides non-empty")
	}
	collLabels(r, ms)
	for rep := 0; rep < reps; rep++ {
		coll := buildAll(ms, rep)
		got := gogu.PartitionMap(coll, mapPred(c.Mode, c.VS))
		if !sameSeq(coll, ms) {
			return fmt.Errorf("maps=%s, predicate: %s with vs=%v (run %d): after PartitionMap the caller's collection reads %v (it is an argument: same maps, same order)", showSeq(ms), modeNames[mod(c.Mode, 3)], c.VS, rep, coll)
		}
		if !sameSeq(got[0], yes) || !sameSeq(got[1], no) {
			return fmt.Errorf("maps=%s, predicate: %s with vs=%v (run %d): PartitionMap = %v, want [%s %s] (non-empty maps routed by the predicate, in order)",
				showSeq(ms), modeNames[mod(c.Mode, 3)], c.VS, rep, got, showSeq(yes), showSeq(no))
		}
	}
	return nil
}

func partitionEnum(s pbt.Src, thorough bool) PartitionCase {
	return PartitionCase{Maps: enumColl(s, thorough), Mode: s.Intn(3), VS: enumSet(s, 3)}
}

func partitionGen(s pbt.Src, _ bool) PartitionCase {
	return PartitionCase{Maps: genColl(s), Mode: s.Intn(3), VS: genValSet(s)}
}

// ---------------------------------------------------------------------------
// check "filter2d": Filter2DMapCollection

// Outer is one entry of an item of the two-dimensional collection: key -> inner map.
type Outer struct {
	K     int `json:"k"`
	Inner []P `json:"inner"`
}

type Filter2DCase struct {
	Items [][]Outer `json:"items"`
	Mode  int       `json:"mode"` // predicate on an inner map, see predVals
	VS    []int     `json:"vs"`
}

// canonOuter: the last entry of a repeated key wins, entries sorted by key, inner maps canonical.
func canonOuter(os []Outer) []Outer {
	out := make([]Outer, 0, len(os))
next:
	for _, o := range os {
		o.Inner = canon(o.Inner)
		for i := range out {
			if out[i].K == o.K {
				out[i] = o
				continue next
			}
		}
		out = append(out, o)
	}
	for i := 1; i < len(out); i++ {
		for j := i; j > 0 && out[j].K < out[j-1].K; j-- {
			out[j], out[j-1] = out[j-1], out[j]
		}
	}
	return out
}

func buildOuter(os []Outer, rep int) map[int]map[int]int {
	m := map[int]map[int]int{}
	n := len(os)
	if rep%2 == 0 {
		for i := 0; i < n; i++ {
			m[os[i].K] = build(os[i].Inner, rep+i)
		}
	} else {
		for i := n - 1; i >= 0; i-- {
			m[os[i].K] = build(os[i].Inner, rep+i)
		}
	}
	return m
}

func sameOuter(got map[int]map[int]int, want []Outer) bool {
	if len(got) != len(want) {
		return false
	}
	for _, o := range want {
		if inner, ok := got[o.K]; !ok || !sameMap(inner, o.Inner) {
			return false
		}
	}
	return true
}

func showItems(items [][]Outer) string {
	s := "["
	for i, os := range items {
		if i > 0 {
			s += " "
		}
		m := map[int]map[int]int{}
		for _, o := range os {
			m[o.K] = build(o.Inner, 0)
		}
		s += fmt.Sprint(m)
	}
	return s + "]"
}

func filter2DProp(c Filter2DCase, r *pbt.R) error {
	items := make([][]Outer, len(c.Items))
	for i, it := range c.Items {
		items[i] = canonOuter(it)
	}
	want := [][]Outer{}
	multi := false
	for _, it := range items {
		n := 0
		for _, o := range it {
			if predVals(c.Mode, c.VS, valuesOf(o.Inner)) {
				n++
			}
		}
		if n > 0 {
			want = append(want, it)
		}
		if n >= 2 {
			multi = true
		}
	}
	r.NonTrivialIf(len(want) >= 1, ">= 1 item kept")
	if multi {
		r.Label("an item has >= 2 qualifying inner maps")
	}
	if len(want) > 0 && len(want) < len(items) {
		r.Label("some items kept, some dropped")
	}
	for rep := 0; rep < reps; rep++ {
		coll := make([]map[int]map[int]int, len(items))
		for i, it := range items {
			coll[i] = buildOuter(it, rep+i)
		}
		got := gogu.Filter2DMapCollection(coll, mapPred(c.Mode, c.VS))
		ok := len(got) == len(want)
		for i := 0; ok && i < len(want); i++ {
			ok = sameOuter(got[i], want[i])
		}
		if !ok {
			return fmt.Errorf("items=%s, predicate on inner maps: %s with vs=%v (run %d): Filter2DMapCollection = %v, want %s (every item with a qualifying inner map once, in order)",
				showItems(items), modeNames[mod(c.Mode, 3)], c.VS, rep, got, showItems(want))
		}
	}
	return nil
}

// enumerated: 0..2 (thorough 0..3) items; an item has the outer keys 0 and 1, each absent or bound
// to one of the 9 inner maps over 2 keys x 2 values.
func filter2DEnum(s pbt.Src, thorough bool) Filter2DCase {
	max := 2
	if thorough {
		max = 3
	}
	c := Filter2DCase{}
	c.Items = pbt.Seq(s, 0, max, func(s pbt.Src) []Outer {
		it := make([]Outer, 0, 2)
		for k := 0; k < 2; k++ {
			if s.Intn(2) == 1 {
				it = append(it, Outer{K: k, Inner: enumMap(s, 2, 2)})
			}
		}
		return it
	})
	c.Mode = s.Intn(3)
	c.VS = enumSet(s, 3)
	return c
}

func filter2DGen(s pbt.Src, _ bool) Filter2DCase {
	c := Filter2DCase{}
	c.Items = pbt.Seq(s, 0, 5, func(s pbt.Src) []Outer {
		return pbt.Seq(s, 0, 5, func(s pbt.Src) Outer { return Outer{K: genKey(s), Inner: genMap(s, 6)} })
	})
	c.Mode = s.Intn(3)
	c.VS = genValSet(s)
	return c
}

func filter2DOutside(c Filter2DCase, thorough bool) bool {
	max := 2
	if thorough {
		max = 3
	}
	if len(c.Items) > max {
		return true
	}
	for _, it := range c.Items {
		for _, o := range canonOuter(it) {
			if o.K < 0 || o.K > 1 || mapOutside(o.Inner, 2, 2) {
				return true
			}
		}
	}
	return false
}

// ---------------------------------------------------------------------------

func singleOutside(m []P, thorough bool) bool {
	nk, nv := bounds(thorough)
	return mapOutside(canon(m), nk, nv)
}

const scopeSingle = "enumerated: every map in which each of the keys 0..3 (thorough 0..4) is absent or bound to one of the values 0..2 (0..3), "
const scopeRandom = "random: up to 20 pairs over keys -4..19 and values 0..5 (a repeated key overwrites), predicate sets drawn from the same ranges. "
const scopeColl = "enumerated: every collection of 0..2 maps over 4 keys x 3 values and every collection of 3 maps over 3 keys x 2 values (thorough: 4 keys x 2 values), "
// ---------------------------------------------------------------------------
// maps whose values are pointers: equality of values is pointer identity, not equality of what they point to

// PtrCase: M maps keys to value codes 0..3; code c stands for the pointer ptrTab[c]: codes 0 and 1 are two DIFFERENT
// pointers to equal integers, code 2 points to another integer, code 3 is the nil pointer. Probe is a code 0..4
// (4 = a fifth pointer, never stored, that also points to an integer equal to those of codes 0 and 1).
type PtrCase struct {
	M     []P `json:"m"`
	Probe int `json:"probe"`
}

func ptrTable() [5]*int {
	a, b, c, d := 7, 7, 9, 7
	return [5]*int{&a, &b, &c, nil, &d}
}

func ptrEnum(s pbt.Src, thorough bool) PtrCase {
	nk := 3
	if thorough {
		nk = 4
	}
	return PtrCase{M: enumMap(s, nk, 4), Probe: s.Intn(5)}
}

func ptrGen(s pbt.Src, thorough bool) PtrCase {
	return PtrCase{M: pbt.Seq(s, 0, 12, func(s pbt.Src) P { return P{genKey(s), s.Intn(4)} }), Probe: s.Intn(5)}
}

func ptrProp(c PtrCase, r *pbt.R) error {
	es := canon(c.M)
	for _, e := range es {
		if e[1] < 0 || e[1] > 3 {
			return nil // hand-edited replay outside the domain
		}
	}
	tab := ptrTable()
	probe := ((c.Probe % 5) + 5) % 5
	name := func(p *int) string {
		for i, q := range tab {
			if p == q {
				return fmt.Sprintf("p%d", i)
			}
		}
		return "p?"
	}
	contains, distinct := false, map[int]bool{}
	for _, e := range es {
		if e[1] == probe {
			contains = true
		}
		distinct[e[1]] = true
	}
	twins := distinct[0] && distinct[1]
	r.NonTrivialIf(len(es) >= 2, ">= 2 entries")
	if twins {
		r.Label("two different pointers to equal integers stored")
	}
	if !contains && (probe == 4 || probe <= 1) && (distinct[0] || distinct[1]) {
		r.Label("probe points to an integer equal to a stored pointer's, but is a different pointer")
	}
	for rep := 0; rep < reps; rep++ {
		mk := func() map[int]*int {
			m := map[int]*int{}
			for _, e := range order(es, rep) {
				m[e[0]] = tab[e[1]]
			}
			return m
		}
		where := fmt.Sprintf("m=%s with value code c = pointer p<c> (p0, p1, p4 point to equal integers, p3 is nil) (run %d)", show(es), rep)
		if got := gogu.MapContains(mk(), tab[probe]); got != contains {
			return fmt.Errorf("%s: MapContains(p%d) = %v, want %v (values are compared with ==: pointer identity)", where, probe, got, contains)
		}
		if got := gogu.MapSome(mk(), func(p *int) bool { return p == tab[probe] }); got != contains {
			return fmt.Errorf("%s: MapSome(== p%d) = %v, want %v", where, probe, got, contains)
		}
		inv := gogu.Invert(mk())
		if len(inv) != len(distinct) {
			return fmt.Errorf("%s: Invert has %d keys, want the %d distinct pointers", where, len(inv), len(distinct))
		}
		for p, k := range inv {
			if v, ok := lookup(es, k); !ok || tab[v] != p {
				return fmt.Errorf("%s: Invert maps %s to key %d, which does not hold that pointer", where, name(p), k)
			}
		}
		u := gogu.MapUnique(mk())
		if len(u) != len(distinct) {
			return fmt.Errorf("%s: MapUnique kept %d entries, want one per distinct pointer (%d)", where, len(u), len(distinct))
		}
		seen := map[*int]bool{}
		for k, p := range u {
			if v, ok := lookup(es, k); !ok || tab[v] != p {
				return fmt.Errorf("%s: MapUnique holds %d:%s, which is not an entry of the map", where, k, name(p))
			}
			if seen[p] {
				return fmt.Errorf("%s: MapUnique kept the pointer %s twice", where, name(p))
			}
			seen[p] = true
		}
		vals := gogu.Values(mk())
		if len(vals) != len(es) {
			return fmt.Errorf("%s: Values has %d elements, want %d", where, len(vals), len(es))
		}
		cnt := map[*int]int{}
		for _, p := range vals {
			cnt[p]++
		}
		for _, e := range es {
			cnt[tab[e[1]]]--
		}
		for p, n := range cnt {
			if n != 0 {
				return fmt.Errorf("%s: Values lists the pointer %s %+d times too often", where, name(p), n)
			}
		}
	}
	return nil
}

// order returns the entries in the insertion order of run rep (as build does for int values).
func order(es []P, rep int) []P {
	out := append([]P(nil), es...)
	switch rep % 3 {
	case 1:
		for i, j := 0, len(out)-1; i < j; i, j = i+1, j-1 {
			out[i], out[j] = out[j], out[i]
		}
	case 2:
		if len(out) > 1 {
			out = append(out[len(out)/2:], out[:len(out)/2]...)
		}
	}
	return out
}

const scopeRuns = "Every case is executed 3 times on fresh maps built in 3 insertion orders (Go randomises the iteration start). " +
	"Distinct = enumerated cases (injective encoding) + hash-distinct random cases outside the enumerated scope (a key or value outside its domain, or a longer collection)."

// ---------------------------------------------------------------------------
// the map helpers are pure: concurrent callers, each with maps of their own, get what they get alone

type ParCase struct {
	H    int `json:"h"`
	Size int `json:"size"`
	W    int `json:"workers"`
}

var parNames = []string{"Find", "Keys+Values(sorted)", "FilterMap", "PickBy+OmitBy(copy)", "Invert(injective)", "MapValues", "MapKeys", "Pluck", "FilterMapCollection", "SliceToMap"}

func parMap(w, size int) map[int]int {
	m := make(map[int]int, size)
	for i := 0; i < size; i++ {
		m[i*3+w] = (i*i + w) % 89
	}
	return m
}

func parProp(c ParCase, r *pbt.R) error {
	h := ((c.H % len(parNames)) + len(parNames)) % len(parNames)
	size := 16 + ((c.Size%3000)+3000)%3000
	workers := 2 + ((c.W%7)+7)%7
	f := func(w int) string {
		m := parMap(w, size)
		switch h {
		case 0:
			return fmt.Sprint(gogu.Find(m, func(v int) bool { return v%7 == w%7 }))
		case 1:
			k, v := gogu.Keys(m), gogu.Values(m)
			sort.Ints(k)
			sort.Ints(v)
			return pbt.Digest(k) + pbt.Digest(v)
		case 2:
			return pbt.Digest(gogu.FilterMap(m, func(v int) bool { return v%2 == 0 }))
		case 3:
			cp := parMap(w, size)
			return pbt.Digest(gogu.PickBy(m, func(k, v int) bool { return (k+v)%3 == 0 })) + pbt.Digest(gogu.OmitBy(cp, func(k, v int) bool { return (k+v)%3 == 0 }))
		case 4:
			inj := make(map[int]int, size)
			for k := range m {
				inj[k] = k*2 + 1
			}
			return pbt.Digest(gogu.Invert(inj))
		case 5:
			return pbt.Digest(gogu.MapValues(m, func(v int) int { return v*2 + w }))
		case 6:
			return pbt.Digest(gogu.MapKeys(m, func(k, _ int) int { return k + 1 }))
		case 7:
			ms := []map[int]int{m, {1: 2}, parMap(w+1, 30)}
			return pbt.Digest(gogu.Pluck(ms, w))
		case 8:
			ms := []map[int]int{m, {1: 2}, parMap(w+1, 30)}
			return pbt.Digest(gogu.FilterMapCollection(ms, func(v int) bool { return v == 88 }))
		default:
			ks, vs := make([]int, size), make([]int, size)
			for i := range ks {
				ks[i], vs[i] = i%(size/2+1), i+w
			}
			return pbt.Digest(gogu.SliceToMap(ks, vs))
		}
	}
	if err := pbt.Concurrently(workers, 4, f); err != nil {
		return fmt.Errorf("%s on maps of about %d entries: %v", parNames[h], size, err)
	}
	r.NonTrivial()
	r.Label(parNames[h])
	return nil
}

func TestProp(t *testing.T) {
	pbt.Run(t, "C14",
		&pbt.Check[ValPredCase]{
			Name: "valpred",
			Rule: "MapEvery/MapSome/MapContains/FilterMap/Find/FindKey against a sorted entry list; " + scopeSingle +
				"times every subset of the values as predicate, times every probe value (one of them never present); " + scopeRandom +
				"Non-trivial = the map has >= 2 entries. " + scopeRuns,
			Enum: valPredEnum, Gen: valPredGen, Prop: valPredProp,
			OutOfEnum:  func(c ValPredCase, th bool) bool { return singleOutside(c.M, th) },
			RapidQuick: 300, RapidThorough: 6000,
		},
		&pbt.Check[PtrCase]{
			Name: "ptrvalues",
			Rule: "maps with POINTER values (value equality = pointer identity): MapContains, MapSome, Invert, MapUnique, Values on map[int]*int whose values are drawn from two different pointers to equal integers, a pointer to another integer and nil; the probe is one of them or a never-stored pointer to an equal integer. " +
				"Enumerated: every map over 3 (thorough 4) keys x 4 pointer codes x 5 probes; random: up to 12 entries. Non-trivial = >= 2 entries. " + scopeRuns,
			Enum: ptrEnum, Gen: ptrGen, Prop: ptrProp,
			OutOfEnum:  func(c PtrCase, th bool) bool { return len(canon(c.M)) > 4 || mapOutside(c.M, 4, 4) },
			RapidQuick: 200, RapidThorough: 3000,
		},
		&pbt.Check[KVPredCase]{
			Name: "kvpred",
			Rule: "PickBy/OmitBy (exact, and partitioning the map) and FindByKey; " + scopeSingle +
				"times the predicates (key in KS) op (value in VS) for op in {and, or, xor}, every subset KS of the keys and VS of the values (FindByKey: key in KS); " + scopeRandom +
				"Non-trivial = the map has >= 2 entries. " + scopeRuns,
			Enum: kvPredEnum, Gen: kvPredGen, Prop: kvPredProp,
			OutOfEnum:  func(c KVPredCase, th bool) bool { return singleOutside(c.M, th) },
			RapidQuick: 300, RapidThorough: 6000,
		},
		&pbt.Check[KeyListCase]{
			Name: "keylist",
			Rule: "Pick/Omit (exact, and partitioning the map; Pick without keys = error and empty map); " + scopeSingle +
				"times every key list up to length 3 (thorough 4) over the keys plus one key that is never present; " + scopeRandom +
				"Non-trivial = the map has >= 2 entries and the list >= 1 key. " + scopeRuns,
			Enum: keyListEnum, Gen: keyListGen, Prop: keyListProp,
			OutOfEnum:  func(c KeyListCase, th bool) bool { return singleOutside(c.M, th) },
			RapidQuick: 300, RapidThorough: 6000,
		},
		&pbt.Check[ValuesCase]{
			Name: "values",
			Rule: "Keys/Values (every key/value once, as multisets), MapValues (same keys, image of the value), MapCollection (multiset of images), " +
				"Invert (exactly the distinct values as keys, each mapped to a key that held it), MapUnique (sub-map with pairwise distinct values covering every distinct value); " + scopeSingle +
				"times every function from the values into the values; " + scopeRandom +
				"Non-trivial = the map has >= 2 entries. " + scopeRuns,
			Enum: valuesEnum, Gen: valuesGen, Prop: valuesProp,
			OutOfEnum:  func(c ValuesCase, th bool) bool { return singleOutside(c.M, th) },
			RapidQuick: 300, RapidThorough: 6000,
		},
		&pbt.Check[MapKeysCase]{
			Name: "mapkeys",
			Rule: "MapKeys: the result has exactly the image keys, each holding the value of an entry with that image (equality when the function is injective on the map); " + scopeSingle +
				"times every table kt from the keys into 0..3 used as kt[k], kt[k]*64+v or kt[k+v]; " + scopeRandom +
				"Non-trivial = the map has >= 2 entries. " + scopeRuns,
			Enum: mapKeysEnum, Gen: mapKeysGen, Prop: mapKeysProp,
			OutOfEnum:  func(c MapKeysCase, th bool) bool { return singleOutside(c.M, th) },
			RapidQuick: 300, RapidThorough: 6000,
		},
		&pbt.Check[SliceToMapCase]{
			Name: "slicetomap",
			Rule: "SliceToMap pairs positions (last wins) and panics (= documented rejection, recovered) exactly when the lengths differ; " +
				"enumerated: every key list and every value list of length 0..3 (thorough 0..4) over 4 keys x 3 values (5 x 4); random: key lists up to length 20, value list length differing by -2..2. " +
				"Non-trivial = unequal lengths, or >= 2 positions. Distinct = enumerated cases + hash-distinct random cases longer than the enumerated lists or outside their domain.",
			Enum: sliceToMapEnum, Gen: sliceToMapGen, Prop: sliceToMapProp,
			OutOfEnum: func(c SliceToMapCase, th bool) bool {
				nk, nv := bounds(th)
				max := keyListBounds(th)
				if len(c.Ks) > max || len(c.Vs) > max {
					return true
				}
				for _, k := range c.Ks {
					if k < 0 || k >= nk {
						return true
					}
				}
				for _, v := range c.Vs {
					if v < 0 || v >= nv {
						return true
					}
				}
				return false
			},
			RapidQuick: 300, RapidThorough: 6000,
		},
		&pbt.Check[PluckCase]{
			Name: "pluck",
			Rule: "Pluck returns the value under the key from each map that has it, in order (sequence equality); " + scopeColl +
				"times the keys 0..4 (4 is never present); random: up to 6 maps of up to 10 pairs. Non-trivial = >= 2 maps and the key is present in at least one. " + scopeRuns,
			Enum: pluckEnum, Gen: pluckGen, Prop: pluckProp,
			OutOfEnum:  func(c PluckCase, th bool) bool { return collOutside(c.Maps, th) },
			RapidQuick: 300, RapidThorough: 6000,
		},
		&pbt.Check[CollFilterCase]{
			Name: "collfilter",
			Rule: "FilterMapCollection returns, in order and once each, exactly the maps with a qualifying value (sequence of maps compared by content); " + scopeColl +
				"times every subset of the values as predicate; random: up to 6 maps of up to 10 pairs. Non-trivial = at least one map is kept. " + scopeRuns,
			Enum: collFilterEnum, Gen: collFilterGen, Prop: collFilterProp,
			OutOfEnum:  func(c CollFilterCase, th bool) bool { return collOutside(c.Maps, th) },
			RapidQuick: 300, RapidThorough: 6000,
		},
		&pbt.Check[PartitionCase]{
			Name: "partition",
			Rule: "PartitionMap routes every non-empty map to side 0 (predicate true) or 1, preserving order; empty maps are dropped; " + scopeColl +
				"times the predicates {some value in VS, every value in VS, number of entries in VS} for every subset VS of 0..2; random: up to 6 maps of up to 10 pairs. " +
				"Non-trivial = >= 2 non-empty maps. " + scopeRuns,
			Enum: partitionEnum, Gen: partitionGen, Prop: partitionProp,
			OutOfEnum:  func(c PartitionCase, th bool) bool { return collOutside(c.Maps, th) },
			RapidQuick: 300, RapidThorough: 6000,
		},
		&pbt.Check[Filter2DCase]{
			Name: "filter2d",
			Rule: "Filter2DMapCollection returns, in order and once each, exactly the items (maps of maps) one of whose inner maps qualifies; " +
				"enumerated: 0..2 (thorough 0..3) items with outer keys 0,1 each absent or bound to one of the 9 inner maps over 2 keys x 2 values, " +
				"times the inner-map predicates {some value in VS, every value in VS, number of entries in VS} for every subset VS of 0..2; " +
				"random: up to 5 items of up to 5 inner maps of up to 6 pairs. Non-trivial = at least one item is kept. " + scopeRuns,
			Enum: filter2DEnum, Gen: filter2DGen, Prop: filter2DProp, OutOfEnum: filter2DOutside,
			RapidQuick: 300, RapidThorough: 6000,
		},
		&pbt.Check[ParCase]{
			Name: "parallel",
			Rule: "the map helpers are pure functions: 2..8 goroutines call one of Find, Keys+Values, FilterMap, PickBy+OmitBy, Invert, MapValues, MapKeys, Pluck, FilterMapCollection, SliceToMap at the same time (real scheduler), each on maps of its own of 16..3000 entries, four times; every answer (rendered in key order) must equal the answer of the same call running alone. Non-trivial = every case.",
			Gen:        func(s pbt.Src, _ bool) ParCase { return ParCase{H: s.Intn(len(parNames)), Size: pbt.Pick(s, 50, 500, 3000), W: s.Intn(7)} },
			Prop:       parProp,
			OutOfEnum:  func(ParCase, bool) bool { return true },
			RapidQuick: 10, RapidThorough: 120,
		},
	)
}
