// C16: helpers do not disturb their arguments or each other's results.
//
// Every exported slice/map helper of the root package (and heap.FromSlice / heap.Sort) is
// registered with its contract class. A case builds an arena of arguments (slices inside
// backing arrays with spare capacity and sentinel values beyond len, maps, slices of maps,
// a nesting for Flatten/Union, a square matrix for Zip/Unzip), runs one call (sub-check
// "single") or a sequence of calls on the SAME arena (sub-check "pair") and compares deep
// snapshots: arguments before vs after every call, and every earlier result after every
// later call.
package c16

import (
	"reflect"
	"fmt"
	"sort"
	"strconv"
	"strings"
	"testing"

	"github.com/esimov/gogu"
	"github.com/esimov/gogu/heap"
	"verif/pbt"
)

// ---------------------------------------------------------------------------
// case type

// Call is one helper call. H is the registry name; N is the small integer argument
// (probe value, key, index, drop count, chunk size), F selects predicate / key
// function / comparator from the finite tables below. Both are ignored by helpers
// that do not take such an argument.
type Call struct {
	H string `json:"h"`
	N int    `json:"n"`
	F int    `json:"f"`
}

// Case: the values of the two base slices, their spare capacities, and the calls
// executed in order on the one arena derived from them.
type Case struct {
	A      []int  `json:"a"`
	B      []int  `json:"b"`
	SpareA int    `json:"spare_a"`
	SpareB int    `json:"spare_b"`
	Calls  []Call `json:"calls"`
}

func (c Case) String() string {
	var sb strings.Builder
	fmt.Fprintf(&sb, "A=%v(+%d spare) B=%v(+%d spare) calls=[", c.A, c.SpareA, c.B, c.SpareB)
	for i, cl := range c.Calls {
		if i > 0 {
			sb.WriteString(", ")
		}
		fmt.Fprintf(&sb, "%s{n=%d f=%d}", cl.H, cl.N, cl.F)
	}
	sb.WriteString("]")
	return sb.String()
}

// ---------------------------------------------------------------------------
// argument slots

type mask uint16

const (
	sA     mask = 1 << iota // a: []int built from Case.A, spare capacity SpareA
	sB                      // b: []int built from Case.B, spare capacity SpareB
	sP                      // p: [][]int{a, b} (the elements ARE a and b), spare capacity with sentinel slices
	sSQ                     // sq: square matrix len(A) x len(A), row i = A rotated by i, rows and outer slice with spare capacity
	sM                      // m: map[int]int{i: A[i]}
	sMS                     // ms: []map[int]int{mapOf(A), mapOf(B)} (own maps), spare capacity with sentinel maps
	sM2                     // m2: []map[int]map[int]int, spare capacity with sentinel
	sNest                   // nest: []any{a, []any{b, 7}, 8}, spare capacity with sentinel
	nSlots = 8
)

var slotNames = [nSlots]string{"a", "b", "p", "sq", "m", "ms", "m2", "nest"}

// closure adds the slots reachable through the elements of p and nest.
func (m mask) closure() mask {
	if m&(sP|sNest) != 0 {
		m |= sA | sB
	}
	return m
}

// needsB: the values of Case.B are visible through the slots.
func (m mask) needsB() bool { return m.closure()&(sB|sMS|sM2) != 0 }

type env struct {
	use  mask
	a, b []int
	p    [][]int
	sq   [][]int
	m    map[int]int
	ms   []map[int]int
	m2   []map[int]map[int]int
	nest []any
}

func mkInts(vals []int, spare, base int) []int {
	if spare < 0 {
		spare = 0
	}
	s := make([]int, len(vals), len(vals)+spare)
	copy(s, vals)
	full := s[:cap(s)]
	for i := len(vals); i < len(full); i++ {
		full[i] = base - i
	}
	return s
}

func mapOf(vals []int) map[int]int {
	m := make(map[int]int, len(vals))
	for i, v := range vals {
		m[i] = v
	}
	return m
}

func newEnv(c *Case, use mask) *env {
	use = use.closure()
	e := &env{use: use}
	e.a = mkInts(c.A, c.SpareA, -1000)
	e.b = mkInts(c.B, c.SpareB, -2000)
	if use&sP != 0 {
		// the list handed over with the spread operator: a, b and two slices of its own (a long one before a short one,
		// so that the tail of the list is not ordered by length), then sentinels in the spare capacity
		e.p = make([][]int, 4, 4+c.SpareA)
		e.p[0], e.p[1] = e.a, e.b
		long := make([]int, len(c.A)+2)
		for i := range long {
			long[i] = i % 3
		}
		e.p[2], e.p[3] = long, []int{1}
		full := e.p[:cap(e.p)]
		for i := 4; i < len(full); i++ {
			full[i] = []int{-3000 - i}
		}
	}
	if use&sSQ != 0 {
		k := len(c.A)
		e.sq = make([][]int, k, k+c.SpareA)
		full := e.sq[:cap(e.sq)]
		for i := range full {
			if i < k {
				row := make([]int, k)
				for j := range row {
					row[j] = c.A[(i+j)%k]
				}
				full[i] = mkInts(row, c.SpareA, -4000-100*i)
			} else {
				full[i] = []int{-4900 - i}
			}
		}
	}
	if use&sM != 0 {
		e.m = mapOf(c.A)
	}
	if use&sMS != 0 {
		e.ms = make([]map[int]int, 2, 2+c.SpareA)
		e.ms[0], e.ms[1] = mapOf(c.A), mapOf(c.B)
		if len(c.B) == 0 {
			// a nil record: a helper that "normalises" it into an empty map writes into the caller's collection
			e.ms[1] = nil
		}
		full := e.ms[:cap(e.ms)]
		for i := 2; i < len(full); i++ {
			full[i] = map[int]int{-5000 - i: -5000 - i}
		}
	}
	if use&sM2 != 0 {
		e.m2 = make([]map[int]map[int]int, 2, 2+c.SpareA)
		e.m2[0] = map[int]map[int]int{0: mapOf(c.A), 1: mapOf(c.B)}
		e.m2[1] = map[int]map[int]int{2: mapOf(c.B)}
		full := e.m2[:cap(e.m2)]
		for i := 2; i < len(full); i++ {
			full[i] = map[int]map[int]int{-6000 - i: {-6000 - i: -6000 - i}}
		}
	}
	if use&sNest != 0 {
		e.nest = make([]any, 3, 3+c.SpareA)
		e.nest[0] = e.a
		e.nest[1] = []any{e.b, 7}
		e.nest[2] = 8
		full := e.nest[:cap(e.nest)]
		for i := 3; i < len(full); i++ {
			full[i] = -7000 - i
		}
	}
	return e
}

// ---------------------------------------------------------------------------
// deep snapshots (rendered as text: cheap to compare, readable in messages)

func rInts(b []byte, s []int) []byte {
	b = append(b, '[')
	for i, v := range s {
		if i > 0 {
			b = append(b, ' ')
		}
		b = strconv.AppendInt(b, int64(v), 10)
	}
	return append(b, ']')
}

func rMap(b []byte, m map[int]int) []byte {
	if m == nil {
		return append(b, "nil-map"...)
	}
	keys := make([]int, 0, len(m))
	for k := range m {
		keys = append(keys, k)
	}
	sort.Ints(keys)
	b = append(b, '{')
	for i, k := range keys {
		if i > 0 {
			b = append(b, ' ')
		}
		b = strconv.AppendInt(b, int64(k), 10)
		b = append(b, ':')
		b = strconv.AppendInt(b, int64(m[k]), 10)
	}
	return append(b, '}')
}

func rLenCap(b []byte, l, c int) []byte {
	b = append(b, "len="...)
	b = strconv.AppendInt(b, int64(l), 10)
	b = append(b, " cap="...)
	b = strconv.AppendInt(b, int64(c), 10)
	return append(b, ' ')
}

func sameBase(x, y []int) bool {
	return cap(x) > 0 && cap(y) > 0 && &x[:1][0] == &y[:1][0]
}

// rElem renders a []int that is an ELEMENT of p or nest: when it is the slice a or b
// itself only its identity and header are rendered (the contents are covered by the
// slots a and b, which matters when an in-place helper legitimately rewrites them);
// any other slice is rendered with its full capacity region.
func (e *env) rElem(b []byte, s []int) []byte {
	switch {
	case sameBase(s, e.a):
		b = append(b, "a:"...)
		return rLenCap(b, len(s), cap(s))
	case sameBase(s, e.b):
		b = append(b, "b:"...)
		return rLenCap(b, len(s), cap(s))
	}
	b = append(b, '(')
	b = rLenCap(b, len(s), cap(s))
	b = rInts(b, s[:cap(s)])
	return append(b, ')')
}

func (e *env) rAny(b []byte, v any, depth int) []byte {
	if depth > 6 {
		return append(b, "<deep>"...)
	}
	switch x := v.(type) {
	case int:
		return strconv.AppendInt(b, int64(x), 10)
	case []int:
		return e.rElem(b, x)
	case []any:
		b = append(b, '<')
		b = rLenCap(b, len(x), cap(x))
		for _, el := range x[:cap(x)] {
			b = e.rAny(b, el, depth+1)
			b = append(b, ',')
		}
		return append(b, '>')
	}
	return append(b, fmt.Sprintf("?%T:%v", v, v)...)
}

// slotSnap: fixed = the part no helper may change; free = the part an in-place helper
// may rewrite when this slot is its documented in-place argument.
type slotSnap struct{ fixed, free string }

type snapshot [nSlots]slotSnap

func intsSnap(s []int) slotSnap {
	b := make([]byte, 0, 64)
	b = rLenCap(b, len(s), cap(s))
	b = append(b, "beyond-len="...)
	b = rInts(b, s[len(s):cap(s)])
	return slotSnap{fixed: string(b), free: string(rInts(nil, s))}
}

func (e *env) snap() snapshot {
	var sn snapshot
	u := e.use
	if u&sA != 0 {
		sn[0] = intsSnap(e.a)
	}
	if u&sB != 0 {
		sn[1] = intsSnap(e.b)
	}
	if u&sP != 0 {
		b := rLenCap(make([]byte, 0, 96), len(e.p), cap(e.p))
		for _, el := range e.p[:cap(e.p)] {
			b = e.rElem(b, el)
			b = append(b, ',')
		}
		sn[2].fixed = string(b)
	}
	if u&sSQ != 0 {
		b := rLenCap(make([]byte, 0, 128), len(e.sq), cap(e.sq))
		for _, row := range e.sq[:cap(e.sq)] {
			b = append(b, '(')
			b = rLenCap(b, len(row), cap(row))
			b = rInts(b, row[:cap(row)])
			b = append(b, ')')
		}
		sn[3].fixed = string(b)
	}
	if u&sM != 0 {
		sn[4].free = string(rMap(nil, e.m))
	}
	if u&sMS != 0 {
		b := rLenCap(make([]byte, 0, 96), len(e.ms), cap(e.ms))
		for _, m := range e.ms[:cap(e.ms)] {
			b = rMap(b, m)
		}
		sn[5].fixed = string(b)
	}
	if u&sM2 != 0 {
		b := rLenCap(make([]byte, 0, 128), len(e.m2), cap(e.m2))
		sn[6].fixed = string(b) + fmt.Sprint(e.m2[:cap(e.m2)])
	}
	if u&sNest != 0 {
		sn[7].fixed = string(e.rAny(make([]byte, 0, 96), e.nest, 0))
	}
	return sn
}

// withErr is the result of a helper returning (value, error).
type withErr struct {
	V   any
	Err string
}

func we(v any, err error) any {
	if err != nil {
		return withErr{v, "error: " + err.Error()}
	}
	return withErr{v, "nil"}
}

// scribble overwrites the TOP level of a result the way its owner may: integer elements of a slice and integer values
// of a map become -7777. Nested containers are left alone: a result may legitimately hold the caller's own inner maps
// or slices (FilterMapCollection, PartitionMap, ... return collections of the maps they were given).
func scribble(v reflect.Value) {
	switch v.Kind() {
	case reflect.Interface, reflect.Pointer:
		if !v.IsNil() {
			scribble(v.Elem())
		}
	case reflect.Slice:
		for i := 0; i < v.Len(); i++ {
			if el := v.Index(i); el.Kind() == reflect.Int {
				el.SetInt(-7777)
			}
		}
	case reflect.Map:
		for _, k := range v.MapKeys() {
			if v.MapIndex(k).Kind() == reflect.Int {
				v.SetMapIndex(k, reflect.ValueOf(-7777))
			}
		}
	case reflect.Struct: // withErr{value, error text}
		for i := 0; i < v.NumField(); i++ {
			scribble(v.Field(i))
		}
	}
}

// growInto does what append does when there is room: it writes into the spare capacity of every []int a fresh result
// consists of (the result itself, the members of a [][]int or [2][]int, the values of a map[int][]int), and zero values into the spare capacity of slices of maps or slices. The elements of
// the results and the arguments must not notice: pieces of one result, two results, a result and an argument do not lie
// in each other's spare capacity.
func growInto(v reflect.Value, depth int) {
	switch v.Kind() {
	case reflect.Interface, reflect.Pointer:
		if !v.IsNil() {
			growInto(v.Elem(), depth)
		}
	case reflect.Slice:
		if v.IsNil() {
			return
		}
		full := v.Slice3(0, v.Cap(), v.Cap())
		for i := v.Len(); i < v.Cap(); i++ {
			if el := full.Index(i); el.Kind() == reflect.Int {
				el.SetInt(-8888)
			} else if el.CanSet() {
				el.Set(reflect.Zero(el.Type())) // a nil map / nil slice where a neighbour's element may have been
			}
		}
		if v.Type().Elem().Kind() == reflect.Int {
			return
		}
		if depth == 0 {
			for i := 0; i < v.Len(); i++ {
				growInto(v.Index(i), 1)
			}
		}
	case reflect.Array:
		if depth == 0 {
			for i := 0; i < v.Len(); i++ {
				growInto(v.Index(i), 1)
			}
		}
	case reflect.Map:
		if depth == 0 {
			for _, k := range v.MapKeys() {
				growInto(v.MapIndex(k), 1)
			}
		}
	case reflect.Struct: // withErr{value, error text}
		for i := 0; i < v.NumField(); i++ {
			growInto(v.Field(i), depth)
		}
	}
}

// renderRes renders a result over its length (what a caller observes).
func renderRes(v any) string {
	switch x := v.(type) {
	case nil:
		return "<no result>"
	case []int:
		return string(rInts(nil, x))
	case map[int]int:
		return string(rMap(nil, x))
	case *heap.Heap[int]:
		if x == nil {
			return "nil-heap"
		}
		return "heap" + string(rInts(nil, x.GetValues()))
	case withErr:
		return "(" + renderRes(x.V) + ", " + x.Err + ")"
	}
	return fmt.Sprint(v) // fmt prints maps in key order
}

// ---------------------------------------------------------------------------
// callback tables (all pure; elements are passed by value)

const nF = 4

// duringHook, when set, is called by every predicate / key function before it answers: the property uses it to look
// at the arguments WHILE a helper is running (a helper that returns something new must not rearrange its arguments,
// not even temporarily: a callback, or another goroutine, reading the same slice would see it).
var duringHook func()

func observe() {
	if duringHook != nil {
		duringHook()
	}
}

func pred(f int) func(int) bool {
	p := purePred(f)
	return func(v int) bool { observe(); return p(v) }
}

func keyFn(f int) func(int) int {
	k := pureKeyFn(f)
	return func(v int) int { observe(); return k(v) }
}

func purePred(f int) func(int) bool {
	switch ((f % nF) + nF) % nF {
	case 0:
		return func(v int) bool { return v%2 != 0 }
	case 1:
		return func(int) bool { return true }
	case 2:
		return func(int) bool { return false }
	}
	return func(v int) bool { return v < 2 }
}

func pureKeyFn(f int) func(int) int {
	switch ((f % nF) + nF) % nF {
	case 0:
		return func(v int) int { return v }
	case 1:
		return func(v int) int { return v % 2 }
	case 2:
		return func(int) int { return 0 }
	}
	return func(v int) int { return v + 1 }
}

func comp(f int) gogu.CompFn[int] {
	if f%2 == 0 {
		return func(a, b int) bool { return a < b }
	}
	return func(a, b int) bool { return a > b }
}

// ---------------------------------------------------------------------------
// registry

const (
	clScalar  = iota // returns no slice/map (number, bool, index, nothing)
	clFresh          // returns a new slice/map: may never alias an argument
	clView           // Drop, Chunk: re-slice the argument, never write
	clInPlace        // Reverse, Reject, Omit, OmitBy, heap.FromSlice, heap.Sort
)

var classNames = []string{"scalar", "fresh", "view", "in-place"}

type skip struct{} // the call is outside the helper's domain and was not made

type helper struct {
	name   string
	class  int
	uses   mask // slots passed as arguments
	target mask // in-place helpers: the one slot they may modify
	alias  mask // slots the result may legitimately share storage with
	needN  bool
	needF  bool
	call   func(e *env, c Call) any
}

func (h *helper) n() *helper { h.needN = true; return h }
func (h *helper) f() *helper { h.needF = true; return h }

// ownResult: an in-place helper whose RESULT is nevertheless a slice of its own (heap.Sort sorts its argument in place and
// returns a copy): the result shares storage with nothing and later calls on the same argument leave it alone.
func (h *helper) ownResult() *helper { h.alias = 0; return h }

func scalar(name string, uses mask, call func(e *env, c Call) any) *helper {
	return &helper{name: name, class: clScalar, uses: uses, call: call}
}
func fresh(name string, uses mask, call func(e *env, c Call) any) *helper {
	return &helper{name: name, class: clFresh, uses: uses, call: call}
}
func view(name string, uses mask, call func(e *env, c Call) any) *helper {
	return &helper{name: name, class: clView, uses: uses, alias: uses, call: call}
}
func inPlace(name string, uses, target mask, call func(e *env, c Call) any) *helper {
	return &helper{name: name, class: clInPlace, uses: uses, target: target, alias: target, call: call}
}

var registry = []*helper{
	// slice.go
	scalar("Sum", sA, func(e *env, c Call) any { return gogu.Sum(e.a) }),
	scalar("SumBy", sA, func(e *env, c Call) any { return gogu.SumBy(e.a, keyFn(c.F)) }).f(),
	scalar("Mean", sA, func(e *env, c Call) any {
		if len(e.a) == 0 {
			return skip{} // integer division by zero; C13 restricts Mean to non-empty slices
		}
		return gogu.Mean(e.a)
	}),
	scalar("IndexOf", sA, func(e *env, c Call) any { return gogu.IndexOf(e.a, c.N) }).n(),
	scalar("LastIndexOf", sA, func(e *env, c Call) any { return gogu.LastIndexOf(e.a, c.N) }).n(),
	fresh("Map", sA, func(e *env, c Call) any { return gogu.Map(e.a, keyFn(c.F)) }).f(),
	scalar("ForEach", sA, func(e *env, c Call) any {
		acc := 0
		gogu.ForEach(e.a, func(v int) { observe(); acc += v })
		return acc
	}),
	scalar("ForEachRight", sA, func(e *env, c Call) any {
		acc := 0
		gogu.ForEachRight(e.a, func(v int) { observe(); acc = acc*3 + v })
		return acc
	}),
	scalar("Reduce", sA, func(e *env, c Call) any {
		return gogu.Reduce(e.a, func(v, acc int) int { observe(); return acc + v }, 0)
	}),
	inPlace("Reverse", sA, sA, func(e *env, c Call) any { return gogu.Reverse(e.a) }),
	fresh("Unique", sA, func(e *env, c Call) any { return gogu.Unique(e.a) }),
	fresh("UniqueBy", sA, func(e *env, c Call) any { return gogu.UniqueBy(e.a, keyFn(c.F)) }).f(),
	scalar("Every", sA, func(e *env, c Call) any { return gogu.Every(e.a, pred(c.F)) }).f(),
	scalar("Some", sA, func(e *env, c Call) any { return gogu.Some(e.a, pred(c.F)) }).f(),
	fresh("Partition", sA, func(e *env, c Call) any { return gogu.Partition(e.a, pred(c.F)) }).f(),
	scalar("Contains", sA, func(e *env, c Call) any { return gogu.Contains(e.a, c.N) }).n(),
	fresh("Duplicate", sA, func(e *env, c Call) any { return gogu.Duplicate(e.a) }),
	fresh("DuplicateWithIndex", sA, func(e *env, c Call) any { return gogu.DuplicateWithIndex(e.a) }),
	fresh("Merge/0", sA, func(e *env, c Call) any { return gogu.Merge(e.a) }),
	fresh("Merge/1", sA|sB, func(e *env, c Call) any { return gogu.Merge(e.a, e.b) }),
	fresh("Merge/1swapped", sA|sB, func(e *env, c Call) any { return gogu.Merge(e.b, e.a) }),
	fresh("Merge/spread", sA|sP, func(e *env, c Call) any { return gogu.Merge(e.a, e.p...) }),
	fresh("Flatten/slice", sA, func(e *env, c Call) any { return we(gogu.Flatten[int](e.a)) }),
	fresh("Flatten/nest", sNest, func(e *env, c Call) any { return we(gogu.Flatten[int](e.nest)) }),
	fresh("Union/slice", sA, func(e *env, c Call) any { return we(gogu.Union[int](e.a)) }),
	fresh("Union/nest", sNest, func(e *env, c Call) any { return we(gogu.Union[int](e.nest)) }),
	fresh("Intersection/1", sA, func(e *env, c Call) any { return gogu.Intersection(e.a) }),
	fresh("Intersection/2", sA|sB, func(e *env, c Call) any { return gogu.Intersection(e.a, e.b) }),
	fresh("Intersection/spread", sP, func(e *env, c Call) any { return gogu.Intersection(e.p...) }),
	fresh("IntersectionBy/2", sA|sB, func(e *env, c Call) any { return gogu.IntersectionBy(keyFn(c.F), e.a, e.b) }).f(),
	fresh("IntersectionBy/spread", sP, func(e *env, c Call) any { return gogu.IntersectionBy(keyFn(c.F), e.p...) }).f(),
	fresh("Without/1", sA, func(e *env, c Call) any { return gogu.Without[int, int](e.a, c.N) }).n(),
	fresh("Without/spread", sA|sB, func(e *env, c Call) any { return gogu.Without[int, int](e.a, e.b...) }),
	fresh("Difference", sA|sB, func(e *env, c Call) any { return gogu.Difference(e.a, e.b) }),
	fresh("DifferenceBy", sA|sB, func(e *env, c Call) any { return gogu.DifferenceBy(e.a, e.b, keyFn(c.F)) }).f(),
	// the same slice in two argument positions: the result is still a slice of its own
	fresh("Difference/self", sA, func(e *env, c Call) any { return gogu.Difference(e.a, e.a) }),
	fresh("DifferenceBy/self", sA, func(e *env, c Call) any { return gogu.DifferenceBy(e.a, e.a, keyFn(c.F)) }).f(),
	fresh("Intersection/self", sA, func(e *env, c Call) any { return gogu.Intersection(e.a, e.a) }),
	fresh("Merge/self", sA, func(e *env, c Call) any { return gogu.Merge(e.a, e.a) }),
	fresh("Without/self", sA, func(e *env, c Call) any { return gogu.Without[int, int](e.a, e.a...) }),
	view("Chunk", sA, func(e *env, c Call) any { return gogu.Chunk(e.a, c.N) }).n(), // panics for size <= 0 (documented)
	view("Drop", sA, func(e *env, c Call) any { return gogu.Drop(e.a, c.N) }).n(),
	fresh("DropWhile", sA, func(e *env, c Call) any { return gogu.DropWhile(e.a, pred(c.F)) }).f(),
	fresh("DropRightWhile", sA, func(e *env, c Call) any { return gogu.DropRightWhile(e.a, pred(c.F)) }).f(),
	fresh("GroupBy", sA, func(e *env, c Call) any { return gogu.GroupBy(e.a, keyFn(c.F)) }).f(),
	fresh("Zip", sSQ, func(e *env, c Call) any { return gogu.Zip(e.sq...) }),
	fresh("Unzip", sSQ, func(e *env, c Call) any { return gogu.Unzip(e.sq...) }),
	fresh("Zip/ab", sA|sB, func(e *env, c Call) any { return gogu.Zip(e.a, e.b) }),     // panics unless both have length 2 (documented)
	fresh("Unzip/ab", sA|sB, func(e *env, c Call) any { return gogu.Unzip(e.a, e.b) }), // ditto
	fresh("ToSlice", sA, func(e *env, c Call) any { return gogu.ToSlice(e.a...) }),

	// filter.go
	fresh("Filter", sA, func(e *env, c Call) any { return gogu.Filter(e.a, pred(c.F)) }).f(),
	inPlace("Reject", sA, sA, func(e *env, c Call) any { return gogu.Reject(e.a, pred(c.F)) }).f(),
	fresh("FilterMap", sM, func(e *env, c Call) any { return gogu.FilterMap(e.m, pred(c.F)) }).f(),
	fresh("FilterMapCollection", sMS, func(e *env, c Call) any { return gogu.FilterMapCollection(e.ms, pred(c.F)) }).f(),
	fresh("Filter2DMapCollection", sM2, func(e *env, c Call) any {
		p := pred(c.F)
		return gogu.Filter2DMapCollection(e.m2, func(m map[int]int) bool { return p(len(m)) })
	}).f(),

	// find.go
	scalar("FindIndex", sA, func(e *env, c Call) any { return gogu.FindIndex(e.a, pred(c.F)) }).f(),
	scalar("FindLastIndex", sA, func(e *env, c Call) any { return gogu.FindLastIndex(e.a, pred(c.F)) }).f(),
	fresh("FindAll", sA, func(e *env, c Call) any { return gogu.FindAll(e.a, pred(c.F)) }).f(),
	scalar("FindMin", sA, func(e *env, c Call) any { return gogu.FindMin(e.a) }),
	scalar("FindMinBy", sA, func(e *env, c Call) any { return gogu.FindMinBy(e.a, keyFn(c.F)) }).f(),
	scalar("FindMinByKey", sMS, func(e *env, c Call) any { return we(gogu.FindMinByKey(e.ms, c.N)) }).n(),
	scalar("FindMax", sA, func(e *env, c Call) any { return gogu.FindMax(e.a) }),
	scalar("FindMaxBy", sA, func(e *env, c Call) any { return gogu.FindMaxBy(e.a, keyFn(c.F)) }).f(),
	scalar("FindMaxByKey", sMS, func(e *env, c Call) any { return we(gogu.FindMaxByKey(e.ms, c.N)) }).n(),
	scalar("Nth", sA, func(e *env, c Call) any { return we(gogu.Nth(e.a, c.N)) }).n(),

	// map.go
	fresh("Keys", sM, func(e *env, c Call) any { return gogu.Keys(e.m) }),
	fresh("Values", sM, func(e *env, c Call) any { return gogu.Values(e.m) }),
	fresh("MapValues", sM, func(e *env, c Call) any { return gogu.MapValues(e.m, keyFn(c.F)) }).f(),
	fresh("MapKeys", sM, func(e *env, c Call) any {
		k := keyFn(c.F)
		return gogu.MapKeys(e.m, func(key, _ int) int { return k(key) })
	}).f(),
	scalar("MapEvery", sM, func(e *env, c Call) any { return gogu.MapEvery(e.m, pred(c.F)) }).f(),
	scalar("MapSome", sM, func(e *env, c Call) any { return gogu.MapSome(e.m, pred(c.F)) }).f(),
	scalar("MapContains", sM, func(e *env, c Call) any { return gogu.MapContains(e.m, c.N) }).n(),
	fresh("MapUnique", sM, func(e *env, c Call) any { return gogu.MapUnique(e.m) }),
	fresh("MapCollection", sM, func(e *env, c Call) any { return gogu.MapCollection(e.m, keyFn(c.F)) }).f(),
	fresh("Find", sM, func(e *env, c Call) any { return gogu.Find(e.m, pred(c.F)) }).f(),
	scalar("FindKey", sM, func(e *env, c Call) any { return gogu.FindKey(e.m, pred(c.F)) }).f(),
	fresh("FindByKey", sM, func(e *env, c Call) any { return gogu.FindByKey(e.m, pred(c.F)) }).f(),
	fresh("Invert", sM, func(e *env, c Call) any { return gogu.Invert(e.m) }),
	fresh("Pluck", sMS, func(e *env, c Call) any { return gogu.Pluck(e.ms, c.N) }).n(),
	fresh("Pick/1", sM, func(e *env, c Call) any { return we(gogu.Pick(e.m, c.N)) }).n(),
	fresh("Pick/spread", sM|sB, func(e *env, c Call) any { return we(gogu.Pick(e.m, e.b...)) }),
	fresh("PickBy", sM, func(e *env, c Call) any {
		p := pred(c.F)
		return gogu.PickBy(e.m, func(_, v int) bool { return p(v) })
	}).f(),
	inPlace("Omit/1", sM, sM, func(e *env, c Call) any { return gogu.Omit(e.m, c.N) }).n(),
	inPlace("Omit/spread", sM|sB, sM, func(e *env, c Call) any { return gogu.Omit(e.m, e.b...) }),
	inPlace("OmitBy", sM, sM, func(e *env, c Call) any {
		p := pred(c.F)
		return gogu.OmitBy(e.m, func(_, v int) bool { return p(v) })
	}).f(),
	fresh("PartitionMap", sMS, func(e *env, c Call) any {
		p := pred(c.F)
		return gogu.PartitionMap(e.ms, func(m map[int]int) bool { return p(len(m)) })
	}).f(),
	fresh("SliceToMap", sA|sB, func(e *env, c Call) any { return gogu.SliceToMap(e.a, e.b) }), // panics on unequal lengths (documented)

	// shuffle.go
	fresh("Shuffle", sA, func(e *env, c Call) any { return gogu.Shuffle(e.a) }),

	// variadic numeric helpers called with a spread slice (math.go, range.go)
	scalar("Min", sA, func(e *env, c Call) any {
		if len(e.a) == 0 {
			return skip{} // needs at least one value
		}
		return gogu.Min(e.a...)
	}),
	scalar("Max", sA, func(e *env, c Call) any {
		if len(e.a) == 0 {
			return skip{}
		}
		return gogu.Max(e.a...)
	}),
	fresh("Range", sA, func(e *env, c Call) any {
		if !rangeArgsOK(e.a) {
			return skip{}
		}
		return we(gogu.Range(e.a...))
	}),
	fresh("RangeRight", sA, func(e *env, c Call) any {
		if !rangeArgsOK(e.a) {
			return skip{}
		}
		return we(gogu.RangeRight(e.a...))
	}),

	// package heap
	inPlace("heap.FromSlice", sA, sA, func(e *env, c Call) any { return heap.FromSlice(e.a, comp(c.F)) }).f(),
	inPlace("heap.Sort", sA, sA, func(e *env, c Call) any { return heap.Sort(e.a, comp(c.F)) }).f().ownResult(),
}

// rangeArgsOK keeps Range inside a small, certainly terminating domain.
func rangeArgsOK(a []int) bool {
	for _, v := range a {
		if v < -20 || v > 20 {
			return false
		}
	}
	return true
}

var (
	byName  = map[string]*helper{}
	pairs   [][2]int // ordered pairs of registry indices sharing an argument slot
	inPlIdx []int    // indices of the in-place helpers
)

func init() {
	for i, h := range registry {
		if byName[h.name] != nil {
			panic("duplicate helper " + h.name)
		}
		byName[h.name] = h
		if h.class == clInPlace {
			inPlIdx = append(inPlIdx, i)
		}
	}
	for i, h1 := range registry {
		for j, h2 := range registry {
			if h1.uses.closure()&h2.uses.closure() != 0 {
				pairs = append(pairs, [2]int{i, j})
			}
		}
	}
}

// ---------------------------------------------------------------------------
// property

type earlier struct {
	idx  int
	h    *helper
	val  any
	snap string
}

func callHelper(h *helper, e *env, c Call) (res any, panicked string) {
	defer func() {
		if p := recover(); p != nil {
			res, panicked = nil, fmt.Sprint(p)
		}
	}()
	return h.call(e, c), ""
}

func prop(c Case, r *pbt.R) error {
	if len(c.Calls) == 0 {
		return nil
	}
	hs := make([]*helper, len(c.Calls))
	var use mask
	for i, cl := range c.Calls {
		h := byName[cl.H]
		if h == nil {
			return fmt.Errorf("harness: unknown helper %q in case", cl.H)
		}
		hs[i] = h
		use |= h.uses
	}
	if len(c.Calls) > 8 || len(c.A) > 256 || len(c.B) > 256 || c.SpareA > 64 || c.SpareB > 64 {
		return fmt.Errorf("harness: case outside the supported size")
	}
	e := newEnv(&c, use)
	var results []earlier
	sliceResults := 0

	for i, cl := range c.Calls {
		h := hs[i]
		before := e.snap()
		during := ""
		duringHook = func() {
			if during != "" {
				return
			}
			now := e.snap()
			for sl := 0; sl < nSlots; sl++ {
				if h.target&(1<<uint(sl)) != 0 {
					continue // the one argument an in-place helper works on
				}
				if now[sl] != before[sl] {
					during = fmt.Sprintf("argument slot %d read %q / %q while a callback of the helper was running, it was %q / %q when the helper was called", sl, now[sl].fixed, now[sl].free, before[sl].fixed, before[sl].free)
					return
				}
			}
		}
		res, panicked := callHelper(h, e, cl)
		duringHook = nil
		after := e.snap()
		if during != "" {
			return fmt.Errorf("call %d %s{n=%d f=%d} (%s helper) in %s: %s (a helper may not rearrange an argument it does not own, not even for the duration of the call)", i, h.name, cl.N, cl.F, classNames[h.class], c.String(), during)
		}
		r.Label("class:" + classNames[h.class])
		if panicked != "" {
			// A panic (documented rejection or not) is not this property's business; the
			// arguments must be undisturbed all the same.
			r.Label("panicked:" + h.name)
		}
		if _, ok := res.(skip); ok {
			r.Label("domain-skip:" + h.name)
			res = nil
		}
		where := func() string {
			return fmt.Sprintf("call %d %s{n=%d f=%d} (%s helper) in %v", i, cl.H, cl.N, cl.F, classNames[h.class], c)
		}

		// 1. arguments: everything unchanged, except elements [0,len) / entries of the ONE
		// documented argument of an in-place helper.
		changedTarget := false
		for s := 0; s < nSlots; s++ {
			bit := mask(1) << s
			if before[s].fixed != after[s].fixed {
				what := "argument"
				if s <= 1 {
					what = "header or capacity region (sentinels) of argument"
				}
				return fmt.Errorf("%s: %s %s changed: before %q after %q", where(), what, slotNames[s], before[s].fixed, after[s].fixed)
			}
			if before[s].free != after[s].free {
				if h.target&bit != 0 {
					changedTarget = true
					continue
				}
				return fmt.Errorf("%s: argument %s changed: before %s after %s", where(), slotNames[s], before[s].free, after[s].free)
			}
		}

		// 2. earlier results: unchanged, unless this call is in-place on a slot the earlier
		// result legitimately shares storage with (view / in-place results).
		for k := range results {
			er := &results[k]
			if h.target != 0 && er.h.alias.closure()&h.target != 0 {
				// legitimately shared storage: take the new contents as the reference for later calls
				r.Label("earlier " + classNames[er.h.class] + " result exempt (later in-place)")
				er.snap = renderRes(er.val)
				continue
			}
			now := renderRes(er.val)
			if now != er.snap {
				return fmt.Errorf("%s: the result of earlier call %d %s (%s helper) was altered: it was %s, now reads %s",
					where(), er.idx, er.h.name, classNames[er.h.class], er.snap, now)
			}
			if h.target != 0 && changedTarget && er.h.class == clFresh {
				r.NonTrivialIf(true, "fresh result survives a later in-place call that changed its argument")
			}
		}

		spare := (use.closure()&(sA|sP|sSQ|sMS|sM2|sNest) != 0 && c.SpareA > 0) || (use.closure()&sB != 0 && c.SpareB > 0)
		if res != nil && h.class != clScalar {
			sliceResults++
			r.NonTrivialIf(spare, "slice/map result with spare capacity in the arguments")
		}
		r.NonTrivialIf(changedTarget, "in-place helper changed its argument")
		if spare && sliceResults >= 2 {
			r.NonTrivialIf(true, "two slice/map results, spare capacity")
		}
		if res != nil {
			results = append(results, earlier{idx: i, h: h, val: res, snap: renderRes(res)})
		}
	}
	if len(c.Calls) == 2 {
		r.Label("pair:" + classNames[hs[0].class] + " then " + classNames[hs[1].class])
	}
	// Epilogue: a fresh result belongs to the caller. The case overwrites the top level of every fresh result it received
	// (-7777, a value no argument holds) and repeats every call: no answer may contain that value (the library keeps no
	// reference to a result it handed out) and the arguments are still what they were.
	final := e.snap()
	for k := range results {
		if results[k].h.class == clFresh {
			growInto(reflect.ValueOf(results[k].val), 0)
		}
	}
	for _, er := range results {
		if er.h.class == clFresh {
			if now := renderRes(er.val); now != er.snap {
				return fmt.Errorf("%v: after the caller wrote into the spare capacity of the fresh results (as append does), the result of call %d %s reads %s, it was %s: two pieces handed out lie in each other's spare capacity", c, er.idx, er.h.name, now, er.snap)
			}
		}
	}
	if now := e.snap(); now != final {
		return fmt.Errorf("%v: writing into the spare capacity of the fresh results (as append does) changed an argument", c)
	}
	for k := range results {
		if results[k].h.class == clFresh {
			scribble(reflect.ValueOf(results[k].val))
		}
	}
	if now := e.snap(); now != final {
		return fmt.Errorf("%v: overwriting the RESULTS of the fresh helpers changed an argument (a result shares storage with it)", c)
	}
	for i, cl := range c.Calls {
		h := hs[i]
		if h.class != clFresh {
			continue
		}
		if again, p := callHelper(h, e, cl); p == "" && again != nil {
			if got := renderRes(again); strings.Contains(got, "-7777") {
				return fmt.Errorf("%v: after the caller overwrote the results it had received with -7777, call %d %s{n=%d f=%d} repeated with unchanged arguments returns %s: the library kept a reference to a result it had handed out", c, i, h.name, cl.N, cl.F, got)
			}
		}
	}
	if now := e.snap(); now != final {
		return fmt.Errorf("%v: repeating the calls changed an argument", c)
	}
	return nil
}

// ---------------------------------------------------------------------------
// generators

type scope struct {
	maxA, maxB int   // maximal lengths
	lo, hi     int   // element values
	spares     []int // spare capacities
	jointSpare bool  // SpareB = SpareA (when b is used)
	ns         []int // values of N
	nf         int   // F in [0, nf)
	sharedNF   bool  // pair: both calls get the same N and F
}

func scopeOf(thorough bool, ncalls int) scope {
	switch {
	case ncalls == 1 && !thorough:
		return scope{maxA: 3, maxB: 3, lo: 0, hi: 2, spares: []int{0, 1, 3}, ns: []int{-2, -1, 0, 1, 2, 3}, nf: 4}
	case ncalls == 1:
		return scope{maxA: 5, maxB: 3, lo: 0, hi: 2, spares: []int{0, 1, 2, 4}, ns: []int{-2, -1, 0, 1, 2, 3}, nf: 4}
	case !thorough:
		return scope{maxA: 3, maxB: 2, lo: 1, hi: 2, spares: []int{0, 1, 3}, jointSpare: true, ns: []int{-1, 0, 1, 2}, nf: 3, sharedNF: true}
	}
	return scope{maxA: 3, maxB: 3, lo: 0, hi: 2, spares: []int{0, 1, 3}, jointSpare: true, ns: []int{-2, -1, 0, 1, 2, 3}, nf: 4}
}

func fill(s pbt.Src, sc scope, hs []*helper) Case {
	var use mask
	anyN, anyF := false, false
	for _, h := range hs {
		use |= h.uses
		anyN = anyN || h.needN
		anyF = anyF || h.needF
	}
	val := func(s pbt.Src) int { return pbt.Range(s, sc.lo, sc.hi) }
	c := Case{A: pbt.Seq(s, 0, sc.maxA, val), B: []int{}}
	needB := use.needsB()
	if needB {
		c.B = pbt.Seq(s, 0, sc.maxB, val)
	}
	c.SpareA = sc.spares[s.Intn(len(sc.spares))]
	if use.closure()&sB != 0 {
		if sc.jointSpare {
			c.SpareB = c.SpareA
		} else {
			c.SpareB = sc.spares[s.Intn(len(sc.spares))]
		}
	}
	c.Calls = make([]Call, len(hs))
	var n, f int
	if sc.sharedNF {
		if anyN {
			n = sc.ns[s.Intn(len(sc.ns))]
		}
		if anyF {
			f = s.Intn(sc.nf)
		}
	}
	for i, h := range hs {
		cl := Call{H: h.name}
		if h.needN {
			if sc.sharedNF {
				cl.N = n
			} else {
				cl.N = sc.ns[s.Intn(len(sc.ns))]
			}
		}
		if h.needF {
			if sc.sharedNF {
				cl.F = f
			} else {
				cl.F = s.Intn(sc.nf)
			}
		}
		c.Calls[i] = cl
	}
	return c
}

func enumSingle(s pbt.Src, thorough bool) Case {
	h := registry[s.Intn(len(registry))]
	return fill(s, scopeOf(thorough, 1), []*helper{h})
}

func enumPair(s pbt.Src, thorough bool) Case {
	pr := pairs[s.Intn(len(pairs))]
	return fill(s, scopeOf(thorough, 2), []*helper{registry[pr[0]], registry[pr[1]]})
}

// random: longer slices (one case in six: up to 20..130 elements), wider values, larger spare capacities, sequences of up to 5 calls
// (every earlier result is re-read after every later call); one call in three is in-place.
func genN(s pbt.Src, thorough bool, minCalls, maxCalls int) Case {
	maxLen := 10
	if thorough {
		maxLen = 16
	}
	if s.Intn(6) == 0 {
		// long arguments: beyond the sizes (16, 32, 64, 128) at which an implementation might change strategy
		maxLen = pbt.Pick(s, 20, 40, 70, 130)
	}
	val := func(s pbt.Src) int { return pbt.Range(s, -3, 9) }
	c := Case{A: pbt.Seq(s, 0, maxLen, val), B: pbt.Seq(s, 0, maxLen, val)}
	c.SpareA = s.Intn(9)
	c.SpareB = s.Intn(9)
	c.Calls = pbt.Seq(s, minCalls, maxCalls, func(s pbt.Src) Call {
		var h *helper
		if s.Intn(3) == 0 {
			h = registry[inPlIdx[s.Intn(len(inPlIdx))]]
		} else {
			h = registry[s.Intn(len(registry))]
		}
		cl := Call{H: h.name}
		if h.needN {
			cl.N = pbt.Range(s, -12, 12)
		}
		if h.needF {
			cl.F = s.Intn(nF)
		}
		return cl
	})
	return c
}

func outOfEnum(c Case, thorough bool) bool {
	if len(c.Calls) > 2 {
		return true
	}
	sc := scopeOf(thorough, len(c.Calls))
	if len(c.A) > sc.maxA || len(c.B) > sc.maxB {
		return true
	}
	for _, v := range append(append([]int{}, c.A...), c.B...) {
		if v < sc.lo || v > sc.hi {
			return true
		}
	}
	return c.SpareA > sc.spares[len(sc.spares)-1]
}

const commonRule = "registry of %d calls forms of every exported slice/map helper of the root package plus heap.FromSlice/heap.Sort, each with its contract class " +
	"(scalar / fresh result / view: Drop, Chunk / in-place: Reverse, Reject, Omit, OmitBy, heap.FromSlice, heap.Sort); variadic helpers are also called with a spread slice. " +
	"Arguments come from one arena per case: a, b = []int inside backing arrays with spare capacity and sentinels beyond len, p = [][]int{a, b}, a square matrix, " +
	"map m, slices of maps ms/m2 and a nesting []any{a, []any{b, 7}, 8}, all outer slices with spare capacity and sentinel elements. " +
	"Oracle: deep snapshot (capacity regions included) of every argument before vs after each call: identical, except elements [0,len) of the slice / entries of the map " +
	"that is THE documented argument of an in-place helper; every earlier result re-read after every later call: identical, unless the later call is in-place on the " +
	"argument a view/in-place result shares storage with. Panics (Chunk size <= 0, Zip/Unzip non-square, SliceToMap unequal lengths) are recovered: no result, arguments still compared. " +
	"Mean/Min/Max are not called on an empty slice. String helpers are vacuous here (Go strings are immutable) and not exercised. "

// ---------------------------------------------------------------------------
// string helpers: a string result is never altered by a later call (a Go string is immutable only as long as the
// library does not build it over memory it reuses)

// StrCall: helper index into strHelpers; S and T index into strInputs / strTokens; N a size/offset.
type StrCall struct {
	H int `json:"h"`
	S int `json:"s"`
	T int `json:"t"`
	N int `json:"n"`
}

type StrCase struct {
	Calls []StrCall `json:"calls"`
}

var strInputs = []string{"item-000", "ab", "", "héllo wörld", "foo bar_baz", "*x*", "A"}
var strTokens = []string{"*", "-", "ab", "é"}

type strHelper struct {
	name string
	call func(s, tok string, n int) []string
}

func one(s string) []string { return []string{s} }

var strHelpers = []strHelper{
	{"Wrap", func(s, t string, n int) []string { return one(gogu.Wrap(s, t)) }},
	{"WrapAllRune", func(s, t string, n int) []string { return one(gogu.WrapAllRune(s, t)) }},
	{"Unwrap", func(s, t string, n int) []string { return one(gogu.Unwrap(s, t)) }},
	{"Pad", func(s, t string, n int) []string { return one(gogu.Pad(s, len(s)+n, t)) }},
	{"PadLeft", func(s, t string, n int) []string { return one(gogu.PadLeft(s, len(s)+n, t)) }},
	{"PadRight", func(s, t string, n int) []string { return one(gogu.PadRight(s, len(s)+n, t)) }},
	{"Substr", func(s, t string, n int) []string { return one(gogu.Substr(s, n%3, len(s))) }},
	{"ToLower", func(s, t string, n int) []string { return one(gogu.ToLower(s)) }},
	{"ToUpper", func(s, t string, n int) []string { return one(gogu.ToUpper(s)) }},
	{"Capitalize", func(s, t string, n int) []string { return one(gogu.Capitalize(s)) }},
	{"CamelCase", func(s, t string, n int) []string { return one(gogu.CamelCase(s)) }},
	{"SnakeCase", func(s, t string, n int) []string { return one(gogu.SnakeCase(s)) }},
	{"KebabCase", func(s, t string, n int) []string { return one(gogu.KebabCase(s)) }},
	{"ReverseStr", func(s, t string, n int) []string { return one(gogu.ReverseStr(s)) }},
	{"SplitAtIndex", func(s, t string, n int) []string { return gogu.SplitAtIndex(s, n) }},
}

func (c StrCall) norm() StrCall {
	m := func(v, n int) int { return ((v % n) + n) % n }
	return StrCall{H: m(c.H, len(strHelpers)), S: m(c.S, len(strInputs)), T: m(c.T, len(strTokens)), N: m(c.N, 6)}
}

func (c StrCall) String() string {
	c = c.norm()
	return fmt.Sprintf("%s(%q, tok %q, n %d)", strHelpers[c.H].name, strInputs[c.S], strTokens[c.T], c.N)
}

func strEnum(s pbt.Src, thorough bool) StrCase {
	// every ordered pair of helpers on the same input and token (quick: input x token x 2 sizes; thorough: a third call too)
	n := 2
	if thorough {
		n = 3
	}
	in, tok, sz := s.Intn(len(strInputs)), s.Intn(len(strTokens)), s.Intn(2)*3
	calls := pbt.Seq(s, n, n, func(s pbt.Src) StrCall { return StrCall{H: s.Intn(len(strHelpers)), S: in, T: tok, N: sz} })
	return StrCase{Calls: calls}
}

func strGen(s pbt.Src, thorough bool) StrCase {
	return StrCase{Calls: pbt.Seq(s, 2, 12, func(s pbt.Src) StrCall {
		return StrCall{H: s.Intn(len(strHelpers)), S: s.Intn(len(strInputs)), T: s.Intn(len(strTokens)), N: s.Intn(6)}
	})}
}

func strProp(c StrCase, r *pbt.R) error {
	if len(c.Calls) > 64 {
		return nil
	}
	type kept struct {
		by   string
		live []string // the strings the helper returned (kept as they are)
		snap []string // byte-wise copies taken when they were returned
	}
	var results []kept
	// arguments are built freshly (not literals in read-only memory), and snapshotted as well
	for i, cl := range c.Calls {
		cl = cl.norm()
		in := string(append([]byte(nil), strInputs[cl.S]...))
		tok := string(append([]byte(nil), strTokens[cl.T]...))
		var out []string
		if err := func() (err error) {
			defer func() {
				if p := recover(); p != nil {
					err = fmt.Errorf("call %d %v panicked: %v", i, cl, p)
				}
			}()
			out = strHelpers[cl.H].call(in, tok, cl.N)
			return nil
		}(); err != nil {
			return err
		}
		if in != strInputs[cl.S] || tok != strTokens[cl.T] {
			return fmt.Errorf("call %d %v changed its argument: now %q / %q", i, cl, in, tok)
		}
		for j, k := range results {
			for x := range k.live {
				if k.live[x] != k.snap[x] {
					return fmt.Errorf("calls %v: the string returned by call %d %s read %q when it was returned and reads %q after call %d %v", c.Calls, j, k.by, k.snap[x], k.live[x], i, cl)
				}
			}
		}
		k := kept{by: cl.String(), live: out}
		for _, o := range out {
			k.snap = append(k.snap, string(append([]byte(nil), o...)))
		}
		results = append(results, k)
	}
	r.NonTrivialIf(len(c.Calls) >= 2, ">= 2 calls")
	return nil
}

// ---------------------------------------------------------------------------
// other instantiations: byte and string elements (an implementation may special-case element types), and Flip

// TypedCase: H selects a helper of typedHelpers; A and B are element codes (0..3); SpareA spare capacity behind A.
type TypedCase struct {
	H      int   `json:"h"`
	A      []int `json:"a"`
	B      []int `json:"b"`
	SpareA int   `json:"spare_a"`
	F      int   `json:"f"`
}

var typedNames = []string{"Unique", "Filter", "Map", "Merge", "Without", "Difference", "Intersection", "Duplicate", "DropWhile", "DropRightWhile", "Partition", "UniqueBy", "Union", "Flatten", "ToSlice", "FindAll", "GroupBy", "Flip"}

// typedRun runs helper h on element type T (mk maps a code to an element, never to the sentinel) and reports an alteration of the arguments.
func typedRun[T comparable](c TypedCase, name string, mk func(int) T, sentinel T) error {
	if len(c.A) > 64 || len(c.B) > 64 || c.SpareA < 0 || c.SpareA > 16 {
		return nil
	}
	build := func(codes []int, spare int) []T {
		buf := make([]T, len(codes)+spare)
		for i := range buf {
			buf[i] = sentinel
		}
		for i, v := range codes {
			buf[i] = mk(v)
		}
		return buf[:len(codes)]
	}
	a, b := build(c.A, c.SpareA), build(c.B, 0)
	snap := func() string { return fmt.Sprint(a[:cap(a)], len(a), b[:cap(b)], len(b)) }
	before := snap()
	odd := func(v T) bool { return v == mk(1) || v == mk(3) }
	if c.F%2 == 1 {
		odd = func(T) bool { return true }
	}
	key := func(v T) T {
		if v == mk(3) {
			return mk(1)
		}
		return v
	}
	h := ((c.H % len(typedNames)) + len(typedNames)) % len(typedNames)
	call := func() any {
		switch h {
		case 0:
			return gogu.Unique(a)
		case 1:
			return gogu.Filter(a, odd)
		case 2:
			return gogu.Map(a, key)
		case 3:
			return gogu.Merge(a, b, a)
		case 4:
			return gogu.Without[T, T](a, b...)
		case 5:
			return gogu.Difference(a, b)
		case 6:
			return gogu.Intersection(a, b)
		case 7:
			return gogu.Duplicate(a)
		case 8:
			return gogu.DropWhile(a, odd)
		case 9:
			return gogu.DropRightWhile(a, odd)
		case 10:
			p := gogu.Partition(a, odd)
			return append(append([]T(nil), p[0]...), p[1]...)
		case 11:
			return gogu.UniqueBy(a, key)
		case 12:
			v, _ := gogu.Union[T]([]any{a, b})
			return v
		case 13:
			v, _ := gogu.Flatten[T]([]any{a, []any{b}})
			return v
		case 14:
			return gogu.ToSlice(a...)
		case 15:
			fa := gogu.FindAll(a, odd)
			out := make([]T, 0, len(fa))
			for _, v := range fa {
				out = append(out, v)
			}
			return out
		case 16:
			g := gogu.GroupBy(a, key)
			var out []T
			for _, vs := range g {
				out = append(out, vs...)
			}
			return out
		default:
			// Flip: the function it returns must give every call a result of its own. The flipped function here returns its
			// argument list (so the reversal happens in the slice that is spread into the call: private copies are passed).
			flipped := gogu.Flip(func(args ...T) []T { return args })
			r1 := flipped(append([]T(nil), a...)...)
			s1 := fmt.Sprint(r1)
			// the second call has as many arguments as the first, all of them different
			other := make([]T, len(a))
			for i := range other {
				other[i] = sentinel
			}
			flipped(other...)
			flipped(append([]T(nil), b...)...)
			if got := fmt.Sprint(r1); got != s1 {
				return fmt.Errorf("the result of the first call of a flipped function read %s and reads %s after two more calls", s1, got)
			}
			// an existing slice spread into the call (flipped(xs...)) is an argument like any other: a function that copies its
			// arguments into a result of its own is flipped here, so nothing may write into xs (a, with its spare capacity,
			// is compared by the caller of this function) and calling it again on the same slice gives the same result
			copying := gogu.Flip(func(args ...T) []T { return append(make([]T, 0, len(args)), args...) })
			c1 := fmt.Sprint(copying(a...))
			if c2 := fmt.Sprint(copying(a...)); c2 != c1 {
				return fmt.Errorf("a flipped function called twice on the same spread slice returned %s and then %s", c1, c2)
			}
			return nil
		}
	}
	res := call()
	where := fmt.Sprintf("%s on []%s a=%v (+%d spare) b=%v", typedNames[h], name, a, c.SpareA, b)
	if err, ok := res.(error); ok {
		return fmt.Errorf("%s: %v", where, err)
	}
	if after := snap(); after != before {
		return fmt.Errorf("%s: the arguments changed: before %s after %s", where, before, after)
	}
	if out, ok := res.([]T); ok && h != 17 {
		for i := range out {
			out[i] = sentinel
		}
		if after := snap(); after != before {
			return fmt.Errorf("%s: overwriting the RESULT changed the arguments (the result shares storage with an argument): before %s after %s", where, before, after)
		}
		again := call()
		if o2, ok := again.([]T); ok {
			for _, v := range o2 {
				if v == sentinel {
					return fmt.Errorf("%s: after the caller overwrote the first result, the same call returns the overwritten value: %v", where, o2)
				}
			}
		}
	}
	return nil
}

func typedProp(c TypedCase, r *pbt.R) error {
	if err := typedRun(c, "byte", func(i int) byte { return byte('a' + ((i%4)+4)%4) }, byte(0xEE)); err != nil {
		return err
	}
	if err := typedRun(c, "string", func(i int) string { return []string{"", "x", "yy", "x\x00"}[((i%4)+4)%4] }, "SENTINEL"); err != nil {
		return err
	}
	if err := typedRun(c, "float64", func(i int) float64 { return []float64{0, 1.5, -2, 1e300}[((i%4)+4)%4] }, -7777.5); err != nil {
		return err
	}
	type pt struct{ X, Y int8 }
	if err := typedRun(c, "struct", func(i int) pt { return pt{int8(i % 4), int8(i % 2)} }, pt{-77, -77}); err != nil {
		return err
	}
	dup := false
	for i, v := range c.A {
		for _, w := range c.A[i+1:] {
			dup = dup || v == w
		}
	}
	r.NonTrivialIf(dup, "argument with a repeated element")
	return nil
}

func TestProp(t *testing.T) {
	rule := fmt.Sprintf(commonRule, len(registry))
	pbt.Run(t, "C16",
		&pbt.Check[Case]{
			Name: "single",
			Rule: rule + "single: ONE call; enumerated: every helper x a over {0,1,2} up to length 3 (thorough 5) x b up to length 3 when visible x spare capacity of a and (independently) b in {0,1,3} ({0,1,2,4}) " +
				"x n in {-2..3} x 4 callbacks, only the parameters the helper takes are varied; random: lengths up to 10 (16), values -3..9, spare 0..8. " +
				"Non-trivial = a slice/map result was returned while an argument has spare capacity, or an in-place helper really changed its argument. " +
				"Distinct = enumerated cases (injective) + hash-distinct random cases outside the enumerated scope.",
			Enum: enumSingle, Prop: prop, OutOfEnum: outOfEnum,
			Gen:        func(s pbt.Src, th bool) Case { return genN(s, th, 1, 1) },
			RapidQuick: 1500, RapidThorough: 30000,
			Fixed: []Case{
				{A: []int{1, 2}, B: []int{3}, SpareA: 3, SpareB: 1, Calls: []Call{{H: "Merge/1"}}},
				{A: []int{1, 2}, B: []int{3}, SpareA: 3, SpareB: 1, Calls: []Call{{H: "Merge/spread"}}},
			},
		},
		&pbt.Check[Case]{
			Name: "pair",
			Rule: rule + fmt.Sprintf("pair: every ordered pair of calls whose arguments share a slot (%d pairs) on ONE arena; enumerated quick: a over {1,2} up to length 3, b up to length 2, "+
				"joint spare {0,1,3}, n in {-1,0,1,2} and 3 callbacks shared by both calls; thorough: values {0,1,2}, b up to length 3, n in {-2..3} and 4 callbacks chosen independently for the two calls; "+
				"random: sequences of 2..5 calls (one in three in-place) on longer slices. "+
				"Non-trivial = as for single, or a fresh result was re-read after a later in-place call that really changed its argument, or two slice/map results exist while there is spare capacity.", len(pairs)),
			Enum: enumPair, Prop: prop, OutOfEnum: outOfEnum,
			Gen:        func(s pbt.Src, th bool) Case { return genN(s, th, 2, 5) },
			RapidQuick: 1500, RapidThorough: 30000,
			Fixed: []Case{
				{A: []int{1, 2}, B: []int{}, SpareA: 0, Calls: []Call{{H: "Merge/0"}, {H: "Reverse"}}},
				{A: []int{1}, B: []int{2}, SpareA: 3, SpareB: 3, Calls: []Call{{H: "Merge/1"}, {H: "Merge/spread"}}},
			},
		},
		&pbt.Check[StrCase]{
			Name: "strings",
			Rule: "string helpers (Wrap, WrapAllRune, Unwrap, Pad, PadLeft, PadRight, Substr, ToLower, ToUpper, Capitalize, CamelCase, SnakeCase, KebabCase, ReverseStr, SplitAtIndex): every string a call returned is kept and compared, after every later call, with the byte-wise copy taken when it was returned " +
				"(a Go string is only immutable as long as the library does not build it over memory that it reuses); arguments are compared as well. Enumerated: every ordered pair (thorough: triple) of helpers x 7 inputs x 4 tokens x 2 sizes; random: 2..12 calls with independent inputs. Non-trivial = >= 2 calls.",
			Enum: strEnum, Gen: strGen, Prop: strProp,
			OutOfEnum:  func(c StrCase, th bool) bool { return len(c.Calls) > 3 },
			RapidQuick: 800, RapidThorough: 10000,
		},
		&pbt.Check[TypedCase]{
			Name: "typed",
			Rule: "the same ownership rules on other element types - byte, string, float64 and a small struct (an implementation may special-case an element type): 17 helpers that return a new slice (Unique, Filter, Map, Merge, Without, Difference, Intersection, Duplicate, DropWhile, DropRightWhile, Partition, UniqueBy, Union, Flatten, ToSlice, FindAll, GroupBy) and Flip, on a (with sentinels in 0..3 elements of spare capacity) and b: the arguments incl. the spare capacity are unchanged, overwriting the result does not reach them, and the same call made again does not return the overwritten value; a flipped function gives every call a result of its own. " +
				"Enumerated: every helper x a up to length 3 (thorough 4) over 4 codes x b up to length 2 x spare {0,2} x 2 predicates; random: lengths up to 12. Non-trivial = a has a repeated element.",
			Enum: func(s pbt.Src, thorough bool) TypedCase {
				n := 3
				if thorough {
					n = 4
				}
				return TypedCase{H: s.Intn(len(typedNames)), A: pbt.Seq(s, 0, n, func(s pbt.Src) int { return s.Intn(4) }), B: pbt.Seq(s, 0, 2, func(s pbt.Src) int { return s.Intn(4) }), SpareA: 2 * s.Intn(2), F: s.Intn(2)}
			},
			Gen: func(s pbt.Src, _ bool) TypedCase {
				return TypedCase{H: s.Intn(len(typedNames)), A: pbt.Seq(s, 0, 12, func(s pbt.Src) int { return s.Intn(4) }), B: pbt.Seq(s, 0, 8, func(s pbt.Src) int { return s.Intn(4) }), SpareA: s.Intn(9), F: s.Intn(2)}
			},
			Prop:       typedProp,
			OutOfEnum:  func(c TypedCase, th bool) bool { return len(c.A) > 4 || len(c.B) > 2 || (c.SpareA != 0 && c.SpareA != 2) },
			RapidQuick: 400, RapidThorough: 5000,
		},
	)
}
