// C18: Before, After, Once and Retry invoke the callback exactly as often as promised.
package c18

import (
	"errors"
	"fmt"
	"math"
	"os"
	"strings"
	"sync"
	"sync/atomic"
	"testing"
	"testing/synctest"
	"time"

	"github.com/esimov/gogu"
	"github.com/esimov/gogu/cache"
	"verif/pbt"
)

// ---------------------------------------------------------------------------
// scopes

// scope is the enumerated range of one tier.
type scope struct {
	nLo, nHi int // counter / attempt budget n
	calls    int // number of calls of a wrapper: 0..calls
	pat      int // success/failure patterns of every length 0..pat
	delays   int // the first `delays` entries of delayTable
}

func enumScope(thorough bool) scope {
	if thorough {
		return scope{nLo: -4, nHi: 12, calls: 24, pat: 12, delays: 5}
	}
	return scope{nLo: -2, nHi: 8, calls: 12, pat: 8, delays: 3}
}

// Bounds of the random generators (and of what a replayed case may ask for).
const (
	wideNLo     = -20
	wideNHi     = 40
	wideCalls   = 60
	widePat     = 48
	hardMaxCall = 4096 // replay files beyond this are clamped: every loop of a case is bounded
)

var delayTable = []time.Duration{0, 5 * time.Millisecond, time.Second, time.Nanosecond, time.Hour}

// signed mirrors constraints.Signed (the counter type of After/Before).
type signed interface {
	~int | ~int8 | ~int16 | ~int32 | ~int64
}

var counterTypes = []string{"int", "int8", "int64"}

func clamp(v, lo, hi int) int {
	if v < lo {
		return lo
	}
	if v > hi {
		return hi
	}
	return v
}

// ---------------------------------------------------------------------------
// After / Before: n x number of calls x counter type

// WrapCase: the wrapper is called Calls times with a counter that starts at N.
// VT selects the counter type (index into counterTypes).
type WrapCase struct {
	N     int `json:"n"`
	Calls int `json:"calls"`
	VT    int `json:"vt"`
	// Z (Before only): 0 = the callback never returns the zero value, 1 = its first run returns 0,
	// 2 = its nth (last promised) run returns 0. Every run still returns a value of its own.
	Z int `json:"z,omitempty"`
	// CK (Before only): how the cache was made (index into cacheKinds); with CK != 0 DeleteExpired runs after every call.
	CK int `json:"ck,omitempty"`
	// Again (Before only): after the calls, a second counter starting at Again is used up on the SAME cache (Again+2 calls).
	// The memo slot is taken, so only the number of runs is asserted for it: each of its first Again calls runs fn once.
	Again int `json:"again,omitempty"`
}

// cacheKinds: default lifetimes of the cache handed to Before/Once. Everything that is not positive means "entries never
// expire" (cache.New: "less than zero (or NoExpiration)"; 0 likewise); one hour is positive but outlives every case.
var cacheKinds = []time.Duration{cache.NoExpiration, 0, -time.Second, math.MinInt64, time.Hour, -2, math.MaxInt64}

func kindName(k int) string {
	return fmt.Sprintf("cache.New(default lifetime %d ns, no cleanup)", int64(cacheKinds[k]))
}

func (c WrapCase) norm() WrapCase {
	// int8 is the narrowest counter: keep n and n-calls away from its limits, the
	// statement says nothing about a counter that wraps around.
	c.N = clamp(c.N, -60, 60)
	c.Calls = clamp(c.Calls, 0, wideCalls)
	c.VT = clamp(c.VT, 0, len(counterTypes)-1)
	c.Z = clamp(c.Z, 0, 2)
	c.CK = clamp(c.CK, 0, len(cacheKinds)-1)
	c.Again = clamp(c.Again, 0, 60)
	return c
}

func (c WrapCase) String() string {
	z := ""
	if c.Z != 0 {
		z = fmt.Sprintf(", run %s returns the zero value", [3]string{"", "1", "n"}[c.Z])
	}
	if c.CK != 0 {
		z += ", " + kindName(c.CK) + " swept after every call"
	}
	if c.Again != 0 {
		z += fmt.Sprintf(", then a second counter n=%d on the same cache", c.Again)
	}
	return fmt.Sprintf("n=%d (%s counter), %d calls%s", c.N, counterTypes[c.VT], c.Calls, z)
}

func enumWrap(s pbt.Src, thorough bool) WrapCase {
	sc := enumScope(thorough)
	return WrapCase{N: pbt.Range(s, sc.nLo, sc.nHi), Calls: pbt.Range(s, 0, sc.calls), VT: s.Intn(len(counterTypes))}
}

func enumBefore(s pbt.Src, thorough bool) WrapCase {
	c := enumWrap(s, thorough)
	c.Z = s.Intn(3)
	c.CK = s.Intn(len(cacheKinds))
	c.Again = s.Intn(3)
	return c
}

func genBefore(s pbt.Src, thorough bool) WrapCase {
	c := genWrap(s, thorough)
	c.Z = s.Intn(3)
	c.CK = s.Intn(len(cacheKinds))
	c.Again = pbt.Pick(s, 0, 0, 1, 2, 3, 7)
	return c
}

// wideN draws n from wideNLo..wideNHi in the order 1, 2, ..., wideNHi, 0, -1, ..., wideNLo:
// rapid prefers small choices, and a positive n is the interesting part.
func wideN(s pbt.Src) int {
	i := 1 + s.Intn(wideNHi-wideNLo+1)
	if i > wideNHi {
		return wideNHi + 1 - i
	}
	return i
}

// genWrap puts the number of calls around the point where the wrapper changes its behaviour
// (n-4 .. n+20 calls) half of the time and anywhere in 0..wideCalls otherwise.
func genWrap(s pbt.Src, _ bool) WrapCase {
	c := WrapCase{N: wideN(s), VT: s.Intn(len(counterTypes))}
	if pbt.Bool(s) {
		c.Calls = pbt.Range(s, 0, wideCalls)
	} else {
		c.Calls = clamp(max(c.N, 0)-4+s.Intn(25), 0, wideCalls)
	}
	return c
}

func wrapOutOfEnum(c WrapCase, thorough bool) bool {
	sc := enumScope(thorough)
	return c.N < sc.nLo || c.N > sc.nHi || c.Calls > sc.calls
}

// afterRun: the callback is suppressed on calls 1..n and runs exactly once on every later call.
func afterRun[V signed](c WrapCase) error {
	n := V(c.N)
	count := 0
	for i := 1; i <= c.Calls; i++ {
		before := count
		gogu.After(&n, func() { count++ })
		got := count - before
		want := 0
		if i > c.N {
			want = 1
		}
		if got != want {
			return fmt.Errorf("After, %v: call %d ran the callback %d time(s), want %d (the first %d calls are suppressed, every later call runs it once)",
				c, i, got, want, max(c.N, 0))
		}
	}
	return nil
}

func afterProp(c WrapCase, r *pbt.R) error {
	c = c.norm()
	var err error
	switch c.VT {
	case 0:
		err = afterRun[int](c)
	case 1:
		err = afterRun[int8](c)
	default:
		err = afterRun[int64](c)
	}
	if err != nil {
		return err
	}
	r.NonTrivialIf(c.Calls >= 1, "called")
	switch {
	case c.Calls == 0:
		r.Label("no call")
	case c.N <= 0:
		r.Label("n <= 0: every call runs")
	case c.Calls <= c.N:
		r.Label("only suppressed calls")
	default:
		r.Label("suppressed calls then running calls")
	}
	return nil
}

// beforeRun: the callback runs on each of calls 1..n (the call returns that run's
// result) and never again; later calls return the result of the nth run.
func beforeRun[V signed](c WrapCase) error {
	n := V(c.N)
	cc := cache.New[string, int](cacheKinds[c.CK], 0)
	count := 0
	// every run returns a value of its own; with Z != 0 one chosen run returns the zero value
	zeroAt := [3]int{-1000, 1, c.N}[c.Z]
	val := func(run int) int {
		if c.Z == 0 {
			return 100 + run
		}
		return run - zeroAt
	}
	fn := func() int { count++; return val(count) }
	last := 0 // result of the most recent run
	for i := 1; i <= c.Calls; i++ {
		before := count
		got := gogu.Before(&n, cc, fn)
		ran := count - before
		want := 0
		if i <= c.N {
			want = 1
		}
		if ran != want {
			return fmt.Errorf("Before, %v: call %d ran the callback %d time(s), want %d (it runs on each of the first %d calls and never again)",
				c, i, ran, want, max(c.N, 0))
		}
		switch {
		case ran == 1:
			// The statement fixes what LATER calls return (the result of the last run);
			// what a running call itself returns is not asserted.
			last = val(count)
			_ = got
		case c.N >= 1:
			if got != last {
				return fmt.Errorf("Before, %v: call %d returned %d, want %d = the result of the last run (call %d)", c, i, got, last, c.N)
			}
		default:
			// n <= 0: the callback never ran, there is no "last run"; the statement
			// leaves the returned value open.
		}
		if c.CK != 0 {
			cc.DeleteExpired()
		}
	}
	if c.Again > 0 {
		n2 := V(c.Again)
		for i := 1; i <= c.Again+2; i++ {
			before := count
			gogu.Before(&n2, cc, fn)
			ran, want := count-before, 0
			if i <= c.Again {
				want = 1
			}
			if ran != want {
				return fmt.Errorf("Before, %v: call %d of the second counter ran the callback %d time(s), want %d (it runs on each of the first %d calls and never again)",
					c, i, ran, want, c.Again)
			}
		}
	}
	return nil
}

func beforeProp(c WrapCase, r *pbt.R) error {
	c = c.norm()
	var err error
	switch c.VT {
	case 0:
		err = beforeRun[int](c)
	case 1:
		err = beforeRun[int8](c)
	default:
		err = beforeRun[int64](c)
	}
	if err != nil {
		return err
	}
	r.NonTrivialIf(c.Calls >= 1, "called")
	switch {
	case c.Calls == 0:
		r.Label("no call")
	case c.N <= 0:
		r.Label("n <= 0: never runs")
	case c.Calls <= c.N:
		r.Label("only running calls")
	default:
		r.Label("running calls then memoised calls")
	}
	return nil
}

// ---------------------------------------------------------------------------
// Once

type OnceCase struct {
	Calls int `json:"calls"`
	// Zero: the first run of the callback returns the zero value of the result type (later runs, which
	// must not happen, would return something else).
	Zero bool `json:"zero,omitempty"`
	// Sweep: the cache is created with a default lifetime of 0 (entries never expire) instead of NoExpiration, and
	// DeleteExpired is called after every call of Once: a sweep must not remove an entry that has no deadline.
	Sweep bool `json:"sweep,omitempty"`
	// CK (with Sweep): which non-expiring or long-lived cache (index into cacheKinds; 0 means kind 1, default lifetime 0)
	CK int `json:"ck,omitempty"`
}

func onceProp(c OnceCase, r *pbt.R) error {
	calls := clamp(c.Calls, 0, hardMaxCall)
	cc := cache.New[string, int](cache.NoExpiration, 0)
	kind := 0
	if c.Sweep {
		kind = clamp(c.CK, 1, len(cacheKinds)-1)
		cc = cache.New[string, int](cacheKinds[kind], 0)
	}
	count := 0
	first := 0
	for i := 1; i <= calls; i++ {
		before := count
		// a new closure on every call, as in the repository's own test
		got := gogu.Once[string, int, int](cc, func() int {
			count++
			if c.Zero {
				return count - 1
			}
			return 100 + count
		})
		ran := count - before
		want := 0
		if i == 1 {
			want = 1
		}
		if ran != want {
			return fmt.Errorf("Once, %d calls on a fresh %s (first result zero: %v; DeleteExpired after every call: %v): call %d ran the callback %d time(s), want %d", calls, kindName(kind), c.Zero, c.Sweep, i, ran, want)
		}
		if i == 1 {
			first = 100 + count // result of the first (and only) run
			if c.Zero {
				first = 0
			}
		}
		if got != first {
			return fmt.Errorf("Once, %d calls on a fresh %s: call %d returned %d, want the first result %d", calls, kindName(kind), i, got, first)
		}
		if c.Sweep {
			cc.DeleteExpired()
			// a bulk load that names the memo's key among others is refused for that key (it is live): the memo stays
			cc.MapToCache(map[string]int{"func": -5, "other": i}, time.Millisecond)
		}
	}
	// other result types, first result the zero value (c.Zero) or not: a defined string type (its empty value is a value like
	// any other: the cache refuses only an empty value of type string itself), a pointer (nil), bool (false), an empty struct
	if calls <= 64 {
		seven, nine := 7, 9
		var firstP *int
		firstL, firstB := onceLabel(""), false
		if !c.Zero {
			firstP, firstL, firstB = &seven, "first", true
		}
		if err := onceTyped("a defined string type", firstL, "later", calls); err != nil {
			return err
		}
		if err := onceTyped("*int", firstP, &nine, calls); err != nil {
			return err
		}
		if err := onceTyped("bool", firstB, !firstB, calls); err != nil {
			return err
		}
		if err := onceTyped("struct{}", struct{}{}, struct{}{}, calls); err != nil {
			return err
		}
	}
	r.NonTrivialIf(calls >= 1, "called")
	if calls >= 2 {
		r.Label("repeated calls")
	}
	if c.Zero && calls >= 2 {
		r.Label("repeated calls after a zero-valued first result")
	}
	return nil
}

type onceLabel string

// onceTyped: Once on a fresh non-expiring cache of T, calls times; the first run returns first, any further run (which must
// not happen) later.
func onceTyped[T comparable](desc string, first, later T, calls int) error {
	cc := cache.New[string, T](cache.NoExpiration, 0)
	count := 0
	for i := 1; i <= calls; i++ {
		before := count
		got := gogu.Once[string, T, int](cc, func() T {
			count++
			if count == 1 {
				return first
			}
			return later
		})
		want := 0
		if i == 1 {
			want = 1
		}
		if ran := count - before; ran != want {
			return fmt.Errorf("Once with results of %s (first result %#v), %d calls on a fresh non-expiring cache: call %d ran the callback %d time(s), want %d", desc, first, calls, i, ran, want)
		}
		if got != first {
			return fmt.Errorf("Once with results of %s, %d calls: call %d returned %#v, want the first result %#v", desc, calls, i, got, first)
		}
	}
	return nil
}

// Once on a cache whose entries expire: "a single time for as long as its cache entry lives" - after the entry has
// expired the next call runs the callback again, ONCE, and that result is served until it expires in turn.
// Runs inside a synctest bubble. Gaps are milliseconds before each call; the entry lives onceLife.
type OnceExpCase struct {
	Gaps []int `json:"gaps_ms"`
	// Cleanup: 0 = no cleanup goroutine; 1 = cleanup every 4ms, 2 = every 7ms, 3 = every 60ms. The background sweep removes
	// expired entries only, so it changes nothing about when the callback runs.
	Cleanup int `json:"cleanup,omitempty"`
}

var onceCleanups = []time.Duration{0, 4 * time.Millisecond, 7 * time.Millisecond, 60 * time.Millisecond}

const onceLife = 10 * time.Millisecond

var onceGaps = []int{0, 3, 10, 11, 25}

func onceExpProp(c OnceExpCase, r *pbt.R) error {
	if len(c.Gaps) > 64 {
		return nil
	}
	cleanup := onceCleanups[((c.Cleanup%len(onceCleanups))+len(onceCleanups))%len(onceCleanups)]
	cc := cache.New[string, int](onceLife, cleanup)
	if cleanup > 0 {
		defer func() {
			cc.VerifStopCleanup()
			synctest.Wait()
		}()
		synctest.Wait() // let the cleanup goroutine create its ticker at the creation instant
	}
	t0 := time.Now()
	count := 0
	cached, deadline := 0, time.Duration(-1) // value served and the instant at which its entry expires (-1: nothing stored yet)
	reran := false
	for i, g := range c.Gaps {
		if g > 0 {
			time.Sleep(time.Duration(g) * time.Millisecond)
		}
		now := time.Since(t0)
		before := count
		got := gogu.Once[string, int, int](cc, func() int { count++; return 100 + count })
		ran := count - before
		ctx := fmt.Sprintf("Once on a cache whose entries live %v (cleanup every %v), calls after gaps %v ms: call %d at %v", onceLife, cleanup, c.Gaps[:i+1], i+1, now)
		switch {
		case deadline >= 0 && now < deadline:
			if ran != 0 || got != cached {
				return fmt.Errorf("%s ran the callback %d time(s) and returned %d; the entry (value %d) lives until %v: want no run and that value", ctx, ran, got, cached, deadline)
			}
		case deadline >= 0 && now == deadline:
			// exactly at the deadline: served from the cache or computed again, consistently
			if !(ran == 0 && got == cached) && !(ran == 1 && got == 100+count) {
				return fmt.Errorf("%s (exactly at the deadline) ran the callback %d time(s) and returned %d", ctx, ran, got)
			}
			if ran == 1 {
				cached, deadline = got, now+onceLife
			}
		default:
			if ran != 1 || got != 100+count {
				return fmt.Errorf("%s ran the callback %d time(s) and returned %d; no live entry exists (the previous one expired at %v): want exactly one run and its result", ctx, ran, got, deadline)
			}
			if deadline >= 0 {
				reran = true
			}
			cached, deadline = got, now+onceLife
		}
	}
	r.NonTrivialIf(reran, "a call after the entry expired")
	return nil
}

// ---------------------------------------------------------------------------
// Retry / RetryWithDelay

// RetryCase: Retry(N, fn) where the ith invocation of fn succeeds iff Pat[i-1] == 'S';
// invocations beyond the pattern fail.
type RetryCase struct {
	N   int    `json:"n"`
	Pat string `json:"pat"`
}

// DelayCase: the same for RetryWithDelay with delay delayTable[D].
type DelayCase struct {
	N   int    `json:"n"`
	Pat string `json:"pat"`
	D   int    `json:"d"`
	// L: how long the invocations of the callback take (virtual time, time.Sleep inside the callback):
	// 0 = no time, 1 = the first one takes 3d+1ms and the rest no time, 2 = odd invocations take 2d+1ms and even ones 1ms,
	// 3 = every one takes d/2.
	L int `json:"l,omitempty"`
}

const nLatShapes = 4

func latency(shape, call int, d time.Duration) time.Duration {
	switch shape {
	case 1:
		if call == 1 {
			return 3*d + time.Millisecond
		}
	case 2:
		if call%2 == 1 {
			return 2*d + time.Millisecond
		}
		return time.Millisecond
	case 3:
		return d / 2
	}
	return 0
}

func patOf(s pbt.Src, min, max int) string {
	bits := pbt.Seq(s, min, max, func(s pbt.Src) byte { return pbt.Pick(s, byte('F'), byte('S')) })
	return string(bits)
}

func enumRetry(s pbt.Src, thorough bool) RetryCase {
	sc := enumScope(thorough)
	return RetryCase{N: pbt.Range(s, sc.nLo, sc.nHi), Pat: patOf(s, 0, sc.pat)}
}

// genWidePat builds a pattern for budget n. Uniform bits would put the first success among
// the first two invocations almost always, so the pattern is shaped relative to n:
// a success somewhere within the budget, exactly n failures, more than n failures with an
// arbitrary tail, or any number of failures followed by an arbitrary tail.
func genWidePat(s pbt.Src, n int) string {
	switch s.Intn(4) {
	case 0:
		return strings.Repeat("F", s.Intn(max(n, 1))) + "S"
	case 1:
		return strings.Repeat("F", max(n, 0))
	case 2:
		return strings.Repeat("F", max(n, 0)+s.Intn(4)) + patOf(s, 0, 4)
	default:
		return strings.Repeat("F", pbt.Range(s, 0, widePat-8)) + patOf(s, 0, 8)
	}
}

func genRetry(s pbt.Src, _ bool) RetryCase {
	n := wideN(s)
	return RetryCase{N: n, Pat: genWidePat(s, n)}
}

func retryOutOfEnum(c RetryCase, thorough bool) bool {
	sc := enumScope(thorough)
	return c.N < sc.nLo || c.N > sc.nHi || len(c.Pat) > sc.pat
}

func enumDelay(s pbt.Src, thorough bool) DelayCase {
	sc := enumScope(thorough)
	return DelayCase{N: pbt.Range(s, sc.nLo, sc.nHi), Pat: patOf(s, 0, sc.pat), D: s.Intn(sc.delays), L: s.Intn(nLatShapes)}
}

func genDelay(s pbt.Src, _ bool) DelayCase {
	n := wideN(s)
	return DelayCase{N: n, Pat: genWidePat(s, n), D: s.Intn(len(delayTable)), L: s.Intn(nLatShapes)}
}

func delayOutOfEnum(c DelayCase, thorough bool) bool {
	sc := enumScope(thorough)
	return c.N < sc.nLo || c.N > sc.nHi || len(c.Pat) > sc.pat || c.D >= sc.delays
}

// cbErr is the error of one failed invocation; every invocation gets its own value.
var errSentinel = errors.New("busy")

type cbErr struct{ call int }

func (e *cbErr) Error() string { return fmt.Sprintf("invocation %d failed", e.call) }

// retryModel is what the statement promises for a budget n and a pattern.
type retryModel struct {
	calls    int  // invocations of the callback
	failed   int  // failed invocations = the reported attempt count
	succeeds bool // the last invocation succeeded
}

func modelRetry(n int, pat string) retryModel {
	var m retryModel
	for m.calls < n {
		m.calls++
		if m.calls <= len(pat) && pat[m.calls-1] == 'S' {
			m.succeeds = true
			return m
		}
		m.failed++
	}
	return m
}

// recorder is the instrumented callback. It stops a runaway loop by reporting
// success once the invocation count exceeds the promised one by 3.
type recorder struct {
	pat   string
	limit int
	calls int
	errs  []error
	times []time.Time
	ends  []time.Time
	lat   func(call int) time.Duration // virtual duration of an invocation (nil: none)
	same  error                        // when set, every failing invocation returns this one error value (a sentinel)
}

func (rec *recorder) invoke() error {
	rec.calls++
	rec.times = append(rec.times, time.Now())
	if rec.lat != nil && rec.calls <= rec.limit {
		if l := rec.lat(rec.calls); l > 0 {
			time.Sleep(l)
		}
	}
	rec.ends = append(rec.ends, time.Now())
	if rec.calls > rec.limit {
		rec.errs = append(rec.errs, nil)
		return nil // bail out: the oracle reports the excess invocations
	}
	if rec.calls <= len(rec.pat) && rec.pat[rec.calls-1] == 'S' {
		rec.errs = append(rec.errs, nil)
		return nil
	}
	var e error = &cbErr{call: rec.calls}
	if rec.same != nil {
		e = rec.same // failing twice with the very same error value is no reason to stop retrying
	}
	rec.errs = append(rec.errs, e)
	return e
}

// checkOutcome compares the invocation count, the reported attempts and the error.
// Nothing is asserted about the error when n <= 0 except what wantErrNeg demands.
func checkOutcome(ctx string, n int, pat string, rec *recorder, attempts int, err error, wantErrNeg bool) error {
	m := modelRetry(n, pat)
	if rec.calls != m.calls {
		return fmt.Errorf("%s: the callback ran %d time(s), want %d (until it succeeds or n calls have failed, not at all for n <= 0)", ctx, rec.calls, m.calls)
	}
	if attempts != m.failed {
		return fmt.Errorf("%s: reported %d failed attempt(s), %d invocation(s) failed", ctx, attempts, m.failed)
	}
	switch {
	case n <= 0:
		// No invocation, hence no "last error": the statement leaves the error open.
		// Retry alone documents (in the error text, pinned by TestFunc_Retry) that a negative n is rejected.
		// (Retry happens to reject a negative n with an error; the statement does not
		// demand it, so it is not asserted.)
		_ = wantErrNeg
	case m.succeeds:
		if err != nil {
			return fmt.Errorf("%s: invocation %d succeeded but the error %q was reported", ctx, m.calls, err)
		}
	default:
		want := rec.errs[m.calls-1]
		if err == nil {
			return fmt.Errorf("%s: all %d invocations failed but no error was reported", ctx, m.calls)
		}
		if !errors.Is(err, want) {
			return fmt.Errorf("%s: reported error %q, want the last error %q", ctx, err, want)
		}
	}
	return nil
}

// retryLabels: a case counts as non-trivial when the callback is invoked and the pattern
// is consumed exactly (one letter per invocation). A pattern with an unused tail, or one
// shorter than the number of invocations, behaves like its exactly consumed counterpart:
// it is part of the enumerated scope but not counted as a distinct non-trivial case.
func retryLabels(r *pbt.R, n int, pat string) {
	m := modelRetry(n, pat)
	r.NonTrivialIf(n >= 1 && len(pat) == m.calls, "callback invoked, pattern exactly consumed")
	if n >= 1 {
		r.Label("callback invoked")
	}
	switch {
	case n < 0:
		r.Label("n < 0")
	case n == 0:
		r.Label("n == 0")
	case m.succeeds && m.failed == 0:
		r.Label("first invocation succeeds")
	case m.succeeds:
		r.Label("succeeds after failures")
	default:
		r.Label("budget exhausted")
	}
	if n >= 1 && len(pat) > m.calls {
		r.Label("pattern continues after the last promised invocation")
	}
	if n >= 1 && len(pat) < m.calls {
		r.Label("pattern shorter than the invocations (rest fails)")
	}
}

func retryProp(c RetryCase, r *pbt.R) error {
	n := clamp(c.N, -hardMaxCall, hardMaxCall)
	// ONE RType value serves three consecutive Retry calls: every call is a retry loop of its own (a variable, not a
	// composite literal, so that the harness also builds should the methods ever take a pointer receiver)
	rt := gogu.RType[int]{Input: 7}
	for round := 1; round <= 3; round++ {
		rec := &recorder{pat: c.Pat, limit: modelRetry(n, c.Pat).calls + 3}
		how := ""
		if round == 2 {
			rec.same, how = errSentinel, ", every failure returning the same sentinel error value"
		}
		attempts, err := rt.Retry(n, func(int) error { return rec.invoke() })
		ctx := fmt.Sprintf("Retry(n=%d) with callback pattern %q (call %d on the same RType value%s)", n, c.Pat, round, how)
		if e := checkOutcome(ctx, n, c.Pat, rec, attempts, err, true); e != nil {
			return e
		}
	}
	retryLabels(r, n, c.Pat)
	return nil
}

// delayProp runs inside a synctest bubble: time.Now is virtual and exact.
func delayProp(c DelayCase, r *pbt.R) error {
	n := clamp(c.N, -hardMaxCall, hardMaxCall)
	d := delayTable[clamp(c.D, 0, len(delayTable)-1)]
	shape := clamp(c.L, 0, nLatShapes-1)
	rec := &recorder{pat: c.Pat, limit: modelRetry(n, c.Pat).calls + 3, lat: func(call int) time.Duration { return latency(shape, call, d) }}
	t0 := time.Now()
	rt := gogu.RType[int]{Input: 7}
	if n >= 1 && n <= 3 && d <= 5*time.Millisecond {
		// a first retry loop on the same RType value (its outcome is checked by the loop below on a fresh recorder)
		warm := &recorder{pat: c.Pat, limit: modelRetry(n, c.Pat).calls + 3}
		rt.RetryWithDelay(n, d, func(time.Duration, int) error { return warm.invoke() })
	}
	elapsed, attempts, err := rt.RetryWithDelay(n, d, func(time.Duration, int) error { return rec.invoke() })
	t1 := time.Now()
	ctx := fmt.Sprintf("RetryWithDelay(n=%d, delay=%v) with callback pattern %q, invocation durations of shape %d (%v, %v, %v, ...)", n, d, c.Pat, shape, latency(shape, 1, d), latency(shape, 2, d), latency(shape, 3, d))
	if e := checkOutcome(ctx, n, c.Pat, rec, attempts, err, false); e != nil {
		return e
	}
	for i := 1; i < len(rec.times); i++ {
		if gap := rec.times[i].Sub(rec.times[i-1]); gap < d {
			return fmt.Errorf("%s: invocation %d started %v after invocation %d, want at least %v", ctx, i+1, gap, i, d)
		}
		// the wait lies between the two attempts: from the return of the failed one to the start of the next
		if gap := rec.times[i].Sub(rec.ends[i-1]); gap < d {
			return fmt.Errorf("%s: invocation %d started %v after invocation %d had returned, want a wait of at least %v between the attempts", ctx, i+1, gap, i, d)
		}
	}
	// The reported duration is a measurement taken inside the call: it cannot exceed the time
	// the whole call took nor be shorter than the span between the first and the last invocation.
	span := time.Duration(0)
	if len(rec.times) > 0 {
		span = rec.times[len(rec.times)-1].Sub(rec.times[0])
	}
	// (the statement says nothing about the reported duration: recorded, not asserted)
	_, _, _, _ = elapsed, span, t0, t1
	retryLabels(r, n, c.Pat)
	if d > 0 && rec.calls >= 2 {
		r.Label("waited between invocations")
		if shape != 0 {
			r.Label("waited between invocations that take time")
		}
	}
	return nil
}

// ---------------------------------------------------------------------------

// ---------------------------------------------------------------------------
// Once wrappers that belong to different caches do not know of each other

// OnceParCase: G goroutines (2..4), each with a cache and a callback of its own that takes Lat[g] ms of virtual time, call
// Once at the instants Start[g] ms and once more when that call has returned: the callbacks overlap.
type OnceParCase struct {
	Start []int `json:"start_ms"`
	Lat   []int `json:"latency_ms"`
}

func onceParProp(c OnceParCase, r *pbt.R) error {
	g := len(c.Start)
	if g < 1 || g > 8 || len(c.Lat) != g {
		return nil
	}
	runs := make([]atomic.Int32, g)
	got := make([][2]int, g)
	var wg sync.WaitGroup
	for i := 0; i < g; i++ {
		i := i
		cc := cache.New[string, int](cache.NoExpiration, 0)
		wg.Add(1)
		go func() {
			defer wg.Done()
			time.Sleep(time.Duration(((c.Start[i]%50)+50)%50) * time.Millisecond)
			for call := 0; call < 2; call++ {
				got[i][call] = gogu.Once[string, int, int](cc, func() int {
					runs[i].Add(1)
					time.Sleep(time.Duration(1+((c.Lat[i]%20)+20)%20) * time.Millisecond)
					return 1000*(i+1) + int(runs[i].Load())
				})
			}
		}()
	}
	wg.Wait()
	overlap := false
	for i := 0; i < g; i++ {
		for j := 0; j < g; j++ {
			si, sj := ((c.Start[i]%50)+50)%50, ((c.Start[j]%50)+50)%50
			if i != j && sj >= si && sj < si+1+((c.Lat[i]%20)+20)%20 {
				overlap = true
			}
		}
		if n := runs[i].Load(); n != 1 || got[i][0] != 1000*(i+1)+1 || got[i][1] != got[i][0] {
			return fmt.Errorf("%d goroutines, each with a cache and a callback of its own, starts %v ms, callback latencies %v ms (+1): wrapper %d ran its callback %d time(s) and its two calls returned %v, want one run and twice its own first result %d",
				g, c.Start, c.Lat, i, n, got[i], 1000*(i+1)+1)
		}
	}
	r.NonTrivialIf(overlap, "a wrapper's first call came while another wrapper's callback was running")
	return nil
}

// ---------------------------------------------------------------------------
// RetryWithDelay under the timer-channel semantics of Go before 1.23

// The repository's go.mod says go 1.20: in a program built from it, a time.Timer's channel is buffered and Reset does not
// drain a tick that has already been delivered. This harness is a go 1.26 module, where that cannot happen - so this one
// sub-check switches the runtime to the old behaviour (GODEBUG asynctimerchan=1, re-read by the runtime when the
// environment variable changes) for its own duration and runs in real time, outside any bubble. What it asserts is a lower
// bound on a wait, which load can only lengthen.
type LegacyCase struct {
	N    int   `json:"n"`
	Lats []int `json:"lats"` // duration of attempt i in units of half the delay (attempts beyond the list take no time)
}

func legacyProp(c LegacyCase, r *pbt.R) error {
	old := os.Getenv("GODEBUG")
	os.Setenv("GODEBUG", "asynctimerchan=1")
	defer os.Setenv("GODEBUG", old)
	const d = 4 * time.Millisecond
	n := 1 + ((c.N-1)%5+5)%5
	var starts, ends []time.Time
	slow := false
	rt := gogu.RType[int]{Input: 1}
	_, attempts, err := rt.RetryWithDelay(n, d, func(time.Duration, int) error {
		starts = append(starts, time.Now())
		if i := len(starts) - 1; i < len(c.Lats) {
			if l := time.Duration(((c.Lats[i]%7)+7)%7) * d / 2; l > 0 {
				time.Sleep(l)
				if l >= d {
					slow = true
				}
			}
		}
		ends = append(ends, time.Now())
		return errSentinel
	})
	ctx := fmt.Sprintf("RetryWithDelay(n=%d, delay=%v) in real time under the pre-1.23 timer semantics (the repository's go.mod says go 1.20), attempts lasting %v half-delays", n, d, c.Lats)
	if len(starts) != n || attempts != n || err == nil {
		return fmt.Errorf("%s: %d invocations, %d attempts reported, error %v; want %d failing invocations", ctx, len(starts), attempts, err, n)
	}
	for i := 1; i < len(starts); i++ {
		if gap := starts[i].Sub(ends[i-1]); gap < d {
			return fmt.Errorf("%s: invocation %d started %v after invocation %d had returned, want a wait of at least %v between the attempts", ctx, i+1, gap, i, d)
		}
	}
	r.NonTrivialIf(slow && n >= 2, "an attempt that is followed by another lasted at least as long as the delay")
	return nil
}

func TestProp(t *testing.T) {
	const scopeText = "enumerated: every n in -2..8 (thorough -4..12)"
	pbt.Run(t, "C18",
		&pbt.Check[WrapCase]{
			Name: "after",
			Rule: "After(&n, cb) called k times in a row with a counting callback; " + scopeText + " x every k in 0..12 (0..24) x counter type int/int8/int64; " +
				"random: n in -20..40, k in 0..60 (half of the cases with k within n-4..n+20). Oracle: call i runs the callback exactly once iff i > n, else not at all. " +
				"Non-trivial = at least one call was made. Distinct = enumerated cases (injective) + hash-distinct random cases outside the enumerated scope.",
			Enum: enumWrap, Gen: genWrap, Prop: afterProp, OutOfEnum: wrapOutOfEnum,
			RapidQuick: 300, RapidThorough: 20000,
			Fixed: []WrapCase{{N: 0, Calls: 1}, {N: 1, Calls: 2}, {N: 5, Calls: 6}},
		},
		&pbt.Check[WrapCase]{
			Name: "before",
			Rule: "Before(&n, cache, fn) called k times in a row on a fresh cache without cleanup goroutine (x 7 ways of making it: NoExpiration, or a default lifetime of 0, -1s, the most negative Duration, -2ns, one hour or the largest Duration with DeleteExpired after every call - none of these entries may expire or be swept), optionally followed by a second counter (1, 2; random up to 7) used up on the same cache, for which only the number of runs is asserted; fn counts its invocations and returns a value of its own each time (x 3: never the zero value / its first run returns 0 / its nth run returns 0); " +
				scopeText + " x every k in 0..12 (0..24) x counter type int/int8/int64; random: n in -20..40, k in 0..60. " +
				"Oracle: call i runs fn exactly once iff i <= n and then returns that result; every later call runs nothing and (n >= 1) returns the result of the nth run; for n <= 0 the returned value is not asserted. " +
				"Non-trivial = at least one call was made.",
			Enum: enumBefore, Gen: genBefore, Prop: beforeProp, OutOfEnum: func(c WrapCase, thorough bool) bool { return wrapOutOfEnum(c, thorough) || c.Again > 2 },
			RapidQuick: 300, RapidThorough: 20000,
			Fixed: []WrapCase{{N: 1, Calls: 2}, {N: 3, Calls: 6}, {N: 0, Calls: 2}, {N: 2, Calls: 5, Z: 2}},
		},
		&pbt.Check[OnceCase]{
			Name: "once",
			Rule: "Once(cache, fn) called k times in a row on a fresh non-expiring cache with a new counting closure per call returning a fresh value (the first run returns either a non-zero value or the zero value 0 of the int result type; up to 64 calls the same with results of a defined string type - empty or not -, *int - nil or not -, bool and struct{}); " +
				"enumerated: every k in 0..12 (thorough 0..64) x {non-zero, zero first result} x {NoExpiration cache, cache with a default lifetime of 0, -1s, the most negative Duration, -2ns, one hour or the largest Duration, swept by DeleteExpired after every call and offered a bulk load (MapToCache) that names the memo's key, which must be refused}; random: k in 0..400. Oracle: exactly one invocation (during the first call), every call returns the first result. " +
				"Non-trivial = at least one call was made.",
			Enum: func(s pbt.Src, thorough bool) OnceCase {
				if thorough {
					return OnceCase{Calls: pbt.Range(s, 0, 64), Zero: pbt.Bool(s), Sweep: pbt.Bool(s), CK: s.Intn(len(cacheKinds))}
				}
				return OnceCase{Calls: pbt.Range(s, 0, 12), Zero: pbt.Bool(s), Sweep: pbt.Bool(s), CK: s.Intn(len(cacheKinds))}
			},
			Gen: func(s pbt.Src, _ bool) OnceCase {
				return OnceCase{Calls: pbt.Range(s, 0, 400), Zero: pbt.Bool(s), Sweep: pbt.Bool(s), CK: s.Intn(len(cacheKinds))}
			},
			Prop: onceProp,
			OutOfEnum: func(c OnceCase, thorough bool) bool {
				if thorough {
					return c.Calls > 64
				}
				return c.Calls > 12
			},
			RapidQuick: 100, RapidThorough: 2000,
			Fixed: []OnceCase{{Calls: 1}, {Calls: 2}, {Calls: 5}, {Calls: 3, Zero: true}},
		},
		&pbt.Check[OnceParCase]{
			Name: "once-parallel",
			Rule: "2..4 goroutines, each with a cache and a slow callback of its own (1..20ms of virtual time), call Once at instants 0..49ms and once more afterwards, so that callbacks of different wrappers overlap: every wrapper runs its own callback exactly once and both its calls return its own first result. " +
				"Enumerated: 2 wrappers x starts in {0,1,5} x latencies in {0,4} ms; random: 2..4 wrappers. Non-trivial = a first call fell into another wrapper's running callback.",
			Enum: func(s pbt.Src, _ bool) OnceParCase {
				return OnceParCase{Start: []int{pbt.Pick(s, 0, 1, 5), pbt.Pick(s, 0, 1, 5)}, Lat: []int{pbt.Pick(s, 0, 4), pbt.Pick(s, 0, 4)}}
			},
			Gen: func(s pbt.Src, _ bool) OnceParCase {
				g := 2 + s.Intn(3)
				c := OnceParCase{}
				for i := 0; i < g; i++ {
					c.Start = append(c.Start, s.Intn(12))
					c.Lat = append(c.Lat, s.Intn(20))
				}
				return c
			},
			Prop:       onceParProp,
			OutOfEnum:  func(c OnceParCase, _ bool) bool { return len(c.Start) != 2 },
			RapidQuick: 100, RapidThorough: 3000,
			Bubble: true,
		},
		&pbt.Check[OnceExpCase]{
			Name: "once-expiry",
			Rule: "Once(cache, fn) on a cache whose entries live 10ms (without cleanup goroutine, or with one that sweeps every 4, 7 or 60ms), in virtual time: calls separated by gaps from {0,3,10,11,25}ms. Oracle: while the entry lives no run and the stored result; after it has expired exactly one run, whose result is served until it expires in turn " +
				"(exactly at the deadline either). Enumerated: every gap sequence of length 1..5 (thorough 6); random: up to 30 calls. Non-trivial = some call came after an expiry.",
			Enum: func(s pbt.Src, thorough bool) OnceExpCase {
				n := 5
				if thorough {
					n = 6
				}
				return OnceExpCase{Gaps: pbt.Seq(s, 1, n, func(s pbt.Src) int { return onceGaps[s.Intn(len(onceGaps))] }), Cleanup: s.Intn(4)}
			},
			Gen: func(s pbt.Src, _ bool) OnceExpCase {
				return OnceExpCase{Gaps: pbt.Seq(s, 1, 30, func(s pbt.Src) int { return pbt.Pick(s, 0, 1, 3, 9, 10, 11, 12, 25, 40) }), Cleanup: s.Intn(4)}
			},
			Prop:       onceExpProp,
			OutOfEnum:  func(c OnceExpCase, th bool) bool { return len(c.Gaps) > 6 },
			Bubble:     true,
			RapidQuick: 200, RapidThorough: 5000,
		},
		&pbt.Check[LegacyCase]{
			Name: "retrydelay-legacy",
			Rule: "RetryWithDelay(n in 1..5, delay 4ms) in REAL time with the runtime switched to the timer-channel semantics of Go before 1.23 (GODEBUG asynctimerchan=1 for the duration of the case; the repository's own go directive is 1.20, the harness module's is 1.26), attempts lasting 0..3 delays: every attempt starts at least one delay after the previous one RETURNED (a lower bound: load only lengthens it). Fixed: a first attempt of two delays; random: a few more. Non-trivial = a slow attempt was followed by another.",
			Gen: func(s pbt.Src, _ bool) LegacyCase {
				return LegacyCase{N: 2 + s.Intn(3), Lats: pbt.Seq(s, 0, 4, func(s pbt.Src) int { return s.Intn(7) })}
			},
			Prop: legacyProp, OutOfEnum: func(LegacyCase, bool) bool { return true },
			Fixed:      []LegacyCase{{3, []int{4}}, {3, []int{0, 5}}, {2, []int{2}}},
			RapidQuick: 3, RapidThorough: 40,
		},
		&pbt.Check[RetryCase]{
			Name: "retry",
			Rule: "RType[int].Retry(n, fn), three times in a row on ONE RType value (each call is a retry loop of its own); invocation i of fn succeeds iff pattern[i] = 'S', invocations beyond the pattern fail, every failure is a distinct error value (in the second of the three calls: one and the same sentinel value); " +
				scopeText + " x every pattern of length 0..8 (0..12); random: n in -20..40, patterns shaped relative to n (success within the budget / exactly n failures / more than n failures + tail / up to 40 failures + tail). " +
				"Oracle: invocations = min(n, position of the first success), 0 for n <= 0; reported attempts = failed invocations; error nil after a success, else errors.Is(the error of the nth invocation); " +
				"the error for n <= 0 is not asserted. Non-trivial = n >= 1 and the pattern is consumed exactly, one letter per invocation " +
				"(patterns with an unused tail or shorter than the invocations repeat the behaviour of an exactly consumed one: enumerated, but not counted).",
			Enum: enumRetry, Gen: genRetry, Prop: retryProp, OutOfEnum: retryOutOfEnum,
			RapidQuick: 300, RapidThorough: 20000,
			Fixed: []RetryCase{{N: 2, Pat: "FF"}, {N: 3, Pat: "FS"}, {N: -1, Pat: "S"}, {N: 0, Pat: "S"}},
		},
		&pbt.Check[DelayCase]{
			Name: "retrydelay",
			Rule: "RType[int].RetryWithDelay(n, d, fn) inside a synctest bubble (virtual, exact clock; fn records time.Now()); same n and patterns as retry x d in {0, 5ms, 1s} (thorough and random also 1ns, 1h) x 4 shapes of how long the invocations take in virtual time (none; first 3d+1ms; odd ones 2d+1ms and even ones 1ms; each d/2). " +
				"Oracle: invocation count, attempts and error as for retry (no error demanded for n <= 0); consecutive invocations START at least d apart (lower bound only, the weakest reading of 'waits at least d between consecutive attempts'); the reported elapsed time is not asserted. Non-trivial as for retry.",
			Enum: enumDelay, Gen: genDelay, Prop: delayProp, OutOfEnum: delayOutOfEnum,
			Bubble:     true,
			RapidQuick: 300, RapidThorough: 10000,
			Fixed: []DelayCase{{N: 3, Pat: "FFF", D: 1}, {N: 3, Pat: "FS", D: 2}, {N: 0, Pat: "", D: 1}, {N: -1, Pat: "", D: 1}},
		},
	)
}
