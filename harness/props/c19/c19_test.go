// C19: singly and doubly linked lists behave as sequences under every edit.
package c19

import (
	"fmt"
	"runtime/debug"
	"strings"
	"testing"

	"github.com/esimov/gogu/list"
	"verif/pbt"
)

const (
	opUnshift = iota
	opAppend
	opShift
	opPop
	opInsertAfter
	opInsertBefore
	opDelete
	opReplace
	// opRepDel (duplicate checks only): h := Find(value at Pos); Replace(value at position V, that same value) - which can put an
	// equal value EARLIER in the sequence; Delete(h). The handle was taken before the Replace (Replace moves no node),
	// so Delete must remove exactly the node at Pos, not the first node holding an equal value.
	opRepDel
	nKinds
)

var opNames = []string{"Unshift", "Append", "Shift", "Pop", "InsertAfter", "InsertBefore", "Delete", "Replace", "Find;Replace;Delete"}

const (
	initVal   = 1    // the element the list is created with
	absentVal = -99  // never inserted: the "absent" value of Replace and Find
	firstNew  = 10   // operation i of the case inserts firstNew+i
	tailNew   = 1000 // the closing script inserts tailNew, tailNew+1, ...
	noPos     = -1   // Pos of InsertAfter/InsertBefore: nil handle; of Replace: absent old value
	findAllTo = 16   // Find is asked for every element up to this length, for a sample above
)

// Op is one call. Pos selects the element the call refers to, interpreted when
// the case runs: the node found for the value at model position Pos mod len.
// Pos == -1 means the nil handle (InsertAfter, InsertBefore), the absent value
// (Replace) or the last element (Delete). Unshift/Append/Shift/Pop ignore Pos.
type Op struct {
	Kind int `json:"kind"`
	Pos  int `json:"pos"`
	// V: 0 = the call inserts a fresh value no other call of the case uses (firstNew+i); v > 0 = it inserts the
	// value v of a small alphabet (1..dupVals), so that the sequence can hold the same value several times. A node
	// handle is always the node Find returns for a value, i.e. the node of its FIRST occurrence.
	V int `json:"v,omitempty"`
}

const dupVals = 2 // value alphabet of the duplicate checks: {1, 2} (1 is also the initial element)

func (o Op) String() string {
	if o.Kind < 0 || o.Kind >= nKinds {
		return fmt.Sprintf("?%d", o.Kind)
	}
	v := ""
	if o.V != 0 {
		v = fmt.Sprintf("=%d", o.V)
	}
	if o.Kind == opRepDel {
		return fmt.Sprintf("%s@%d<-@%d", opNames[o.Kind], o.Pos, o.V)
	}
	if o.Kind <= opPop {
		return opNames[o.Kind] + v
	}
	return fmt.Sprintf("%s@%d%s", opNames[o.Kind], o.Pos, v)
}

// Case is an operation sequence applied to a list created with the single element 1.
type Case struct {
	Ops []Op `json:"ops"`
}

// ---------------------------------------------------------------------------
// generators

func usesPos(kind int) bool { return kind >= opInsertAfter }

// alphabet is the number of different calls on a list of n elements.
func alphabet(n int, dl bool) int {
	a := 4 + (n + 1) + n + (n + 1) // simple kinds, InsertAfter (nil + n), Delete, Replace (absent + n)
	if dl {
		a += n + 1 // InsertBefore
	}
	return a
}

// decode maps idx in [0, alphabet(n, dl)) injectively to a call.
func decode(idx, n int, dl bool) Op {
	if idx < 4 {
		return Op{Kind: idx}
	}
	idx -= 4
	if idx < n+1 {
		return Op{Kind: opInsertAfter, Pos: idx - 1}
	}
	idx -= n + 1
	if dl {
		if idx < n+1 {
			return Op{Kind: opInsertBefore, Pos: idx - 1}
		}
		idx -= n + 1
	}
	if idx < n {
		return Op{Kind: opDelete, Pos: idx}
	}
	idx -= n
	return Op{Kind: opReplace, Pos: idx - 1}
}

// nextLen is the length of the sequence after op on a list of n elements
// (the length never depends on anything but the kinds and the nil handles).
func nextLen(n int, op Op) int {
	switch op.Kind {
	case opUnshift, opAppend:
		return n + 1
	case opInsertAfter, opInsertBefore:
		if op.Pos != noPos {
			return n + 1
		}
	case opShift, opPop, opDelete, opRepDel:
		if n > 1 {
			return n - 1
		}
	}
	return n
}

func enumLen(thorough, dl bool) int {
	switch {
	case dl && thorough:
		return 6
	case dl:
		return 5
	case thorough:
		return 7
	}
	return 5
}

// enumCase enumerates every semantically different call sequence: the position
// range of each call is exactly the length the list has at that point.
func enumCase(s pbt.Src, thorough, dl bool) Case {
	n := 1
	return Case{Ops: pbt.Seq(s, 0, enumLen(thorough, dl), func(s pbt.Src) Op {
		op := decode(s.Intn(alphabet(n, dl)), n, dl)
		n = nextLen(n, op)
		return op
	})}
}

func insertsValue(op Op) bool {
	switch op.Kind {
	case opUnshift, opAppend, opInsertAfter, opInsertBefore:
		return true
	case opReplace:
		return op.Pos != noPos
	}
	return false
}

func enumLenDup(thorough, dl bool) int {
	if thorough {
		return 5
	}
	return 4
}

// enumCaseDup: as enumCase, but every call that inserts a value draws it from {1..dupVals}.
func enumCaseDup(s pbt.Src, thorough, dl bool) Case {
	n := 1
	return Case{Ops: pbt.Seq(s, 0, enumLenDup(thorough, dl), func(s pbt.Src) Op {
		a := alphabet(n, dl)
		extra := 0
		if n >= 2 {
			extra = n * (n - 1) // Find;Replace;Delete with target position p and source position q != p
		}
		i := s.Intn(a + extra)
		var op Op
		if i >= a {
			i -= a
			pp, q := i/(n-1), i%(n-1)
			if q >= pp {
				q++
			}
			op = Op{Kind: opRepDel, Pos: pp, V: q}
		} else {
			op = decode(i, n, dl)
			if insertsValue(op) || op.Kind == opReplace {
				op.V = 1 + s.Intn(dupVals)
			}
		}
		n = nextLen(n, op)
		return op
	})}
}

// genCaseDup: long random sequences over 1..3 values (rarely a fresh one).
func genCaseDup(s pbt.Src, thorough, dl bool) Case {
	c := genCase(s, thorough, dl)
	nv := 1 + s.Intn(3)
	for i := range c.Ops {
		if s.Intn(8) != 0 {
			c.Ops[i].V = 1 + s.Intn(nv)
		}
		if s.Intn(10) == 0 {
			c.Ops[i] = Op{Kind: opRepDel, Pos: s.Intn(26), V: s.Intn(26)}
		}
	}
	return c
}

func genCase(s pbt.Src, thorough, dl bool) Case {
	max := 100
	if thorough {
		max = 300
	}
	kinds := []int{opUnshift, opAppend, opShift, opPop, opInsertAfter, opDelete, opReplace}
	if dl {
		kinds = append(kinds, opInsertBefore)
	}
	// 0..2 extra copies of the growing calls, so that some cases keep the list
	// short (many single-element situations) and others let it grow.
	for g := s.Intn(3); g > 0; g-- {
		kinds = append(kinds, opAppend, opUnshift, opInsertAfter)
	}
	return Case{Ops: pbt.Seq(s, 0, max, func(s pbt.Src) Op {
		op := Op{Kind: kinds[s.Intn(len(kinds))]}
		if usesPos(op.Kind) {
			op.Pos = s.Intn(26) - 1
		}
		return op
	})}
}

// ---------------------------------------------------------------------------
// the two lists behind one table of calls

type api[N any] struct {
	name         string
	dl           bool
	unshift      func(int)
	append       func(int)
	shift        func()
	pop          func()
	find         func(int) (*N, bool)
	val          func(*N) int
	insertAfter  func(*N, int) error
	insertBefore func(*N, int) error // nil: the list has no InsertBefore
	del          func(*N) error
	replace      func(old, new int) error
	each         func(func(int))
	first, last  func() int   // nil: the list has no First/Last
	mk           func(int) *N // a node of the right type that belongs to no list
}

func slistAPI() api[list.SingleNode[int]] {
	l := list.Init(initVal)
	return api[list.SingleNode[int]]{
		name: "SList", unshift: l.Unshift, append: l.Append, shift: l.Shift, pop: l.Pop,
		find: l.Find, val: func(n *list.SingleNode[int]) int { return n.Value },
		insertAfter: l.InsertAfter, del: l.Delete, replace: l.Replace, each: l.Each,
		mk: func(v int) *list.SingleNode[int] { return &list.SingleNode[int]{Value: v} },
	}
}

func dlistAPI() api[list.DoubleNode[int]] {
	l := list.InitDList(initVal)
	return api[list.DoubleNode[int]]{
		name: "DList", dl: true, unshift: l.Unshift, append: l.Append,
		shift: func() { l.Shift() }, pop: func() { l.Pop() },
		find: l.Find, val: func(n *list.DoubleNode[int]) int { return n.Value },
		insertAfter: l.InsertAfter, insertBefore: l.InsertBefore, del: l.Delete, replace: l.Replace, each: l.Each,
		first: l.First, last: l.Last,
		mk: func(v int) *list.DoubleNode[int] { return &list.DoubleNode[int]{Value: v} },
	}
}

// ---------------------------------------------------------------------------
// execution against the slice model

// done is one executed call, rendered only when a failure is reported.
type done struct {
	kind int
	at   int  // value whose node was looked up (InsertAfter/InsertBefore/Delete) or old value (Replace)
	val  int  // value inserted / new value
	none bool // nil handle
	tail bool // part of the closing script, not of the case
}

func (d done) String() string {
	s := ""
	switch d.kind {
	case opUnshift, opAppend:
		s = fmt.Sprintf("%s(%d)", opNames[d.kind], d.val)
	case opShift, opPop:
		s = opNames[d.kind] + "()"
	case opInsertAfter, opInsertBefore:
		if d.none {
			s = fmt.Sprintf("%s(nil,%d)", opNames[d.kind], d.val)
		} else {
			s = fmt.Sprintf("%s(Find(%d),%d)", opNames[d.kind], d.at, d.val)
		}
	case opDelete:
		s = fmt.Sprintf("Delete(Find(%d))", d.at)
	case opReplace:
		s = fmt.Sprintf("Replace(%d,%d)", d.at, d.val)
	default:
		s = fmt.Sprintf("skipped(kind %d)", d.kind)
	}
	if d.tail {
		s = "closing:" + s
	}
	return s
}

type tooMany struct{}

// panicSite names the innermost frame of package list on the panicking stack.
func panicSite() string {
	for _, l := range strings.Split(string(debug.Stack()), "\n") {
		if i := strings.Index(l, "/list/"); i >= 0 && strings.Contains(l, ".go:") {
			l = l[i+len("/list/"):]
			if j := strings.IndexByte(l, ' '); j >= 0 {
				l = l[:j]
			}
			return " at list/" + l
		}
	}
	return ""
}

// guard runs one call of the library and turns a panic into an error.
func guard(f func()) (err error) {
	defer func() {
		if p := recover(); p != nil {
			err = fmt.Errorf("panic: %v%s", p, panicSite())
		}
	}()
	f()
	return nil
}

type run[N any] struct {
	a     api[N]
	r     *pbt.R
	model []int
	prev  []int // model before the last call
	hist  []done
	seen  []int     // what the running Each has visited
	limit int       // bound of the running Each
	visit func(int) // the Each callback (allocated once per case)
	tail  bool      // the closing script is running: no labels

	// non-triviality bookkeeping (calls of the case only, not of the closing script)
	headChanged   bool // an earlier call replaced the first element
	headThenEdit  bool
	shrunkToOne   bool
	shrinkGrow    bool
	maxLen        int
	zeroedByShift bool
	dupRef        bool // a call referred to a value that occurs more than once (by a later occurrence)
	dupHeld       bool // the sequence held some value twice at some point
}

func (x *run[N]) label(l string) {
	if !x.tail {
		x.r.Label(l)
	}
}

func (x *run[N]) fail(format string, args ...any) error {
	return fmt.Errorf("%s: Init(%d) %v: %s (sequence before the last call: %v)", x.a.name, initVal, x.hist, fmt.Sprintf(format, args...), x.prev)
}

// each records what Each visits; the callback gives up above len(model)+5
// elements (a corrupted list can be cyclic and Each would never return).
// The result is only valid until the next call of each.
func (x *run[N]) each() (seq []int, err error) {
	x.limit = len(x.model) + 5
	x.seen = x.seen[:0]
	if x.visit == nil {
		x.visit = func(v int) {
			if len(x.seen) >= x.limit {
				panic(tooMany{})
			}
			x.seen = append(x.seen, v)
		}
	}
	defer func() {
		if p := recover(); p != nil {
			if _, ok := p.(tooMany); ok {
				err = fmt.Errorf("cycle/too many elements: Each visits more than %d elements, the sequence has %d; Each so far %v, want %v", x.limit, len(x.model), x.seen, x.model)
				return
			}
			err = fmt.Errorf("Each: panic: %v%s", p, panicSite())
		}
	}()
	x.a.each(x.visit)
	return x.seen, nil
}

func equal(a, b []int) bool {
	if len(a) != len(b) {
		return false
	}
	for i := range a {
		if a[i] != b[i] {
			return false
		}
	}
	return true
}

// findCheck asks Find for one value and compares with the model.
func (x *run[N]) findCheck(v int, present bool) error {
	var h *N
	var ok bool
	if err := guard(func() { h, ok = x.a.find(v) }); err != nil {
		return x.fail("Find(%d): %v", v, err)
	}
	if !present {
		if ok || h != nil {
			return x.fail("Find(%d) = (node %v, %v) for a value that is not in the sequence %v", v, h != nil, ok, x.model)
		}
		return nil
	}
	if !ok || h == nil {
		return x.fail("Find(%d) = (node %v, %v) although the sequence is %v", v, h != nil, ok, x.model)
	}
	if got := x.a.val(h); got != v {
		return x.fail("Find(%d) returned a node holding %d", v, got)
	}
	return nil
}

// observe compares everything observable with the model. Each runs first: only
// once it has shown a finite, correct chain are the unbounded walkers (Find of
// an absent value, Last) safe to call.
func (x *run[N]) observe() error {
	seq, err := x.each()
	if err != nil {
		return x.fail("%v", err)
	}
	if !equal(seq, x.model) {
		return x.fail("Each gives %v, want %v", seq, x.model)
	}
	n := len(x.model)
	if x.a.first != nil {
		var f, l int
		if err := guard(func() { f = x.a.first() }); err != nil {
			return x.fail("First: %v", err)
		}
		if f != x.model[0] {
			return x.fail("First() = %d, sequence is %v", f, x.model)
		}
		if err := guard(func() { l = x.a.last() }); err != nil {
			return x.fail("Last: %v", err)
		}
		if l != x.model[n-1] {
			return x.fail("Last() = %d, sequence is %v", l, x.model)
		}
	}
	if n <= findAllTo {
		for _, v := range x.model {
			if err := x.findCheck(v, true); err != nil {
				return err
			}
		}
	} else {
		for _, p := range [...]int{0, n - 1, n / 2, len(x.hist) % n, (7 * len(x.hist)) % n} {
			if err := x.findCheck(x.model[p], true); err != nil {
				return err
			}
		}
	}
	if err := x.findCheck(absentVal, false); err != nil {
		return err
	}
	// The observers must not have changed anything.
	seq, err = x.each()
	if err != nil {
		return x.fail("second Each after First/Last/Find: %v", err)
	}
	if !equal(seq, x.model) {
		return x.fail("Each gives %v after Each/First/Last/Find observed %v", seq, x.model)
	}
	return nil
}

// handle obtains the node of value at through Find, immediately before its use.
func (x *run[N]) handle(at int) (*N, error) {
	var h *N
	var ok bool
	if err := guard(func() { h, ok = x.a.find(at) }); err != nil {
		return nil, x.fail("Find(%d): %v", at, err)
	}
	if !ok || h == nil {
		return nil, x.fail("Find(%d) = (node %v, %v) although the sequence is %v", at, h != nil, ok, x.model)
	}
	if got := x.a.val(h); got != at {
		return nil, x.fail("Find(%d) returned a node holding %d", at, got)
	}
	return h, nil
}

func insertAt(m []int, i, v int) []int {
	m = append(m, 0)
	copy(m[i+1:], m[i:])
	m[i] = v
	return m
}

func removeAt(m []int, i int) []int { return append(m[:i], m[i+1:]...) }

// step performs one call, updates the model and compares.
func (x *run[N]) step(op Op, val int, tail bool) error {
	n := len(x.model)
	x.prev = append(x.prev[:0], x.model...)
	x.tail = tail
	p := op.Pos % n
	if p < 0 {
		p += n
	}
	if op.V > 0 && op.Kind != opRepDel {
		val = op.V
	}
	// the handle of a value is the node of its first occurrence
	if usesPos(op.Kind) && op.Pos != noPos || op.Kind == opDelete || op.Kind == opRepDel {
		for i, v := range x.model {
			if v == x.model[p] {
				if i != p {
					x.dupRef = true
				}
				p = i
				break
			}
		}
	}
	d := done{kind: op.Kind, val: val, tail: tail}
	var callErr, opErr error // panic of the call, error returned by the call
	wantErr := ""            // non-empty: the call must return an error and change nothing
	returnsErr := false      // the call returns an error value at all
	headChange, furtherEdit := false, false

	switch op.Kind {
	case opUnshift:
		x.hist = append(x.hist, d)
		callErr = guard(func() { x.a.unshift(val) })
		x.model = insertAt(x.model, 0, val)
		headChange = true
	case opAppend:
		x.hist = append(x.hist, d)
		callErr = guard(func() { x.a.append(val) })
		x.model = append(x.model, val)
	case opShift:
		x.hist = append(x.hist, d)
		callErr = guard(func() { x.a.shift() })
		if n > 1 {
			x.model = removeAt(x.model, 0)
			headChange = true
		} else {
			x.label("Shift on a single element")
		}
	case opPop:
		x.hist = append(x.hist, d)
		callErr = guard(func() { x.a.pop() })
		if n > 1 {
			x.model = removeAt(x.model, n-1)
		} else {
			x.label("Pop on a single element")
		}
	case opInsertAfter, opInsertBefore:
		ins := x.a.insertAfter
		if op.Kind == opInsertBefore {
			ins = x.a.insertBefore
		}
		if ins == nil { // SList has no InsertBefore (only reachable through a hand-written replay file)
			d.kind = -1
			x.hist = append(x.hist, d)
			return nil
		}
		returnsErr = true
		var h *N
		if op.Pos == noPos {
			d.none = true
			x.hist = append(x.hist, d)
			wantErr = "a nil node"
			x.label("nil handle")
			if len(x.hist)%2 == 0 {
				// every other time: a node that belongs to no list and whose value is absent from this one ("returns an
				// error in case the requested node does not exist"): refused, nothing changes
				h = x.a.mk(absentVal)
				wantErr = "a node that is not in the list (no element has its value)"
				x.label("foreign node with an absent value")
			}
		} else {
			d.at = x.model[p]
			x.hist = append(x.hist, d)
			var err error
			if h, err = x.handle(d.at); err != nil {
				return err
			}
			if op.Kind == opInsertAfter {
				x.model = insertAt(x.model, p+1, val)
				furtherEdit = !x.a.dl && p >= 1
			} else {
				x.model = insertAt(x.model, p, val)
				headChange = p == 0
				furtherEdit = p >= 1
			}
		}
		callErr = guard(func() { opErr = ins(h, val) })
	case opDelete:
		returnsErr = true
		d.at = x.model[p]
		x.hist = append(x.hist, d)
		h, err := x.handle(d.at)
		if err != nil {
			return err
		}
		if n == 1 {
			wantErr = "the only element"
			x.label("Delete of the only element refused")
		} else {
			x.model = removeAt(x.model, p)
			headChange = p == 0
			furtherEdit = p >= 1
		}
		callErr = guard(func() { opErr = x.a.del(h) })
	case opRepDel:
		if n < 2 {
			d.kind = -1
			x.hist = append(x.hist, d)
			return nil
		}
		q := ((op.V % n) + n) % n
		if q == p {
			q = (p + 1) % n
		}
		for i, v := range x.model { // Replace acts on the first occurrence of the value at q
			if v == x.model[q] {
				q = i
				break
			}
		}
		target := x.model[p]
		h, err := x.handle(target)
		if err != nil {
			return err
		}
		dr := done{kind: opReplace, at: x.model[q], val: target, tail: tail}
		x.hist = append(x.hist, dr)
		var rerr error
		if e := guard(func() { rerr = x.a.replace(x.model[q], target) }); e != nil {
			return x.fail("%v", e)
		}
		if rerr != nil {
			return x.fail("unexpected error %q", rerr)
		}
		x.model[q] = target
		if q < p {
			x.label("Delete through a handle taken before an equal value appeared earlier in the sequence")
			x.dupRef = true
		}
		// now delete the node found BEFORE the Replace: exactly the element at p (when q == p the Replace changed nothing)
		returnsErr = true
		d = done{kind: opDelete, at: target, tail: tail}
		x.hist = append(x.hist, d)
		x.model = removeAt(x.model, p)
		headChange = p == 0
		furtherEdit = p >= 1
		callErr = guard(func() { opErr = x.a.del(h) })
	case opReplace:
		returnsErr = true
		if op.Pos == noPos {
			d.at = absentVal
			wantErr = "an absent value"
			x.label("Replace of an absent value")
			if len(x.hist)%2 == 0 {
				// every other time the new value equals the absent old one: Replace(v, v) of a value that is not in
				// the sequence reports absence all the same
				val = absentVal
				d.val = absentVal
				x.label("Replace(v, v) of an absent value")
			}
		} else {
			d.at = x.model[p]
			x.model[p] = val
		}
		x.hist = append(x.hist, d)
		callErr = guard(func() { opErr = x.a.replace(d.at, val) })
	default:
		d.kind = -1
		x.hist = append(x.hist, d)
		return nil
	}

	if callErr != nil {
		return x.fail("%v", callErr)
	}
	if returnsErr {
		if wantErr != "" && opErr == nil {
			return x.fail("no error returned for %s", wantErr)
		}
		if wantErr == "" && opErr != nil {
			return x.fail("unexpected error %q", opErr)
		}
	}
	// The statement is silent about DList.Shift on a single element, and the
	// linked queue relies on it zeroing the value: the element may be kept or zeroed.
	if op.Kind == opShift && n == 1 && x.a.dl && x.model[0] != 0 {
		seq, err := x.each()
		if err != nil {
			return x.fail("%v", err)
		}
		if len(seq) == 1 && seq[0] == 0 {
			x.model[0] = 0
			x.zeroedByShift = true
		}
	}
	if err := x.observe(); err != nil {
		return err
	}

	if !tail {
		m := len(x.model)
		if x.headChanged && furtherEdit {
			x.headThenEdit = true
		}
		if headChange {
			x.headChanged = true
		}
		if m > n && x.shrunkToOne {
			x.shrinkGrow = true
		}
		if n > 1 && m == 1 {
			x.shrunkToOne = true
		}
		if m > x.maxLen {
			x.maxLen = m
		}
		if !x.dupHeld {
		outer:
			for i, a := range x.model {
				for _, b := range x.model[i+1:] {
					if a == b {
						x.dupHeld = true
						break outer
					}
				}
			}
		}
	}
	return nil
}

// closing is a fixed script run after the operations of every case. Stale
// links left behind by the case only show when a later edit uses them, so the
// script edits next to every remaining node, deletes down to one element
// (front, second, back in turn) and grows the list again.
func (x *run[N]) closing() error {
	v := tailNew
	next := func(kind, pos int) error {
		err := x.step(Op{Kind: kind, Pos: pos}, v, true)
		v++
		return err
	}
	kind := opInsertAfter
	if x.a.dl {
		kind = opInsertBefore
	}
	for p := len(x.model) - 1; p >= 0; p-- {
		if err := next(kind, p); err != nil {
			return err
		}
	}
	for i := 0; len(x.model) > 1; i++ {
		pos := 0
		switch i % 3 {
		case 1:
			pos = 1
		case 2:
			pos = len(x.model) - 1
		}
		if err := next(opDelete, pos); err != nil {
			return err
		}
	}
	for _, o := range []Op{{opDelete, 0, 0}, {opAppend, 0, 0}, {opUnshift, 0, 0}, {opInsertAfter, 1, 0}, {opDelete, 1, 0}, {opPop, 0, 0}, {opShift, 0, 0}} {
		if err := next(o.Kind, o.Pos); err != nil {
			return err
		}
	}
	return nil
}

func execute[N any](a api[N], c Case, r *pbt.R) error {
	x := &run[N]{a: a, r: r, model: make([]int, 1, 16), maxLen: 1}
	x.model[0] = initVal
	if err := x.observe(); err != nil {
		return err
	}
	for i, op := range c.Ops {
		if err := x.step(op, firstNew+i, false); err != nil {
			return err
		}
	}
	if hasDupValues(c) {
		r.NonTrivialIf(x.dupHeld, "the sequence held a value twice")
		if x.dupRef {
			r.Label("call referred to a value by a later occurrence (acts on the first)")
		}
		if x.headThenEdit {
			r.Label("head change, later edit further along")
		}
	} else {
		r.NonTrivialIf(x.headThenEdit, "head change, later edit further along")
		r.NonTrivialIf(x.shrinkGrow, "shrunk to one element, grown again")
	}
	if x.zeroedByShift {
		r.Label("DList.Shift zeroed the single element")
	}
	switch {
	case x.maxLen >= 16:
		r.Label("max length >= 16")
	case x.maxLen >= 4:
		r.Label("max length 4..15")
	}
	if len(c.Ops) >= 50 {
		r.Label("50+ operations")
	}
	return x.closing()
}

func hasDupValues(c Case) bool {
	for _, o := range c.Ops {
		if o.V != 0 {
			return true
		}
	}
	return false
}

func propS(c Case, r *pbt.R) error { return execute(slistAPI(), c, r) }
func propD(c Case, r *pbt.R) error { return execute(dlistAPI(), c, r) }

// ---------------------------------------------------------------------------

// Hand-written boundary cases (positions as in Op; InsertBefore is skipped on SList).
var fixed = []Case{
	{},
	// head relocated by Unshift, then edits further along
	{Ops: []Op{{opUnshift, 0, 0}, {opAppend, 0, 0}, {opDelete, 2, 0}, {opInsertBefore, 1, 0}}},
	// head overwritten by Shift / Delete of the first, then Delete further along
	{Ops: []Op{{opAppend, 0, 0}, {opAppend, 0, 0}, {opShift, 0, 0}, {opDelete, 1, 0}}},
	{Ops: []Op{{opAppend, 0, 0}, {opAppend, 0, 0}, {opDelete, 0, 0}, {opDelete, 1, 0}, {opAppend, 0, 0}}},
	// InsertBefore at the head, then InsertBefore / Delete behind it
	{Ops: []Op{{opAppend, 0, 0}, {opInsertBefore, 0, 0}, {opInsertBefore, 1, 0}, {opInsertBefore, 3, 0}, {opDelete, 2, 0}}},
	// shrink to one element in every way and grow again
	{Ops: []Op{{opAppend, 0, 0}, {opPop, 0, 0}, {opPop, 0, 0}, {opShift, 0, 0}, {opDelete, 0, 0}, {opUnshift, 0, 0}, {opShift, 0, 0}, {opShift, 0, 0}, {opAppend, 0, 0}, {opInsertAfter, 0, 0}, {opDelete, 0, 0}, {opDelete, 1, 0}, {opInsertBefore, 0, 0}}},
	// every refusal
	{Ops: []Op{{opInsertAfter, noPos, 0}, {opInsertBefore, noPos, 0}, {opReplace, noPos, 0}, {opDelete, 0, 0}, {opReplace, 0, 0}, {opAppend, 0, 0}, {opInsertAfter, noPos, 0}, {opInsertBefore, noPos, 0}, {opReplace, noPos, 0}, {opReplace, 1, 0}}},
}

func rule(name string, dl bool) string {
	calls := "Unshift, Append, Shift, Pop, InsertAfter(node|nil), Delete(node), Replace(present|absent)"
	further := "Delete/InsertAfter"
	if dl {
		calls = "Unshift, Append, Shift, Pop, InsertAfter(node|nil), InsertBefore(node|nil), Delete(node), Replace(present|absent)"
		further = "Delete/InsertBefore"
	}
	return fmt.Sprintf("%s created with one element; calls %s with fresh distinct non-zero values; node = Find(value at a model position) immediately before use; "+
		"Delete never gets nil. Slice model; after every call: Each (callback bounded by len+5), First/Last (DList), Find of every element (a sample above %d elements) and of an absent value, "+
		"Each again; returned errors (nil handle or, every other time, a node of no list whose value is absent; absent Replace; Delete of the only element) and panics. After the calls of the case a fixed closing script (insert next to every node, "+
		"delete down to one element, refusal, grow again) is checked the same way. Enumerated: every call sequence up to length %d (thorough %d), positions ranging over the exact current length "+
		"(injective); random: up to 100 (300) calls, positions mod length. Non-trivial = a call that replaced the first element (Unshift, Shift, Delete/InsertBefore at the front) is followed later by a %s "+
		"at a position >= 1, or the list shrank to one element and grew again (closing script not counted). Distinct = enumerated cases + hash-distinct random cases longer than the enumerated length.",
		name, calls, findAllTo, enumLen(false, dl), enumLen(true, dl), further)
}

func check(name string, dl bool, prop func(Case, *pbt.R) error) *pbt.Check[Case] {
	return &pbt.Check[Case]{
		Name:          name,
		Rule:          rule(name, dl),
		Enum:          func(s pbt.Src, thorough bool) Case { return enumCase(s, thorough, dl) },
		Gen:           func(s pbt.Src, thorough bool) Case { return genCase(s, thorough, dl) },
		Prop:          prop,
		OutOfEnum:     func(c Case, thorough bool) bool { return len(c.Ops) > enumLen(thorough, dl) },
		RapidQuick:    1500,
		RapidThorough: 20000,
		Fixed:         fixed,
	}
}

func ruleDup(name string, dl bool) string {
	return fmt.Sprintf("%s with REPEATED values: as the check without duplicates, but inserted values and Replace's new value come from {1,2} (1 is also the initial element; random: 1..3 values, rarely a fresh one), "+
		"so the sequence holds equal elements; a node handle is the node Find returns for a value = its first occurrence, so InsertAfter/InsertBefore/Delete act at the first occurrence and Replace changes the first occurrence only. "+
		"Enumerated: every call sequence up to length %d (thorough %d) x both values per inserting call; random: up to 100 (300) calls. Non-trivial = the sequence held some value twice.",
		name, enumLenDup(false, dl), enumLenDup(true, dl))
}

var fixedDup = []Case{
	// Replace changes the first occurrence only
	{Ops: []Op{{Kind: opAppend, V: 2}, {Kind: opAppend, V: 1}, {Kind: opAppend, V: 3}, {Kind: opReplace, Pos: 2, V: 2}, {Kind: opReplace, Pos: 0, V: 3}}},
	// Delete / InsertAfter at the first of two equal elements
	{Ops: []Op{{Kind: opAppend, V: 2}, {Kind: opAppend, V: 2}, {Kind: opDelete, Pos: 2}, {Kind: opInsertAfter, Pos: 1, V: 1}, {Kind: opDelete, Pos: 2}}},
}

func checkDup(name string, dl bool, prop func(Case, *pbt.R) error) *pbt.Check[Case] {
	return &pbt.Check[Case]{
		Name:          name,
		Rule:          ruleDup(name, dl),
		Enum:          func(s pbt.Src, thorough bool) Case { return enumCaseDup(s, thorough, dl) },
		Gen:           func(s pbt.Src, thorough bool) Case { return genCaseDup(s, thorough, dl) },
		Prop:          prop,
		OutOfEnum:     func(c Case, thorough bool) bool { return len(c.Ops) > enumLenDup(thorough, dl) },
		RapidQuick:    800,
		RapidThorough: 10000,
		Fixed:         fixedDup,
	}
}

// ---------------------------------------------------------------------------
// long lists: tens of thousands of nodes (a walk that gives up after 2^16 steps would stop short)

// LongCase: a list of N nodes built at the front (Unshift) in one go, then edited at the far end.
type LongCase struct {
	Doubly bool `json:"doubly"`
	N      int  `json:"n"`
}

func longProp(c LongCase, r *pbt.R) error {
	n := 2 + ((c.N-2)%200000+200000)%200000
	var (
		unshift, appendTo func(int)
		pop               func()
		each              func(func(int))
		last              func() int
		name              = "SList"
	)
	if c.Doubly {
		l := list.InitDList(0)
		unshift, appendTo, pop, each, last, name = l.Unshift, l.Append, func() { l.Pop() }, l.Each, l.Last, "DList"
	} else {
		l := list.Init(0)
		unshift, appendTo, pop, each = l.Unshift, l.Append, l.Pop, l.Each
	}
	for i := 1; i < n; i++ {
		unshift(i) // the list reads n-1, n-2, ..., 1, 0
	}
	tail := func() (count, secondLast, lastV int) {
		each(func(v int) { count++; secondLast, lastV = lastV, v })
		return
	}
	ctx := fmt.Sprintf("%s of %d nodes built by Unshift (it reads %d, %d, ..., 1, 0)", name, n, n-1, n-2)
	if cnt, _, lv := tail(); cnt != n || lv != 0 {
		return fmt.Errorf("%s: Each visits %d values, the last one %d; want %d values ending in 0", ctx, cnt, lv, n)
	}
	appendTo(-7)
	if cnt, sl, lv := tail(); cnt != n+1 || lv != -7 || sl != 0 {
		return fmt.Errorf("%s: after Append(-7) Each visits %d values ending in %d, %d; want %d values ending in 0, -7", ctx, cnt, sl, lv, n+1)
	}
	if last != nil {
		if got := last(); got != -7 {
			return fmt.Errorf("%s: after Append(-7) Last() = %d", ctx, got)
		}
	}
	appendTo(-8)
	pop()
	if cnt, sl, lv := tail(); cnt != n+1 || lv != -7 || sl != 0 {
		return fmt.Errorf("%s: after Append(-7) Append(-8) Pop Each visits %d values ending in %d, %d; want %d values ending in 0, -7", ctx, cnt, sl, lv, n+1)
	}
	if last != nil {
		if got := last(); got != -7 {
			return fmt.Errorf("%s: after Append(-7) Append(-8) Pop Last() = %d, want -7", ctx, got)
		}
	}
	r.NonTrivialIf(n > 65537, "more than 65537 nodes")
	return nil
}

func TestProp(t *testing.T) {
	pbt.Run(t, "C19",
		check("slist", false, propS),
		check("dlist", true, propD),
		checkDup("slist-dup", false, propS),
		checkDup("dlist-dup", true, propD),
		&pbt.Check[LongCase]{
			Name: "long",
			Rule: "lists of thousands to tens of thousands of nodes (built at the front by Unshift): Each visits all of them, Append puts its value behind the very last node (Each and, on the doubly linked list, Last say so), Append followed by Pop leaves the earlier tail in place. Fixed: both lists with 1000, 65536, 65537, 65538 and 70000 nodes; random: 2..100000 nodes. Non-trivial = more than 65537 nodes.",
			Gen: func(s pbt.Src, _ bool) LongCase {
				return LongCase{Doubly: pbt.Bool(s), N: pbt.Pick(s, 2, 300, 4097, 32769, 66000, 100000)}
			},
			Prop:       longProp,
			OutOfEnum:  func(LongCase, bool) bool { return true },
			Fixed:      []LongCase{{false, 1000}, {true, 1000}, {false, 65536}, {true, 65536}, {false, 65537}, {true, 65537}, {false, 65538}, {true, 65538}, {false, 70000}, {true, 70000}},
			RapidQuick: 4, RapidThorough: 40,
		},
	)
}
