//go:build c02shim

// Package lin is the C02 harness: linearizability of the single-element
// container operations, decided by enumerating every interleaving of small
// programs at lock-acquisition granularity with the vsync scheduler.
//
// It only builds against a scratch copy of gogu whose container packages import
// github.com/esimov/gogu/vsync instead of sync (see engines/c02.py).
package lin

import (
	"encoding/json"
	"fmt"
	"os"
	"sort"
	"strings"
	"testing"
	"time"

	"github.com/esimov/gogu/bstree"
	"github.com/esimov/gogu/cache"
	"github.com/esimov/gogu/heap"
	"github.com/esimov/gogu/queue"
	"github.com/esimov/gogu/stack"
	"github.com/esimov/gogu/trie"
	"github.com/esimov/gogu/vsync"
	"verif/pbt"
)

// ---------------------------------------------------------------------------
// the operations

type opDef struct {
	Name string
	Run  func(inst any) string
}

type typeDef struct {
	Name    string
	Mk      func(state int) any // builds the instance in initial state 0..NStates-1 (outside the scheduler)
	NStates int                 // 0 means 3
	// BigState (when > 0): the index of an initial state that is expensive to build (a thousand elements); the
	// enumeration only uses it for the two-thread one-call programs, the random programs use it like any other.
	BigState int
	Ops     []opDef
	Observe func(inst any) string // follow-up observation after all threads finished
	// SafetyOnly: the operations include multi-element calls for which the statement of C02 promises
	// nothing (variadic Push, Merge, Meld, Keys, List, MapToCache ...): executions are judged for
	// deadlock, livelock and panics only (property C01), not against the sequential outcomes.
	SafetyOnly bool
}

func (td *typeDef) states() int {
	if td.NStates > 0 {
		return td.NStates
	}
	return 3
}

func s(v ...any) string { return fmt.Sprint(v...) }

func heapType() typeDef {
	type H = *heap.Heap[int]
	return typeDef{
		Name: "heap",
		Mk: func(st int) any {
			h := heap.NewHeap(func(a, b int) bool { return a < b })
			switch st {
			case 1:
				h.Push(1)
			case 2:
				h.Push(2, 1, 3)
			case 3:
				// grown large, then drained to just above a quarter of its capacity (where an implementation might
				// release memory): 1100 pushes (capacity 1280), popped down to 321 elements
				for k := 0; k < 1100; k++ {
					h.Push(k%3 + 1)
				}
				for h.Size() > 321 {
					h.Pop()
				}
			}
			return h
		},
		NStates: 4, BigState: 3,
		Ops: []opDef{
			{"Push(1)", func(i any) string { i.(H).Push(1); return "" }},
			{"Push(2)", func(i any) string { i.(H).Push(2); return "" }},
			{"Pop", func(i any) string { return s(i.(H).Pop()) }},
			{"Peek", func(i any) string { return s(i.(H).Peek()) }},
			{"Size", func(i any) string { return s(i.(H).Size()) }},
			{"Clear", func(i any) string { i.(H).Clear(); return "" }},
			{"Delete(1)", func(i any) string { ok, err := i.(H).Delete(1); return s(ok, err != nil) }},
			{"Delete(2)", func(i any) string { ok, err := i.(H).Delete(2); return s(ok, err != nil) }},
			{"IsEmpty", func(i any) string { return s(i.(H).IsEmpty()) }},
		},
		Observe: func(i any) string {
			h := i.(H)
			out := s("size=", h.Size(), " drain=")
			for k := 0; k < 12 && h.Size() > 0; k++ {
				out += s(h.Pop(), ",")
			}
			return out
		},
	}
}

type queueLike interface {
	Enqueue(int)
	Peek() int
	Search(int) bool
	Size() int
	Clear()
}

func queueOps(deq func(i any) string) []opDef {
	return []opDef{
		{"Enqueue(1)", func(i any) string { i.(queueLike).Enqueue(1); return "" }},
		{"Enqueue(2)", func(i any) string { i.(queueLike).Enqueue(2); return "" }},
		{"Dequeue", deq},
		{"Peek", func(i any) string { return s(i.(queueLike).Peek()) }},
		{"Size", func(i any) string { return s(i.(queueLike).Size()) }},
		{"Search(1)", func(i any) string { return s(i.(queueLike).Search(1)) }},
		{"Clear", func(i any) string { i.(queueLike).Clear(); return "" }},
	}
}

func queueType() typeDef {
	deq := func(i any) string { v, err := i.(*queue.Queue[int]).Dequeue(); return s(v, err != nil) }
	return typeDef{
		Name: "queue",
		Mk: func(st int) any {
			q := queue.New[int]()
			switch st {
			case 1:
				q.Enqueue(1)
			case 2:
				q.Enqueue(2)
				q.Enqueue(1)
			case 3:
				// grown large, then drained to just above a quarter of its capacity
				for k := 0; k < 1100; k++ {
					q.Enqueue(k%3 + 1)
				}
				for q.Size() > 321 {
					q.Dequeue()
				}
			}
			return q
		},
		NStates: 4, BigState: 3,
		Ops: queueOps(deq),
		Observe: func(i any) string {
			q := i.(*queue.Queue[int])
			out := s("size=", q.Size(), " peek=", q.Peek(), " drain=")
			for k := 0; k < 12 && q.Size() > 0; k++ {
				out += deq(q) + ","
			}
			return out
		},
	}
}

func lqueueType() typeDef {
	deq := func(i any) string { return s(i.(*queue.LQueue[int]).Dequeue()) }
	return typeDef{
		Name: "lqueue",
		Mk: func(st int) any {
			switch st {
			case 1:
				return queue.NewLinked(1)
			case 2:
				q := queue.NewLinked(2)
				q.Enqueue(1)
				return q
			}
			q := queue.NewLinked(9)
			q.Dequeue()
			return q
		},
		Ops: queueOps(deq),
		Observe: func(i any) string {
			q := i.(*queue.LQueue[int])
			out := s("size=", q.Size(), " peek=", q.Peek(), " drain=")
			for k := 0; k < 12 && q.Size() > 0; k++ {
				out += deq(q) + ","
			}
			return out
		},
	}
}

type stackLike interface {
	Push(int)
	Pop() int
	Peek() int
	Search(int) bool
	Size() int
}

func stackOps() []opDef {
	return []opDef{
		{"Push(1)", func(i any) string { i.(stackLike).Push(1); return "" }},
		{"Push(2)", func(i any) string { i.(stackLike).Push(2); return "" }},
		{"Pop", func(i any) string { return s(i.(stackLike).Pop()) }},
		{"Peek", func(i any) string { return s(i.(stackLike).Peek()) }},
		{"Size", func(i any) string { return s(i.(stackLike).Size()) }},
		{"Search(1)", func(i any) string { return s(i.(stackLike).Search(1)) }},
	}
}

func stackObserve(i any) string {
	st := i.(stackLike)
	out := s("size=", st.Size(), " peek=", st.Peek(), " search1=", st.Search(1), " search2=", st.Search(2), " drain=")
	for k := 0; k < 12 && st.Size() > 0; k++ {
		out += s(st.Pop(), ",")
	}
	return out
}

func stackType() typeDef {
	return typeDef{
		Name: "stack",
		Mk: func(st int) any {
			x := stack.New[int]()
			switch st {
			case 1:
				x.Push(1)
			case 2:
				x.Push(2)
				x.Push(1)
			case 3:
				// grown large, then drained to just above a quarter of its capacity
				for k := 0; k < 1100; k++ {
					x.Push(k%3 + 1)
				}
				for x.Size() > 321 {
					x.Pop()
				}
			}
			return x
		},
		NStates: 4, BigState: 3,
		Ops: stackOps(), Observe: stackObserve,
	}
}

func lstackType() typeDef {
	return typeDef{
		Name: "lstack",
		Mk: func(st int) any {
			switch st {
			case 1:
				return stack.NewLinked(1)
			case 2:
				x := stack.NewLinked(2)
				x.Push(1)
				return x
			}
			x := stack.NewLinked(9)
			x.Pop()
			return x
		},
		Ops: stackOps(), Observe: stackObserve,
	}
}

func bstType() typeDef {
	type B = *bstree.BsTree[int, string]
	get := func(i any, k int) string { it, err := i.(B).Get(k); return s(it.Val, err != nil) }
	return typeDef{
		Name: "bstree",
		Mk: func(st int) any {
			b := bstree.New[int, string](func(a, b int) bool { return a < b })
			switch st {
			case 1:
				b.Upsert(1, "x")
			case 2:
				b.Upsert(1, "x")
				b.Upsert(2, "y")
				b.Upsert(0, "z")
			}
			return b
		},
		Ops: []opDef{
			{"Upsert(1,a)", func(i any) string { i.(B).Upsert(1, "a"); return "" }},
			{"Upsert(1,b)", func(i any) string { i.(B).Upsert(1, "b"); return "" }},
			{"Upsert(2,c)", func(i any) string { i.(B).Upsert(2, "c"); return "" }},
			{"Get(1)", func(i any) string { return get(i, 1) }},
			{"Get(2)", func(i any) string { return get(i, 2) }},
			{"Delete(1)", func(i any) string { return s(i.(B).Delete(1) != nil) }},
			{"Delete(2)", func(i any) string { return s(i.(B).Delete(2) != nil) }},
			{"Size", func(i any) string { return s(i.(B).Size()) }},
		},
		Observe: func(i any) string {
			out := s("size=", i.(B).Size())
			for k := 0; k <= 3; k++ {
				out += s(" ", k, ":", get(i, k))
			}
			return out
		},
	}
}

func trieType() typeDef {
	type T = *trie.Trie[string, int]
	get := func(i any, k string) string { v, ok := i.(T).Get(k); return s(v, ok) }
	return typeDef{
		Name: "trie",
		Mk: func(st int) any {
			t := trie.New[string, int](queue.New[string]())
			switch st {
			case 1:
				t.Put("a", 7)
			case 2:
				t.Put("ab", 8)
				t.Put("b", 9)
			}
			return t
		},
		Ops: []opDef{
			{"Put(a,1)", func(i any) string { i.(T).Put("a", 1); return "" }},
			{"Put(ab,2)", func(i any) string { i.(T).Put("ab", 2); return "" }},
			{"Put(a,3)", func(i any) string { i.(T).Put("a", 3); return "" }},
			{"Get(a)", func(i any) string { return get(i, "a") }},
			{"Get(ab)", func(i any) string { return get(i, "ab") }},
			{"Contains(ab)", func(i any) string { return s(i.(T).Contains("ab")) }},
			{"Contains(a)", func(i any) string { return s(i.(T).Contains("a")) }},
			{"Size", func(i any) string { return s(i.(T).Size()) }},
		},
		Observe: func(i any) string {
			t := i.(T)
			out := s("size=", t.Size())
			for _, k := range []string{"a", "ab", "b"} {
				out += s(" ", k, ":", get(i, k))
			}
			q, _ := t.Keys()
			out += " keys="
			for k := 0; k < 12 && q.Size() > 0; k++ {
				v, _ := q.Dequeue()
				out += v + ","
			}
			return out
		},
	}
}

func cacheType() typeDef {
	type C = *cache.Cache[string, int]
	get := func(i any, k string) string { it, err := i.(C).Get(k); return s(it.Val(), err != nil) }
	return typeDef{
		Name: "cache",
		Mk: func(st int) any {
			c := cache.New[string, int](cache.NoExpiration, 0)
			switch st {
			case 1:
				c.Set("k", 9, cache.NoExpiration)
			case 2:
				c.Set("k", 9, cache.NoExpiration)
				c.Set("j", 8, cache.NoExpiration)
			case 3:
				// k is stored but already expired (not purged: no cleanup goroutine), j is live
				c.Set("k", 9, time.Nanosecond)
				c.Set("j", 8, cache.NoExpiration)
				for t0 := time.Now(); time.Since(t0) < 2*time.Microsecond; {
				}
			}
			return c
		},
		NStates: 4,
		Ops: []opDef{
			{"Set(k,1)", func(i any) string { return s(i.(C).Set("k", 1, cache.NoExpiration) != nil) }},
			{"Set(k,2)", func(i any) string { return s(i.(C).Set("k", 2, cache.NoExpiration) != nil) }},
			{"SetDefault(j,4)", func(i any) string { return s(i.(C).SetDefault("j", 4) != nil) }},
			{"Update(k,3)", func(i any) string { return s(i.(C).Update("k", 3, cache.NoExpiration) != nil) }},
			{"Get(k)", func(i any) string { return get(i, "k") }},
			{"Delete(k)", func(i any) string { return s(i.(C).Delete("k") != nil) }},
			{"Count", func(i any) string { return s(i.(C).Count()) }},
			{"IsExpired(k)", func(i any) string { return s(i.(C).IsExpired("k")) }},
			{"DeleteExpired", func(i any) string { return s(i.(C).DeleteExpired() != nil) }},
		},
		Observe: func(i any) string {
			return s("count=", i.(C).Count(), " k:", get(i, "k"), " j:", get(i, "j"))
		},
	}
}

// ---------------------------------------------------------------------------
// safety-only types: every public method, including the multi-element ones

// heapPair: two heaps plus the bookkeeping of a conservation law that holds whatever the interleaving: every element is
// in exactly one place. (Only one virtual thread runs at a time, so plain counters suffice.)
type heapPair struct {
	h, o    *heap.Heap[int]
	melded  []*heap.Heap[int] // results of Meld: they took the elements over
	in, out int               // elements put in (initial + pushed) / taken out (successful Pop, Delete)
	cleared bool              // a Clear ran: the law is not evaluated
}

func (p *heapPair) pop(h *heap.Heap[int]) string {
	v := h.Pop()
	if v != 0 {
		p.out++
	}
	return s(v)
}

func heap2Type() typeDef {
	type P = *heapPair
	less := func(a, b int) bool { return a < b }
	more := func(a, b int) bool { return a > b }
	sum := func(h *heap.Heap[int]) string {
		if h == nil {
			return "nil"
		}
		vs := h.GetValues()
		t := 0
		for _, v := range vs {
			t += v
		}
		return s(len(vs), "/", t)
	}
	return typeDef{
		Name: "heap2", SafetyOnly: true,
		Mk: func(st int) any {
			p := &heapPair{h: heap.NewHeap(less), o: heap.NewHeap(less)}
			switch st {
			case 1:
				p.h.Push(1)
				p.o.Push(2)
				p.in = 2
			case 2:
				p.h.Push(2, 1, 3)
				p.o.Push(5, 4)
				p.in = 5
			}
			return p
		},
		Ops: []opDef{
			{"Push(1)", func(i any) string { i.(P).in++; i.(P).h.Push(1); return "" }},
			{"Push(2,3)", func(i any) string { i.(P).in += 2; i.(P).h.Push(2, 3); return "" }},
			{"Pop", func(i any) string { return i.(P).pop(i.(P).h) }},
			{"Peek", func(i any) string { return s(i.(P).h.Peek()) }},
			{"Size", func(i any) string { return s(i.(P).h.Size()) }},
			{"IsEmpty", func(i any) string { return s(i.(P).h.IsEmpty()) }},
			{"Clear", func(i any) string { i.(P).cleared = true; i.(P).h.Clear(); return "" }},
			{"Delete(1)", func(i any) string {
				ok, err := i.(P).h.Delete(1)
				if ok {
					i.(P).out++
				}
				return s(ok, err != nil)
			}},
			{"GetValues+read", func(i any) string { return sum(i.(P).h) }},
			{"Convert(>)", func(i any) string { i.(P).h.Convert(more); return "" }},
			{"Merge(o)", func(i any) string { return sum(i.(P).h.Merge(i.(P).o)) }},
			{"o.Merge(h)", func(i any) string { return sum(i.(P).o.Merge(i.(P).h)) }},
			{"Merge(h)", func(i any) string { return sum(i.(P).h.Merge(i.(P).h)) }},
			{"Meld(o)", func(i any) string {
				m := i.(P).h.Meld(i.(P).o)
				i.(P).melded = append(i.(P).melded, m)
				return sum(m)
			}},
			{"o.Meld(h)", func(i any) string {
				m := i.(P).o.Meld(i.(P).h)
				i.(P).melded = append(i.(P).melded, m)
				return sum(m)
			}},
			{"o.Push(1)", func(i any) string { i.(P).in++; i.(P).o.Push(1); return "" }},
			{"o.Pop", func(i any) string { return i.(P).pop(i.(P).o) }},
		},
		Observe: func(i any) string {
			out := ""
			if p := i.(P); !p.cleared {
				total := p.h.Size() + p.o.Size()
				for _, m := range p.melded {
					if m != nil {
						total += m.Size()
					}
				}
				if want := p.in - p.out; total != want {
					return fmt.Sprintf("CONSERVATION VIOLATED: %d elements were put in and %d taken out, but the two heaps and the %d melded heaps hold %d (an element was lost or duplicated)", p.in, p.out, len(p.melded), total)
				}
			}
			for _, h := range []*heap.Heap[int]{i.(P).h, i.(P).o} {
				out += s("size=", h.Size(), " drain=")
				for k := 0; k < 40 && h.Size() > 0; k++ {
					out += s(h.Pop(), ",")
				}
				h.Push(7)
				out += s(" again=", h.Pop(), "; ")
			}
			return out
		},
	}
}

func trie2Type() typeDef {
	td := trieType()
	type T = *trie.Trie[string, int]
	drain := func(q interface {
		Size() int
		Dequeue() (string, error)
	}, err error) string {
		if err != nil {
			return "error"
		}
		out := ""
		for k := 0; k < 40 && q.Size() > 0; k++ {
			v, _ := q.Dequeue()
			out += v + ","
		}
		return out
	}
	td.Name, td.SafetyOnly = "trie2", true
	td.Ops = append(append([]opDef(nil), td.Ops...),
		opDef{"Keys+drain", func(i any) string { q, err := i.(T).Keys(); return drain(q, err) }},
		opDef{"StartsWith(a)+drain", func(i any) string { q, err := i.(T).StartsWith("a"); return drain(q, err) }},
		opDef{"LongestPrefix(abc)", func(i any) string { v, err := i.(T).LongestPrefix("abc"); return s(v, err != nil) }},
		opDef{"Put(b,4)", func(i any) string { i.(T).Put("b", 4); return "" }},
		opDef{"LongestPrefix(empty)", func(i any) string { v, err := i.(T).LongestPrefix(""); return s(v, err != nil) }},
		opDef{"StartsWith(empty)", func(i any) string { _, err := i.(T).StartsWith(""); return s(err != nil) }},
		opDef{"Get(empty)", func(i any) string { v, ok := i.(T).Get(""); return s(v, ok) }},
	)
	return td
}

func cache2Type() typeDef {
	td := cacheType()
	type C = *cache.Cache[string, int]
	td.Name, td.SafetyOnly = "cache2", true
	td.Ops = append(append([]opDef(nil), td.Ops...),
		opDef{"List+iterate", func(i any) string {
			n := 0
			for _, it := range i.(C).List() {
				n += it.Val()
			}
			return s(n)
		}},
		opDef{"MapToCache(k,m)", func(i any) string {
			return s(i.(C).MapToCache(map[string]int{"k": 1, "m": 2}, cache.NoExpiration) != nil)
		}},
		opDef{"Flush", func(i any) string { i.(C).Flush(); return "" }},
		opDef{"Set(k,6,1h)", func(i any) string { return s(i.(C).Set("k", 6, time.Hour) != nil) }},
	)
	return td
}

var safetyTypes = []typeDef{heap2Type(), trie2Type(), cache2Type()}

var types = []typeDef{heapType(), queueType(), lqueueType(), stackType(), lstackType(), bstType(), trieType(), cacheType()}

func typeByName(n string) *typeDef {
	for i := range types {
		if types[i].Name == n {
			return &types[i]
		}
	}
	for i := range safetyTypes {
		if safetyTypes[i].Name == n {
			return &safetyTypes[i]
		}
	}
	return nil
}

// ---------------------------------------------------------------------------
// programs and executions

// Case is one program plus (for a replay / random case) one schedule.
type Case struct {
	Type     string  `json:"type"`
	State    int     `json:"state"`
	Threads  [][]int `json:"threads"`            // op indices per thread
	Schedule []int   `json:"schedule,omitempty"` // choices among the enabled threads
	// AfterUnlock: the instant after every Unlock/RUnlock is a scheduling point too (what a call
	// still does after leaving a critical section can then be overtaken by the other threads).
	AfterUnlock bool `json:"after_unlock,omitempty"`
}

func (c Case) String() string {
	td := typeByName(c.Type)
	var ts []string
	for _, th := range c.Threads {
		var ns []string
		for _, o := range th {
			ns = append(ns, td.Ops[o%len(td.Ops)].Name)
		}
		ts = append(ts, "["+strings.Join(ns, "; ")+"]")
	}
	au := ""
	if c.AfterUnlock {
		au = " [scheduling points also after unlocks]"
	}
	return fmt.Sprintf("%s(state %d) %s%s", c.Type, c.State, strings.Join(ts, " || "), au)
}

type callRef struct{ th, idx int }

func (c Case) calls() []callRef {
	var out []callRef
	for t, th := range c.Threads {
		for i := range th {
			out = append(out, callRef{t, i})
		}
	}
	return out
}

// safeRun runs one operation, turning a panic into a result.
func safeRun(op opDef, inst any) (res string, panicked bool) {
	defer func() {
		if p := recover(); p != nil {
			res, panicked = fmt.Sprintf("PANIC: %v", p), true
		}
	}()
	return op.Run(inst), false
}

type seqRun struct {
	pos    []int // position of every call (flat index) in this order
	vector string
}

// sequential executes every order of the program's calls that respects each thread's
// program order, one call at a time on a fresh instance.
// seqBlocked is set by sequential when a call would block although the calls run one at a time
// (a lock was leaked by an earlier call): the shim's locks panic with this prefix outside a controlled run.
const blockedPrefix = "PANIC: vsync: "

func sequential(td *typeDef, c Case) (runs []seqRun, anyPanic bool) {
	calls := c.calls()
	flat := map[callRef]int{}
	for i, cr := range calls {
		flat[cr] = i
	}
	next := make([]int, len(c.Threads))
	order := make([]callRef, 0, len(calls))
	var rec func()
	rec = func() {
		if len(order) == len(calls) {
			inst := td.Mk(c.State)
			res := make([]string, len(calls))
			dead := make([]bool, len(c.Threads))
			for _, cr := range order {
				if dead[cr.th] {
					res[flat[cr]] = "NOT-RUN"
					continue
				}
				r, p := safeRun(td.Ops[c.Threads[cr.th][cr.idx]%len(td.Ops)], inst)
				res[flat[cr]] = r
				if p {
					dead[cr.th] = true
					anyPanic = true
				}
			}
			obs, p := safeRun(opDef{Run: td.Observe}, inst)
			if p {
				anyPanic = true
			}
			pos := make([]int, len(calls))
			for i, cr := range order {
				pos[flat[cr]] = i
			}
			runs = append(runs, seqRun{pos: pos, vector: strings.Join(res, " | ") + " || " + obs})
			return
		}
		for t := range c.Threads {
			if next[t] < len(c.Threads[t]) {
				order = append(order, callRef{t, next[t]})
				next[t]++
				rec()
				next[t]--
				order = order[:len(order)-1]
			}
		}
	}
	rec()
	return runs, anyPanic
}

type concRun struct {
	vector   string
	start    []int
	end      []int
	res      vsync.Result
	results  []string
	observed string
}

// concurrent executes the program under the controlled scheduler with the given chooser.
func concurrent(td *typeDef, c Case, choose func(k int) int) concRun {
	calls := c.calls()
	flat := map[callRef]int{}
	for i, cr := range calls {
		flat[cr] = i
	}
	inst := td.Mk(c.State)
	vsync.AfterUnlock = c.AfterUnlock
	defer func() { vsync.AfterUnlock = false }()
	out := concRun{start: make([]int, len(calls)), end: make([]int, len(calls)), results: make([]string, len(calls))}
	for i := range out.results {
		out.results[i] = "NOT-RUN"
	}
	out.res = vsync.Run(len(c.Threads), func(tid int) {
		for i, o := range c.Threads[tid] {
			f := flat[callRef{tid, i}]
			vsync.CallStart()
			r, p := safeRun(td.Ops[o%len(td.Ops)], inst)
			out.start[f], out.end[f] = vsync.CallEnd()
			out.results[f] = r
			if p {
				return
			}
		}
	}, choose, 4000)
	if !out.res.Deadlock && !out.res.TooLong {
		out.observed, _ = safeRun(opDef{Run: td.Observe}, inst)
	}
	out.vector = strings.Join(out.results, " | ") + " || " + out.observed
	return out
}

// judge decides one concurrent execution against the sequential runs.
func judge(c Case, seq []seqRun, cr concRun) error {
	describe := func() string {
		calls := c.calls()
		td := typeByName(c.Type)
		var b strings.Builder
		for i, cl := range calls {
			fmt.Fprintf(&b, "\n    thread %d %-14s started@%d returned@%d -> %q", cl.th, td.Ops[c.Threads[cl.th][cl.idx]%len(td.Ops)].Name, cr.start[i], cr.end[i], cr.results[i])
		}
		fmt.Fprintf(&b, "\n    afterwards: %s\n    schedule: %v", cr.observed, cr.res.Choices)
		return b.String()
	}
	if cr.res.Deadlock {
		return fmt.Errorf("%v: DEADLOCK under schedule %v: %s", c, cr.res.Choices, strings.Join(cr.res.Blocked, "; "))
	}
	if cr.res.TooLong {
		return fmt.Errorf("%v: execution did not finish within 4000 scheduling steps (livelock?) under schedule %v", c, cr.res.Choices)
	}
	for tid, p := range cr.res.Panics {
		if p != nil {
			return fmt.Errorf("%v: harness panic in thread %d: %v", c, tid, p)
		}
	}
	if td := typeByName(c.Type); td != nil && td.SafetyOnly {
		// no call panics when the calls run one at a time (checked by the caller): a panic here is caused by the interleaving
		for i, r := range cr.results {
			if strings.HasPrefix(r, "PANIC: ") {
				return fmt.Errorf("%v: a call panics under schedule %v although no one-at-a-time order of these calls panics:%s\n    (call %d)", c, cr.res.Choices, describe(), i)
			}
		}
		if strings.HasPrefix(cr.observed, "PANIC: ") {
			return fmt.Errorf("%v: the instance is unusable after schedule %v: %s%s", c, cr.res.Choices, cr.observed, describe())
		}
		if strings.HasPrefix(cr.observed, "CONSERVATION VIOLATED") {
			return fmt.Errorf("%v: under schedule %v: %s%s", c, cr.res.Choices, cr.observed, describe())
		}
		return nil
	}
	n := len(cr.start)
	for _, sr := range seq {
		if sr.vector != cr.vector {
			continue
		}
		ok := true
		for a := 0; a < n && ok; a++ {
			for b := 0; b < n; b++ {
				if a != b && cr.end[a] != 0 && cr.start[b] != 0 && cr.end[a] < cr.start[b] && sr.pos[a] > sr.pos[b] {
					ok = false
					break
				}
			}
		}
		if ok {
			return nil
		}
	}
	seen := map[string]bool{}
	var vs []string
	for _, sr := range seq {
		if !seen[sr.vector] {
			seen[sr.vector] = true
			vs = append(vs, sr.vector)
		}
	}
	sort.Strings(vs)
	if len(vs) > 6 {
		vs = append(vs[:6], "...")
	}
	return fmt.Errorf("%v: NOT LINEARIZABLE: no one-at-a-time order of these calls (respecting which calls returned before others started) gives these results:%s\n    sequential outcomes (results | ... || afterwards): %s",
		c, describe(), strings.Join(vs, "\n      "))
}

// ---------------------------------------------------------------------------
// program enumeration

// multisets of size k over n ops (threads of 1 call are unordered)
func programs(nops int, shape string) [][][]int {
	var out [][][]int
	switch shape {
	case "2x1":
		for a := 0; a < nops; a++ {
			for b := a; b < nops; b++ {
				out = append(out, [][]int{{a}, {b}})
			}
		}
	case "3x1":
		for a := 0; a < nops; a++ {
			for b := a; b < nops; b++ {
				for d := b; d < nops; d++ {
					out = append(out, [][]int{{a}, {b}, {d}})
				}
			}
		}
	case "2x2":
		n2 := nops * nops
		for x := 0; x < n2; x++ {
			for y := x; y < n2; y++ {
				out = append(out, [][]int{{x / nops, x % nops}, {y / nops, y % nops}})
			}
		}
	case "1x2+1":
		// one thread with two calls against a single concurrent call
		for x := 0; x < nops*nops; x++ {
			for b := 0; b < nops; b++ {
				out = append(out, [][]int{{x / nops, x % nops}, {b}})
			}
		}
	}
	return out
}

type progStats struct {
	schedules, overlapping int64
	distinct               int
	capped                 bool
	sampled                int64
}

// splitmix64: the schedule sampler used once the depth-first enumeration of a program hit its cap.
// The schedule actually taken is recorded in the case, so a failure replays without it.
type mix struct{ x uint64 }

func (m *mix) next() uint64 {
	m.x += 0x9e3779b97f4a7c15
	z := m.x
	z = (z ^ (z >> 30)) * 0xbf58476d1ce4e5b9
	z = (z ^ (z >> 27)) * 0x94d049bb133111eb
	return z ^ (z >> 31)
}

// explore enumerates every schedule of one program depth-first (up to cap); when the cap is hit it
// adds `extra` schedules drawn uniformly at every choice (the depth-first prefix alone only covers
// one corner of the schedule tree).
func explore(t *testing.T, x *pbt.Ctx, td *typeDef, c Case, cap int64, extra int, seed uint64) (st progStats, fail bool) {
	seq, anyPanic := sequential(td, c)
	if anyPanic {
		for _, sr := range seq {
			if strings.Contains(sr.vector, blockedPrefix) {
				// a call blocks forever although the calls run one at a time: an earlier call leaked a lock
				x.Violation(c, fmt.Sprintf("%v: a call blocks forever even when the calls run ONE AT A TIME (an earlier call did not release a lock): results | ... || afterwards: %s", c, sr.vector), "enum")
				return st, true
			}
		}
		// A call that panics when run alone is a sequential defect (C03-C10), not a
		// linearizability question: the program is skipped, and counted.
		x.P.Labels["program skipped: a call panics sequentially"]++
		return st, false
	}
	vectors := map[string]bool{}
	one := func(choose func(k int) int) bool {
		cc := c
		x.Progress(cc)
		cr := concurrent(td, c, choose)
		st.schedules++
		if cr.res.Overlap {
			st.overlapping++
			if !vectors[cr.vector] {
				vectors[cr.vector] = true
				cc.Schedule = cr.res.Choices
				x.Sample(cc, "overlapping calls", cr.vector)
			}
		}
		if err := judge(c, seq, cr); err != nil {
			cc.Schedule = append([]int(nil), cr.res.Choices...)
			x.Violation(cc, err.Error(), "enum")
			return true
		}
		return false
	}
	od := pbt.NewOdometer()
	for od.Next() {
		if st.schedules >= cap {
			st.capped = true
			break
		}
		if one(od.Intn) {
			return st, true
		}
	}
	if st.capped {
		rng := &mix{x: seed}
		for i := 0; i < extra; i++ {
			st.sampled++
			if one(func(k int) int { return int(rng.next() % uint64(k)) }) {
				return st, true
			}
		}
	}
	st.distinct = len(vectors)
	return st, false
}

// plan says which programs of which types a mode explores.
type plan struct {
	safety bool
	types  []typeDef
	shapes []string
	// afterUnlock: shapes explored with the additional scheduling points after unlocks
	afterUnlock map[string]bool
	// sampled: shapes of which the quick tier only explores a seeded 1-in-4 sample of the programs
	sampled map[string]bool
}

func linPlan(thorough bool) plan {
	p := plan{types: types, shapes: []string{"2x1", "3x1", "1x2+1", "2x2"},
		afterUnlock: map[string]bool{"2x1": true, "3x1": true, "1x2+1": true},
		sampled:     map[string]bool{"2x2": true}}
	if thorough {
		p.afterUnlock["2x2"] = true
	}
	return p
}

func safetyPlan(thorough bool) plan {
	return plan{safety: true, types: safetyTypes, shapes: []string{"2x1", "3x1", "4x1merge"},
		afterUnlock: map[string]bool{"2x1": true, "3x1": thorough, "4x1merge": false},
		sampled:     map[string]bool{"3x1": true}}
}

func bodyFor(mk func(thorough bool) plan) func(t *testing.T, x *pbt.Ctx) {
	return func(t *testing.T, x *pbt.Ctx) {
		cfg := x.M.Cfg
		pl := mk(cfg.Thorough)
		x.P.EnumRan = true
		x.P.EnumComplete = true
		capPer, extra := int64(30000), 2000
		if cfg.Thorough {
			capPer, extra = 400000, 20000
			if pl.safety {
				// the multi-element operations have many more scheduling points: nearly every program hits the cap
				capPer, extra = 100000, 10000
			}
		}
		idx := 0
		failedTypes := map[string]bool{}
		for ti := range pl.types {
			td := &pl.types[ti]
			for _, shape := range pl.shapes {
				var progs [][][]int
				if shape == "4x1merge" {
					progs = mergePrograms(td)
				} else {
					progs = programs(len(td.Ops), shape)
				}
				for pi, th := range progs {
					for state := 0; state < td.states(); state++ {
						if td.BigState > 0 && state == td.BigState && shape != "2x1" {
							continue
						}
						idx++
						if idx%cfg.NShards != cfg.Shard {
							continue
						}
						if pl.sampled[shape] && !cfg.Thorough {
							// quick tier: a seeded 1-in-4 sample of these programs
							h := pbt.Hash([]byte(fmt.Sprintf("%d/%s/%d/%d", cfg.Seed, td.Name, pi, state)))
							if h%4 != 0 {
								x.P.Labels[shape+" program not sampled (quick tier)"]++
								x.P.EnumComplete = false
								continue
							}
						}
						if failedTypes[td.Name+shape] {
							continue
						}
						c := Case{Type: td.Name, State: state, Threads: th, AfterUnlock: pl.afterUnlock[shape]}
						seed := pbt.Hash([]byte(fmt.Sprintf("sched/%d/%s/%s/%d/%d", cfg.Seed, td.Name, shape, pi, state)))
						st, fail := explore(t, x, td, c, capPer, extra, seed)
						x.P.Evaluations += st.schedules
						x.P.EnumCases += st.schedules
						x.P.EnumNonTrivial += int64(st.distinct)
						x.P.Labels["programs "+shape]++
						x.P.Labels["programs "+td.Name]++
						x.P.Labels["schedules with overlapping calls"] += st.overlapping
						if st.capped {
							x.P.Labels["program capped at "+fmt.Sprint(capPer)+" depth-first schedules (+ sampled ones)"]++
							x.P.Labels["schedules sampled after the cap"] += st.sampled
							x.P.EnumComplete = false
						}
						if fail {
							x.P.EnumComplete = false
							failedTypes[td.Name+shape] = true
						}
					}
				}
			}
		}
	}
}

// mergePrograms: the four-thread programs in which two heaps are merged into each other while a writer is queued on each.
func mergePrograms(td *typeDef) [][][]int {
	if td.Name != "heap2" {
		return nil
	}
	ix := func(name string) int {
		for i, o := range td.Ops {
			if o.Name == name {
				return i
			}
		}
		panic("no op " + name)
	}
	var out [][][]int
	for _, pair := range [][2]string{{"Merge(o)", "o.Merge(h)"}, {"Meld(o)", "o.Meld(h)"}, {"Merge(o)", "o.Meld(h)"}} {
		out = append(out, [][]int{{ix(pair[0])}, {ix(pair[1])}, {ix("Push(1)")}, {ix("o.Push(1)")}})
	}
	return out
}

func replay(t *testing.T, raw json.RawMessage, x *pbt.Ctx) error {
	var c Case
	if err := json.Unmarshal(raw, &c); err != nil {
		return err
	}
	return runCase(c, nil)
}

// runCase executes one program under one schedule (a list of choices, taken modulo the number of enabled threads).
func runCase(c Case, r *pbt.R) error {
	td := typeByName(c.Type)
	if td == nil {
		return fmt.Errorf("unknown type %q", c.Type)
	}
	seq, anyPanic := sequential(td, c)
	if anyPanic {
		for _, sr := range seq {
			if strings.Contains(sr.vector, blockedPrefix) {
				return fmt.Errorf("%v: a call blocks forever even when the calls run ONE AT A TIME (an earlier call did not release a lock): results | ... || afterwards: %s", c, sr.vector)
			}
		}
		if r != nil {
			r.Label("skipped: a call panics sequentially")
		}
		return nil
	}
	src := &pbt.ListSrc{Choices: c.Schedule}
	cr := concurrent(td, c, src.Intn)
	if r != nil {
		r.NonTrivialIf(cr.res.Overlap, "overlapping calls")
		r.Label(fmt.Sprintf("%d threads", len(c.Threads)))
	}
	return judge(c, seq, cr)
}

func genCaseFrom(ts []typeDef) func(s pbt.Src, thorough bool) Case {
	return func(s pbt.Src, thorough bool) Case { return genCaseOf(ts, s, thorough) }
}

func genCaseOf(ts []typeDef, s pbt.Src, thorough bool) Case {
	td := &ts[s.Intn(len(ts))]
	c := Case{Type: td.Name, State: s.Intn(td.states()), AfterUnlock: pbt.Bool(s)}
	nth := 2 + s.Intn(2)
	for i := 0; i < nth; i++ {
		c.Threads = append(c.Threads, pbt.Seq(s, 1, 3, func(s pbt.Src) int { return s.Intn(len(td.Ops)) }))
	}
	c.Schedule = pbt.Seq(s, 0, 60, func(s pbt.Src) int { return s.Intn(6) })
	return c
}

func TestProp(t *testing.T) {
	if os.Getenv("VERIF_LIN_MODE") == "safety" {
		// property C01, controlled part: deadlocks, livelocks and interleaving-dependent panics of ALL public
		// methods (also the multi-element ones whose atomicity nothing promises)
		pbt.Run(t, "C01",
			&pbt.Custom{
				Name: "controlled",
				Rule: "controlled scheduler (same shim and explorer as C02) over ALL public methods of heap (two instances: variadic Push, GetValues, Convert, Merge/Meld in both directions and with itself), trie (also Keys, StartsWith, LongestPrefix with the shared result queue drained) and cache (also List, MapToCache, Flush, SetDefault; an initial state with an expired entry): " +
					"every program of 2 threads x 1 call (scheduling points also after unlocks), 3 threads x 1 call (quick: a seeded 1-in-4 sample) and the 4-thread cross-merge programs (h.Merge(o) || o.Merge(h) || h.Push || o.Push and the Meld variants) from 3-4 initial states; every schedule depth-first up to a cap, then uniformly sampled schedules. " +
					"Oracle: no deadlock, no livelock (> 4000 steps), no call that panics although it does not panic in any one-at-a-time order, instance usable afterwards, and for the heaps conservation: unless a Clear ran, the two heaps and the heaps returned by Meld together hold exactly what was put in minus what Pop/Delete took out. (bstree.Traverse and the cache cleanup start goroutines of their own and stay with the free-running part.) " +
					"evaluations = schedules executed; non-trivial = two calls in progress at the same time; distinct = distinct (program, outcome vector) pairs among those.",
				Body: bodyFor(safetyPlan), Replay: replay,
			},
			&pbt.Check[Case]{
				Name: "controlled-random",
				Rule: "random programs of 2-3 threads x 1-3 calls over the same operations with a random schedule, shrunk together by rapid; same oracle.",
				Gen:  genCaseFrom(safetyTypes), Prop: runCase, OutOfEnum: func(c Case, th bool) bool { return true },
				RapidQuick: 800, RapidThorough: 20000,
			},
		)
		return
	}
	pbt.Run(t, "C02",
		&pbt.Custom{
			Name: "schedules",
			Rule: "for each of heap, queue, lqueue, stack, lstack, bstree, trie, cache: every program of 2 threads x 1 call, 3 threads x 1 call, (2 calls || 1 call) and 2 threads x 2 calls (quick tier: a seeded 1-in-4 sample of the 2x2 programs) over 6-9 single-element operations (cache: also DeleteExpired), from 3 initial states (empty or drained / 1 / 2-3 elements; cache: a 4th with an expired, unpurged entry; heap, queue, stack: a 4th grown to 1100 elements and drained to 321, just above a quarter of its capacity); " +
				"for each program EVERY schedule at lock granularity (scheduling points: arrival at Lock, acquisition of a Lock that was busy on arrival, acquisition of RLock, every sync/atomic operation, and - except for the 2x2 programs of the quick tier - the instant after every Unlock/RUnlock; a call counts as started at its first scheduling point; writer preference modelled) is executed by the controlled scheduler (stateless depth-first enumeration), capped per program (then continued with uniformly sampled schedules). " +
				"Oracle: differential against one-at-a-time runs of the same build: the vector (result of every call, follow-up observation: size/count, drain or lookups) must equal that of some sequential order that respects which calls returned before others were started; a deadlock or >4000 steps is a violation. " +
				"evaluations = schedules executed; non-trivial = a schedule in which two calls were in progress at the same time; distinct = distinct (program, outcome vector) pairs among those.",
			Body: bodyFor(linPlan), Replay: replay,
		},
		&pbt.Check[Case]{
			Name: "random",
			Rule: "random programs of 2-3 threads x 1-3 calls with a random schedule (list of choices among the enabled threads; scheduling points after unlocks on for half of the cases), shrunk together by rapid; same oracle. Non-trivial = overlapping calls.",
			Gen:  genCaseFrom(types), Prop: runCase, OutOfEnum: func(c Case, th bool) bool { return true },
			RapidQuick: 1500, RapidThorough: 40000,
		},
	)
}
