//go:build c02shim

// Package lin is the C02 harness: linearizability of the single-element
// container operations, decided by enumerating every interleaving of small
// programs at lock-acquisition granularity with the vsync scheduler.
//
// It only builds against a scratch copy of gogu whose container packages import
// github.com/esimov/gogu/vsync instead of sync (see engines/c02.py).
package lin

import (
	"encoding/json"
	"fmt"
	"sort"
	"strings"
	"testing"

	"github.com/esimov/gogu/bstree"
	"github.com/esimov/gogu/cache"
	"github.com/esimov/gogu/heap"
	"github.com/esimov/gogu/queue"
	"github.com/esimov/gogu/stack"
	"github.com/esimov/gogu/trie"
	"github.com/esimov/gogu/vsync"
	"verif/pbt"
)

// ---------------------------------------------------------------------------
// the operations

type opDef struct {
	Name string
	Run  func(inst any) string
}

type typeDef struct {
	Name    string
	Mk      func(state int) any // builds the instance in initial state 0..2 (outside the scheduler)
	Ops     []opDef
	Observe func(inst any) string // follow-up observation after all threads finished
}

func s(v ...any) string { return fmt.Sprint(v...) }

func heapType() typeDef {
	type H = *heap.Heap[int]
	return typeDef{
		Name: "heap",
		Mk: func(st int) any {
			h := heap.NewHeap(func(a, b int) bool { return a < b })
			switch st {
			case 1:
				h.Push(1)
			case 2:
				h.Push(2, 1, 3)
			}
			return h
		},
		Ops: []opDef{
			{"Push(1)", func(i any) string { i.(H).Push(1); return "" }},
			{"Push(2)", func(i any) string { i.(H).Push(2); return "" }},
			{"Pop", func(i any) string { return s(i.(H).Pop()) }},
			{"Peek", func(i any) string { return s(i.(H).Peek()) }},
			{"Size", func(i any) string { return s(i.(H).Size()) }},
			{"Clear", func(i any) string { i.(H).Clear(); return "" }},
			{"Delete(1)", func(i any) string { ok, err := i.(H).Delete(1); return s(ok, err != nil) }},
			{"Delete(2)", func(i any) string { ok, err := i.(H).Delete(2); return s(ok, err != nil) }},
			{"IsEmpty", func(i any) string { return s(i.(H).IsEmpty()) }},
		},
		Observe: func(i any) string {
			h := i.(H)
			out := s("size=", h.Size(), " drain=")
			for k := 0; k < 12 && h.Size() > 0; k++ {
				out += s(h.Pop(), ",")
			}
			return out
		},
	}
}

type queueLike interface {
	Enqueue(int)
	Peek() int
	Search(int) bool
	Size() int
	Clear()
}

func queueOps(deq func(i any) string) []opDef {
	return []opDef{
		{"Enqueue(1)", func(i any) string { i.(queueLike).Enqueue(1); return "" }},
		{"Enqueue(2)", func(i any) string { i.(queueLike).Enqueue(2); return "" }},
		{"Dequeue", deq},
		{"Peek", func(i any) string { return s(i.(queueLike).Peek()) }},
		{"Size", func(i any) string { return s(i.(queueLike).Size()) }},
		{"Search(1)", func(i any) string { return s(i.(queueLike).Search(1)) }},
		{"Clear", func(i any) string { i.(queueLike).Clear(); return "" }},
	}
}

func queueType() typeDef {
	deq := func(i any) string { v, err := i.(*queue.Queue[int]).Dequeue(); return s(v, err != nil) }
	return typeDef{
		Name: "queue",
		Mk: func(st int) any {
			q := queue.New[int]()
			switch st {
			case 1:
				q.Enqueue(1)
			case 2:
				q.Enqueue(2)
				q.Enqueue(1)
			}
			return q
		},
		Ops: queueOps(deq),
		Observe: func(i any) string {
			q := i.(*queue.Queue[int])
			out := s("size=", q.Size(), " peek=", q.Peek(), " drain=")
			for k := 0; k < 12 && q.Size() > 0; k++ {
				out += deq(q) + ","
			}
			return out
		},
	}
}

func lqueueType() typeDef {
	deq := func(i any) string { return s(i.(*queue.LQueue[int]).Dequeue()) }
	return typeDef{
		Name: "lqueue",
		Mk: func(st int) any {
			switch st {
			case 1:
				return queue.NewLinked(1)
			case 2:
				q := queue.NewLinked(2)
				q.Enqueue(1)
				return q
			}
			q := queue.NewLinked(9)
			q.Dequeue()
			return q
		},
		Ops: queueOps(deq),
		Observe: func(i any) string {
			q := i.(*queue.LQueue[int])
			out := s("size=", q.Size(), " peek=", q.Peek(), " drain=")
			for k := 0; k < 12 && q.Size() > 0; k++ {
				out += deq(q) + ","
			}
			return out
		},
	}
}

type stackLike interface {
	Push(int)
	Pop() int
	Peek() int
	Search(int) bool
	Size() int
}

func stackOps() []opDef {
	return []opDef{
		{"Push(1)", func(i any) string { i.(stackLike).Push(1); return "" }},
		{"Push(2)", func(i any) string { i.(stackLike).Push(2); return "" }},
		{"Pop", func(i any) string { return s(i.(stackLike).Pop()) }},
		{"Peek", func(i any) string { return s(i.(stackLike).Peek()) }},
		{"Size", func(i any) string { return s(i.(stackLike).Size()) }},
		{"Search(1)", func(i any) string { return s(i.(stackLike).Search(1)) }},
	}
}

func stackObserve(i any) string {
	st := i.(stackLike)
	out := s("size=", st.Size(), " peek=", st.Peek(), " search1=", st.Search(1), " search2=", st.Search(2), " drain=")
	for k := 0; k < 12 && st.Size() > 0; k++ {
		out += s(st.Pop(), ",")
	}
	return out
}

func stackType() typeDef {
	return typeDef{
		Name: "stack",
		Mk: func(st int) any {
			x := stack.New[int]()
			switch st {
			case 1:
				x.Push(1)
			case 2:
				x.Push(2)
				x.Push(1)
			}
			return x
		},
		Ops: stackOps(), Observe: stackObserve,
	}
}

func lstackType() typeDef {
	return typeDef{
		Name: "lstack",
		Mk: func(st int) any {
			switch st {
			case 1:
				return stack.NewLinked(1)
			case 2:
				x := stack.NewLinked(2)
				x.Push(1)
				return x
			}
			x := stack.NewLinked(9)
			x.Pop()
			return x
		},
		Ops: stackOps(), Observe: stackObserve,
	}
}

func bstType() typeDef {
	type B = *bstree.BsTree[int, string]
	get := func(i any, k int) string { it, err := i.(B).Get(k); return s(it.Val, err != nil) }
	return typeDef{
		Name: "bstree",
		Mk: func(st int) any {
			b := bstree.New[int, string](func(a, b int) bool { return a < b })
			switch st {
			case 1:
				b.Upsert(1, "x")
			case 2:
				b.Upsert(1, "x")
				b.Upsert(2, "y")
				b.Upsert(0, "z")
			}
			return b
		},
		Ops: []opDef{
			{"Upsert(1,a)", func(i any) string { i.(B).Upsert(1, "a"); return "" }},
			{"Upsert(1,b)", func(i any) string { i.(B).Upsert(1, "b"); return "" }},
			{"Upsert(2,c)", func(i any) string { i.(B).Upsert(2, "c"); return "" }},
			{"Get(1)", func(i any) string { return get(i, 1) }},
			{"Get(2)", func(i any) string { return get(i, 2) }},
			{"Delete(1)", func(i any) string { return s(i.(B).Delete(1) != nil) }},
			{"Delete(2)", func(i any) string { return s(i.(B).Delete(2) != nil) }},
			{"Size", func(i any) string { return s(i.(B).Size()) }},
		},
		Observe: func(i any) string {
			out := s("size=", i.(B).Size())
			for k := 0; k <= 3; k++ {
				out += s(" ", k, ":", get(i, k))
			}
			return out
		},
	}
}

func trieType() typeDef {
	type T = *trie.Trie[string, int]
	get := func(i any, k string) string { v, ok := i.(T).Get(k); return s(v, ok) }
	return typeDef{
		Name: "trie",
		Mk: func(st int) any {
			t := trie.New[string, int](queue.New[string]())
			switch st {
			case 1:
				t.Put("a", 7)
			case 2:
				t.Put("ab", 8)
				t.Put("b", 9)
			}
			return t
		},
		Ops: []opDef{
			{"Put(a,1)", func(i any) string { i.(T).Put("a", 1); return "" }},
			{"Put(ab,2)", func(i any) string { i.(T).Put("ab", 2); return "" }},
			{"Put(a,3)", func(i any) string { i.(T).Put("a", 3); return "" }},
			{"Get(a)", func(i any) string { return get(i, "a") }},
			{"Get(ab)", func(i any) string { return get(i, "ab") }},
			{"Contains(ab)", func(i any) string { return s(i.(T).Contains("ab")) }},
			{"Contains(a)", func(i any) string { return s(i.(T).Contains("a")) }},
			{"Size", func(i any) string { return s(i.(T).Size()) }},
		},
		Observe: func(i any) string {
			t := i.(T)
			out := s("size=", t.Size())
			for _, k := range []string{"a", "ab", "b"} {
				out += s(" ", k, ":", get(i, k))
			}
			q, _ := t.Keys()
			out += " keys="
			for k := 0; k < 12 && q.Size() > 0; k++ {
				v, _ := q.Dequeue()
				out += v + ","
			}
			return out
		},
	}
}

func cacheType() typeDef {
	type C = *cache.Cache[string, int]
	get := func(i any, k string) string { it, err := i.(C).Get(k); return s(it.Val(), err != nil) }
	return typeDef{
		Name: "cache",
		Mk: func(st int) any {
			c := cache.New[string, int](cache.NoExpiration, 0)
			switch st {
			case 1:
				c.Set("k", 9, cache.NoExpiration)
			case 2:
				c.Set("k", 9, cache.NoExpiration)
				c.Set("j", 8, cache.NoExpiration)
			}
			return c
		},
		Ops: []opDef{
			{"Set(k,1)", func(i any) string { return s(i.(C).Set("k", 1, cache.NoExpiration) != nil) }},
			{"Set(k,2)", func(i any) string { return s(i.(C).Set("k", 2, cache.NoExpiration) != nil) }},
			{"SetDefault(j,4)", func(i any) string { return s(i.(C).SetDefault("j", 4) != nil) }},
			{"Update(k,3)", func(i any) string { return s(i.(C).Update("k", 3, cache.NoExpiration) != nil) }},
			{"Get(k)", func(i any) string { return get(i, "k") }},
			{"Delete(k)", func(i any) string { return s(i.(C).Delete("k") != nil) }},
			{"Count", func(i any) string { return s(i.(C).Count()) }},
			{"IsExpired(k)", func(i any) string { return s(i.(C).IsExpired("k")) }},
		},
		Observe: func(i any) string {
			return s("count=", i.(C).Count(), " k:", get(i, "k"), " j:", get(i, "j"))
		},
	}
}

var types = []typeDef{heapType(), queueType(), lqueueType(), stackType(), lstackType(), bstType(), trieType(), cacheType()}

func typeByName(n string) *typeDef {
	for i := range types {
		if types[i].Name == n {
			return &types[i]
		}
	}
	return nil
}

// ---------------------------------------------------------------------------
// programs and executions

// Case is one program plus (for a replay / random case) one schedule.
type Case struct {
	Type     string  `json:"type"`
	State    int     `json:"state"`
	Threads  [][]int `json:"threads"`            // op indices per thread
	Schedule []int   `json:"schedule,omitempty"` // choices among the enabled threads
}

func (c Case) String() string {
	td := typeByName(c.Type)
	var ts []string
	for _, th := range c.Threads {
		var ns []string
		for _, o := range th {
			ns = append(ns, td.Ops[o%len(td.Ops)].Name)
		}
		ts = append(ts, "["+strings.Join(ns, "; ")+"]")
	}
	return fmt.Sprintf("%s(state %d) %s", c.Type, c.State, strings.Join(ts, " || "))
}

type callRef struct{ th, idx int }

func (c Case) calls() []callRef {
	var out []callRef
	for t, th := range c.Threads {
		for i := range th {
			out = append(out, callRef{t, i})
		}
	}
	return out
}

// safeRun runs one operation, turning a panic into a result.
func safeRun(op opDef, inst any) (res string, panicked bool) {
	defer func() {
		if p := recover(); p != nil {
			res, panicked = fmt.Sprintf("PANIC: %v", p), true
		}
	}()
	return op.Run(inst), false
}

type seqRun struct {
	pos    []int // position of every call (flat index) in this order
	vector string
}

// sequential executes every order of the program's calls that respects each thread's
// program order, one call at a time on a fresh instance.
func sequential(td *typeDef, c Case) (runs []seqRun, anyPanic bool) {
	calls := c.calls()
	flat := map[callRef]int{}
	for i, cr := range calls {
		flat[cr] = i
	}
	next := make([]int, len(c.Threads))
	order := make([]callRef, 0, len(calls))
	var rec func()
	rec = func() {
		if len(order) == len(calls) {
			inst := td.Mk(c.State)
			res := make([]string, len(calls))
			dead := make([]bool, len(c.Threads))
			for _, cr := range order {
				if dead[cr.th] {
					res[flat[cr]] = "NOT-RUN"
					continue
				}
				r, p := safeRun(td.Ops[c.Threads[cr.th][cr.idx]%len(td.Ops)], inst)
				res[flat[cr]] = r
				if p {
					dead[cr.th] = true
					anyPanic = true
				}
			}
			obs, p := safeRun(opDef{Run: td.Observe}, inst)
			if p {
				anyPanic = true
			}
			pos := make([]int, len(calls))
			for i, cr := range order {
				pos[flat[cr]] = i
			}
			runs = append(runs, seqRun{pos: pos, vector: strings.Join(res, " | ") + " || " + obs})
			return
		}
		for t := range c.Threads {
			if next[t] < len(c.Threads[t]) {
				order = append(order, callRef{t, next[t]})
				next[t]++
				rec()
				next[t]--
				order = order[:len(order)-1]
			}
		}
	}
	rec()
	return runs, anyPanic
}

type concRun struct {
	vector   string
	start    []int
	end      []int
	res      vsync.Result
	results  []string
	observed string
}

// concurrent executes the program under the controlled scheduler with the given chooser.
func concurrent(td *typeDef, c Case, choose func(k int) int) concRun {
	calls := c.calls()
	flat := map[callRef]int{}
	for i, cr := range calls {
		flat[cr] = i
	}
	inst := td.Mk(c.State)
	out := concRun{start: make([]int, len(calls)), end: make([]int, len(calls)), results: make([]string, len(calls))}
	for i := range out.results {
		out.results[i] = "NOT-RUN"
	}
	out.res = vsync.Run(len(c.Threads), func(tid int) {
		for i, o := range c.Threads[tid] {
			f := flat[callRef{tid, i}]
			vsync.CallStart()
			r, p := safeRun(td.Ops[o%len(td.Ops)], inst)
			out.start[f], out.end[f] = vsync.CallEnd()
			out.results[f] = r
			if p {
				return
			}
		}
	}, choose, 4000)
	if !out.res.Deadlock && !out.res.TooLong {
		out.observed, _ = safeRun(opDef{Run: td.Observe}, inst)
	}
	out.vector = strings.Join(out.results, " | ") + " || " + out.observed
	return out
}

// judge decides one concurrent execution against the sequential runs.
func judge(c Case, seq []seqRun, cr concRun) error {
	describe := func() string {
		calls := c.calls()
		td := typeByName(c.Type)
		var b strings.Builder
		for i, cl := range calls {
			fmt.Fprintf(&b, "\n    thread %d %-14s started@%d returned@%d -> %q", cl.th, td.Ops[c.Threads[cl.th][cl.idx]%len(td.Ops)].Name, cr.start[i], cr.end[i], cr.results[i])
		}
		fmt.Fprintf(&b, "\n    afterwards: %s\n    schedule: %v", cr.observed, cr.res.Choices)
		return b.String()
	}
	if cr.res.Deadlock {
		return fmt.Errorf("%v: DEADLOCK under schedule %v: %s", c, cr.res.Choices, strings.Join(cr.res.Blocked, "; "))
	}
	if cr.res.TooLong {
		return fmt.Errorf("%v: execution did not finish within 4000 scheduling steps (livelock?) under schedule %v", c, cr.res.Choices)
	}
	for tid, p := range cr.res.Panics {
		if p != nil {
			return fmt.Errorf("%v: harness panic in thread %d: %v", c, tid, p)
		}
	}
	n := len(cr.start)
	for _, sr := range seq {
		if sr.vector != cr.vector {
			continue
		}
		ok := true
		for a := 0; a < n && ok; a++ {
			for b := 0; b < n; b++ {
				if a != b && cr.end[a] != 0 && cr.start[b] != 0 && cr.end[a] < cr.start[b] && sr.pos[a] > sr.pos[b] {
					ok = false
					break
				}
			}
		}
		if ok {
			return nil
		}
	}
	seen := map[string]bool{}
	var vs []string
	for _, sr := range seq {
		if !seen[sr.vector] {
			seen[sr.vector] = true
			vs = append(vs, sr.vector)
		}
	}
	sort.Strings(vs)
	if len(vs) > 6 {
		vs = append(vs[:6], "...")
	}
	return fmt.Errorf("%v: NOT LINEARIZABLE: no one-at-a-time order of these calls (respecting which calls returned before others started) gives these results:%s\n    sequential outcomes (results | ... || afterwards): %s",
		c, describe(), strings.Join(vs, "\n      "))
}

// ---------------------------------------------------------------------------
// program enumeration

// multisets of size k over n ops (threads of 1 call are unordered)
func programs(nops int, shape string) [][][]int {
	var out [][][]int
	switch shape {
	case "2x1":
		for a := 0; a < nops; a++ {
			for b := a; b < nops; b++ {
				out = append(out, [][]int{{a}, {b}})
			}
		}
	case "3x1":
		for a := 0; a < nops; a++ {
			for b := a; b < nops; b++ {
				for d := b; d < nops; d++ {
					out = append(out, [][]int{{a}, {b}, {d}})
				}
			}
		}
	case "2x2":
		n2 := nops * nops
		for x := 0; x < n2; x++ {
			for y := x; y < n2; y++ {
				out = append(out, [][]int{{x / nops, x % nops}, {y / nops, y % nops}})
			}
		}
	case "1x2+1":
		// one thread with two calls against a single concurrent call
		for x := 0; x < nops*nops; x++ {
			for b := 0; b < nops; b++ {
				out = append(out, [][]int{{x / nops, x % nops}, {b}})
			}
		}
	}
	return out
}

type progStats struct {
	schedules, overlapping int64
	distinct               int
	capped                 bool
}

// explore enumerates every schedule of one program (up to cap).
func explore(t *testing.T, x *pbt.Ctx, td *typeDef, c Case, cap int64) (st progStats, fail bool) {
	seq, anyPanic := sequential(td, c)
	if anyPanic {
		// A call that panics when run alone is a sequential defect (C03-C10), not a
		// linearizability question: the program is skipped, and counted.
		x.P.Labels["program skipped: a call panics sequentially"]++
		return st, false
	}
	vectors := map[string]bool{}
	od := pbt.NewOdometer()
	for od.Next() {
		if st.schedules >= cap {
			st.capped = true
			break
		}
		cc := c
		x.Progress(cc)
		cr := concurrent(td, c, od.Intn)
		st.schedules++
		if cr.res.Overlap {
			st.overlapping++
			if !vectors[cr.vector] {
				vectors[cr.vector] = true
				cc.Schedule = cr.res.Choices
				x.Sample(cc, "overlapping calls", cr.vector)
			}
		}
		if err := judge(c, seq, cr); err != nil {
			cc.Schedule = append([]int(nil), cr.res.Choices...)
			x.Violation(cc, err.Error(), "enum")
			return st, true
		}
	}
	st.distinct = len(vectors)
	return st, false
}

func body(t *testing.T, x *pbt.Ctx) {
	cfg := x.M.Cfg
	x.P.EnumRan = true
	x.P.EnumComplete = true
	capPer := int64(30000)
	if cfg.Thorough {
		capPer = 400000
	}
	idx := 0
	failedTypes := map[string]bool{}
	for ti := range types {
		td := &types[ti]
		shapes := []string{"2x1", "3x1", "1x2+1", "2x2"}
		for _, shape := range shapes {
			progs := programs(len(td.Ops), shape)
			for pi, th := range progs {
				for state := 0; state < 3; state++ {
					idx++
					if idx%cfg.NShards != cfg.Shard {
						continue
					}
					if shape == "2x2" && !cfg.Thorough {
						// quick tier: a seeded 1-in-4 sample of the 2x2 programs
						h := pbt.Hash([]byte(fmt.Sprintf("%d/%s/%d/%d", cfg.Seed, td.Name, pi, state)))
						if h%4 != 0 {
							x.P.Labels["2x2 program not sampled (quick tier)"]++
							x.P.EnumComplete = false
							continue
						}
					}
					if failedTypes[td.Name+shape] {
						continue
					}
					c := Case{Type: td.Name, State: state, Threads: th}
					st, fail := explore(t, x, td, c, capPer)
					x.P.Evaluations += st.schedules
					x.P.EnumCases += st.schedules
					x.P.EnumNonTrivial += int64(st.distinct)
					x.P.Labels["programs "+shape]++
					x.P.Labels["programs "+td.Name]++
					x.P.Labels["schedules with overlapping calls"] += st.overlapping
					if st.capped {
						x.P.Labels["program capped at "+fmt.Sprint(capPer)+" schedules"]++
						x.P.EnumComplete = false
					}
					if fail {
						x.P.EnumComplete = false
						failedTypes[td.Name+shape] = true
					}
				}
			}
		}
	}
}

func replay(t *testing.T, raw json.RawMessage, x *pbt.Ctx) error {
	var c Case
	if err := json.Unmarshal(raw, &c); err != nil {
		return err
	}
	return runCase(c, nil)
}

// runCase executes one program under one schedule (a list of choices, taken modulo the number of enabled threads).
func runCase(c Case, r *pbt.R) error {
	td := typeByName(c.Type)
	if td == nil {
		return fmt.Errorf("unknown type %q", c.Type)
	}
	seq, anyPanic := sequential(td, c)
	if anyPanic {
		if r != nil {
			r.Label("skipped: a call panics sequentially")
		}
		return nil
	}
	src := &pbt.ListSrc{Choices: c.Schedule}
	cr := concurrent(td, c, src.Intn)
	if r != nil {
		r.NonTrivialIf(cr.res.Overlap, "overlapping calls")
		r.Label(fmt.Sprintf("%d threads", len(c.Threads)))
	}
	return judge(c, seq, cr)
}

func genCase(s pbt.Src, thorough bool) Case {
	td := &types[s.Intn(len(types))]
	c := Case{Type: td.Name, State: s.Intn(3)}
	nth := 2 + s.Intn(2)
	for i := 0; i < nth; i++ {
		c.Threads = append(c.Threads, pbt.Seq(s, 1, 3, func(s pbt.Src) int { return s.Intn(len(td.Ops)) }))
	}
	c.Schedule = pbt.Seq(s, 0, 60, func(s pbt.Src) int { return s.Intn(6) })
	return c
}

func TestProp(t *testing.T) {
	pbt.Run(t, "C02",
		&pbt.Custom{
			Name: "schedules",
			Rule: "for each of heap, queue, lqueue, stack, lstack, bstree, trie, cache: every program of 2 threads x 1 call, 3 threads x 1 call, (2 calls || 1 call) and 2 threads x 2 calls (quick tier: a seeded 1-in-4 sample of the 2x2 programs) over 6-9 single-element operations, from 3 initial states (empty / 1 / 2-3 elements); " +
				"for each program EVERY schedule at lock granularity (scheduling points: arrival at Lock, acquisition of a Lock that was busy on arrival, acquisition of RLock; a call counts as started at its first scheduling point; writer preference modelled) is executed by the controlled scheduler (stateless depth-first enumeration), capped per program. " +
				"Oracle: differential against one-at-a-time runs of the same build: the vector (result of every call, follow-up observation: size/count, drain or lookups) must equal that of some sequential order that respects which calls returned before others were started; a deadlock or >4000 steps is a violation. " +
				"evaluations = schedules executed; non-trivial = a schedule in which two calls were in progress at the same time; distinct = distinct (program, outcome vector) pairs among those.",
			Body: body, Replay: replay,
		},
		&pbt.Check[Case]{
			Name: "random",
			Rule: "random programs of 2-3 threads x 1-3 calls with a random schedule (list of choices among the enabled threads), shrunk together by rapid; same oracle. Non-trivial = overlapping calls.",
			Gen:  genCase, Prop: runCase, OutOfEnum: func(c Case, th bool) bool { return true },
			RapidQuick: 1500, RapidThorough: 40000,
		},
	)
}
