// Package stress is the C01 harness: free-running concurrent executions of the
// public methods of the lock-guarded containers under the Go race detector.
//
// The binary is built with -race and started with GORACE=log_path=<file>, so the
// detector's reports go to a file. After every scenario the harness looks at what
// was appended to that file: a report whose access site lies in gogu code (or in
// the runtime on behalf of gogu code) is a violation attributed to the scenario
// that was running. Panics in any goroutine, and scenarios that never finish
// (watchdog), are violations too.
package stress

import (
	"fmt"
	"os"
	"path/filepath"
	"regexp"
	"runtime"
	"strings"
	"sync"
	"testing"
	"time"

	"github.com/esimov/gogu/bstree"
	"github.com/esimov/gogu/cache"
	"github.com/esimov/gogu/heap"
	"github.com/esimov/gogu/queue"
	"github.com/esimov/gogu/stack"
	"github.com/esimov/gogu/trie"
	"verif/pbt"
)

// ---------------------------------------------------------------------------
// method tables

// gctx is the private state of one scenario goroutine (nothing is shared between goroutines).
type gctx struct {
	id   int
	n    int // call counter, used to vary arguments
	sink int
}

func (g *gctx) val() int { g.n++; return 1 + (g.id*7+g.n)%5 }

type method struct {
	Name string
	Fn   func(inst any, g *gctx)
}

type typeDef struct {
	Name    string
	Mk      func(state int) any
	Methods []method
	Sanity  func(inst any) error
	Close   func(inst any)
}

var less = func(a, b int) bool { return a < b }
var greater = func(a, b int) bool { return a > b }

// readers of handed-out data are named functions so that a race report shows them
func readHeapValues(vs []int, g *gctx) {
	for _, v := range vs {
		g.sink += v
	}
}

func readCacheList(m map[string]*cache.Item[int], g *gctx) {
	for k, it := range m {
		g.sink += len(k) + it.Val()
	}
}

func heapType() typeDef {
	type H = *heap.Heap[int]
	mkOther := func() H { o := heap.NewHeap(less); o.Push(7, 8); return o }
	return typeDef{
		Name: "heap",
		Mk: func(st int) any {
			h := heap.NewHeap(less)
			switch st {
			case 1:
				h.Push(3)
			case 2:
				h.Push(5, 1, 4, 2, 3)
			}
			return h
		},
		Methods: []method{
			{"Size", func(i any, g *gctx) { g.sink += i.(H).Size() }},
			{"IsEmpty", func(i any, g *gctx) { _ = i.(H).IsEmpty() }},
			{"Clear", func(i any, g *gctx) { i.(H).Clear() }},
			{"Peek", func(i any, g *gctx) { g.sink += i.(H).Peek() }},
			{"GetValues+read", func(i any, g *gctx) { readHeapValues(i.(H).GetValues(), g) }},
			{"Push(1)", func(i any, g *gctx) { i.(H).Push(g.val()) }},
			{"Push(3)", func(i any, g *gctx) { i.(H).Push(g.val(), g.val(), g.val()) }},
			{"Pop", func(i any, g *gctx) { g.sink += i.(H).Pop() }},
			{"Delete(present?)", func(i any, g *gctx) { i.(H).Delete(3) }},
			{"Delete(absent)", func(i any, g *gctx) { i.(H).Delete(99) }},
			{"Convert", func(i any, g *gctx) { i.(H).Convert(greater); i.(H).Convert(less) }},
			{"Merge(other)", func(i any, g *gctx) { g.sink += i.(H).Merge(mkOther()).Size() }},
			{"other.Merge(it)", func(i any, g *gctx) { g.sink += mkOther().Merge(i.(H)).Size() }},
			{"Meld(other)", func(i any, g *gctx) { g.sink += i.(H).Meld(mkOther()).Size() }},
			{"other.Meld(it)", func(i any, g *gctx) { g.sink += mkOther().Meld(i.(H)).Size() }},
		},
		Sanity: func(i any) error {
			h := i.(H)
			n := h.Size()
			h.Push(42)
			if h.Size() != n+1 {
				return fmt.Errorf("Size after Push = %d, want %d", h.Size(), n+1)
			}
			if ok, _ := h.Delete(42); !ok {
				return fmt.Errorf("Delete(42) after Push(42) failed")
			}
			if h.Size() != n {
				return fmt.Errorf("Size after Delete = %d, want %d", h.Size(), n)
			}
			return nil
		},
	}
}

func bstType() typeDef {
	type B = *bstree.BsTree[int, int]
	return typeDef{
		Name: "bstree",
		Mk: func(st int) any {
			b := bstree.New[int, int](less)
			switch st {
			case 1:
				b.Upsert(3, 30)
			case 2:
				for _, k := range []int{3, 1, 5, 2, 4} {
					b.Upsert(k, k*10)
				}
				// and a thousand more, scattered: a Traverse that hands its items over in blocks has several blocks to hand over
				for i := 0; i < 1201; i++ {
					k := 10 + (i*7919)%1201
					b.Upsert(k, k*10)
				}
			}
			return b
		},
		Methods: []method{
			{"Size", func(i any, g *gctx) { g.sink += i.(B).Size() }},
			{"Get", func(i any, g *gctx) { it, _ := i.(B).Get(g.val()); g.sink += it.Val }},
			{"Upsert", func(i any, g *gctx) { i.(B).Upsert(g.val(), g.n) }},
			{"Delete", func(i any, g *gctx) { i.(B).Delete(g.val()) }},
			{"Traverse", func(i any, g *gctx) {
				n := 0
				i.(B).Traverse(func(it bstree.Item[int, int]) { n += it.Key + it.Val })
				g.sink += n
			}},
		},
		Sanity: func(i any) error {
			b := i.(B)
			b.Upsert(42, 1)
			if it, err := b.Get(42); err != nil || it.Val != 1 {
				return fmt.Errorf("Get(42) after Upsert = (%v,%v)", it, err)
			}
			if err := b.Delete(42); err != nil {
				return fmt.Errorf("Delete(42) after Upsert: %v", err)
			}
			if _, err := b.Get(42); err == nil {
				return fmt.Errorf("Get(42) after Delete still finds it")
			}
			return nil
		},
	}
}

func trieType() typeDef {
	type T = *trie.Trie[string, int]
	ks := []string{"a", "ab", "abc", "b", "ba", "c"}
	drain := func(q trie.Queuer[string], g *gctx) {
		for k := 0; k < 64; k++ {
			v, err := q.Dequeue()
			if err != nil {
				return
			}
			g.sink += len(v)
		}
	}
	return typeDef{
		Name: "trie",
		Mk: func(st int) any {
			t := trie.New[string, int](queue.New[string]())
			switch st {
			case 1:
				t.Put("ab", 1)
			case 2:
				for i, k := range ks {
					t.Put(k, i)
				}
			}
			return t
		},
		Methods: []method{
			{"Size", func(i any, g *gctx) { g.sink += i.(T).Size() }},
			{"Contains", func(i any, g *gctx) { _ = i.(T).Contains(ks[g.val()%len(ks)]) }},
			{"Put", func(i any, g *gctx) { i.(T).Put(ks[g.val()%len(ks)], g.n) }},
			{"Get", func(i any, g *gctx) { v, _ := i.(T).Get(ks[g.val()%len(ks)]); g.sink += v }},
			{"LongestPrefix", func(i any, g *gctx) { p, _ := i.(T).LongestPrefix("abcd"); g.sink += len(p) }},
			{"StartsWith+drain", func(i any, g *gctx) { q, _ := i.(T).StartsWith("a"); drain(q, g) }},
			{"Keys+drain", func(i any, g *gctx) { q, _ := i.(T).Keys(); drain(q, g) }},
			// rejected inputs (their early-return paths take and release the lock too)
			{"LongestPrefix(empty)", func(i any, g *gctx) { p, _ := i.(T).LongestPrefix(""); g.sink += len(p) }},
			{"StartsWith(empty)", func(i any, g *gctx) {
				if q, err := i.(T).StartsWith(""); err == nil {
					drain(q, g)
				}
			}},
			{"Get(empty)", func(i any, g *gctx) { v, _ := i.(T).Get(""); g.sink += v }},
			{"Contains(absent)", func(i any, g *gctx) { _ = i.(T).Contains("zzz") }},
		},
		Sanity: func(i any) error {
			t := i.(T)
			t.Put("zz", 5)
			if v, ok := t.Get("zz"); !ok || v != 5 {
				return fmt.Errorf("Get(zz) after Put = (%v,%v)", v, ok)
			}
			return nil
		},
	}
}

type queueLike interface {
	Enqueue(int)
	Peek() int
	Search(int) bool
	Size() int
	Clear()
}

func queueMethods(deq func(i any, g *gctx)) []method {
	return []method{
		{"Enqueue", func(i any, g *gctx) { i.(queueLike).Enqueue(g.val()) }},
		{"Dequeue", deq},
		{"Peek", func(i any, g *gctx) { g.sink += i.(queueLike).Peek() }},
		{"Search", func(i any, g *gctx) { _ = i.(queueLike).Search(g.val()) }},
		{"Size", func(i any, g *gctx) { g.sink += i.(queueLike).Size() }},
		{"Clear", func(i any, g *gctx) { i.(queueLike).Clear() }},
	}
}

func queueSanity(deq func(i any) int) func(i any) error {
	return func(i any) error {
		q := i.(queueLike)
		q.Clear()
		q.Enqueue(42)
		if q.Size() != 1 || q.Peek() != 42 {
			return fmt.Errorf("after Clear, Enqueue(42): Size %d Peek %d", q.Size(), q.Peek())
		}
		if v := deq(i); v != 42 {
			return fmt.Errorf("Dequeue = %d, want 42", v)
		}
		return nil
	}
}

func queueType() typeDef {
	return typeDef{
		Name: "queue",
		Mk: func(st int) any {
			q := queue.New[int]()
			switch st {
			case 1:
				q.Enqueue(3)
			case 2:
				for _, v := range []int{1, 2, 3, 4} {
					q.Enqueue(v)
				}
			}
			return q
		},
		Methods: queueMethods(func(i any, g *gctx) { v, _ := i.(*queue.Queue[int]).Dequeue(); g.sink += v }),
		Sanity:  queueSanity(func(i any) int { v, _ := i.(*queue.Queue[int]).Dequeue(); return v }),
	}
}

func lqueueType() typeDef {
	return typeDef{
		Name: "lqueue",
		Mk: func(st int) any {
			q := queue.NewLinked(3)
			switch st {
			case 0:
				q.Dequeue()
			case 2:
				for _, v := range []int{1, 2, 4} {
					q.Enqueue(v)
				}
			}
			return q
		},
		Methods: queueMethods(func(i any, g *gctx) { g.sink += i.(*queue.LQueue[int]).Dequeue() }),
		Sanity:  queueSanity(func(i any) int { return i.(*queue.LQueue[int]).Dequeue() }),
	}
}

type stackLike interface {
	Push(int)
	Pop() int
	Peek() int
	Search(int) bool
	Size() int
}

func stackMethods() []method {
	return []method{
		{"Push", func(i any, g *gctx) { i.(stackLike).Push(g.val()) }},
		{"Pop", func(i any, g *gctx) { g.sink += i.(stackLike).Pop() }},
		{"Peek", func(i any, g *gctx) { g.sink += i.(stackLike).Peek() }},
		{"Search", func(i any, g *gctx) { _ = i.(stackLike).Search(g.val()) }},
		{"Size", func(i any, g *gctx) { g.sink += i.(stackLike).Size() }},
	}
}

func stackSanity(i any) error {
	s := i.(stackLike)
	n := s.Size()
	s.Push(42)
	if s.Size() != n+1 || s.Peek() != 42 {
		return fmt.Errorf("after Push(42): Size %d (was %d) Peek %d", s.Size(), n, s.Peek())
	}
	s.Pop()
	if s.Size() != n {
		return fmt.Errorf("after Pop: Size %d, want %d", s.Size(), n)
	}
	return nil
}

func stackType() typeDef {
	return typeDef{
		Name: "stack",
		Mk: func(st int) any {
			s := stack.New[int]()
			switch st {
			case 1:
				s.Push(3)
			case 2:
				for _, v := range []int{1, 2, 3, 4} {
					s.Push(v)
				}
			}
			return s
		},
		Methods: stackMethods(), Sanity: stackSanity,
	}
}

func lstackType() typeDef {
	return typeDef{
		Name: "lstack",
		Mk: func(st int) any {
			s := stack.NewLinked(3)
			switch st {
			case 0:
				s.Pop()
			case 2:
				for _, v := range []int{1, 2, 4} {
					s.Push(v)
				}
			}
			return s
		},
		Methods: stackMethods(), Sanity: stackSanity,
	}
}

func cacheType(name string, cleanup time.Duration) typeDef {
	type C = *cache.Cache[string, int]
	ks := []string{"a", "b", "c"}
	return typeDef{
		Name: name,
		Mk: func(st int) any {
			c := cache.New[string, int](time.Millisecond, cleanup)
			switch st {
			case 1:
				c.Set("a", 1, cache.NoExpiration)
			case 2:
				c.Set("a", 1, cache.NoExpiration)
				c.Set("b", 2, time.Nanosecond) // expires at once
				c.Set("c", 3, time.Hour)
			}
			return c
		},
		Methods: []method{
			{"Set", func(i any, g *gctx) { i.(C).Set(ks[g.val()%3], g.n, time.Nanosecond) }},
			{"SetDefault", func(i any, g *gctx) { i.(C).SetDefault(ks[g.val()%3], g.n) }},
			{"Update", func(i any, g *gctx) { i.(C).Update(ks[g.val()%3], g.n, cache.NoExpiration) }},
			{"Get+Val", func(i any, g *gctx) { it, _ := i.(C).Get(ks[g.val()%3]); g.sink += it.Val() }},
			{"Delete", func(i any, g *gctx) { i.(C).Delete(ks[g.val()%3]) }},
			{"DeleteExpired", func(i any, g *gctx) { i.(C).DeleteExpired() }},
			{"Flush", func(i any, g *gctx) { i.(C).Flush() }},
			{"List+iterate", func(i any, g *gctx) { readCacheList(i.(C).List(), g) }},
			{"Count", func(i any, g *gctx) { g.sink += i.(C).Count() }},
			{"MapToCache", func(i any, g *gctx) { i.(C).MapToCache(map[string]int{"a": 5, "d": 6}, time.Nanosecond) }},
			{"IsExpired", func(i any, g *gctx) { _ = i.(C).IsExpired(ks[g.val()%3]) }},
		},
		Sanity: func(i any) error {
			c := i.(C)
			c.Update("zz", 7, cache.NoExpiration)
			if it, err := c.Get("zz"); err != nil || it.Val() != 7 {
				return fmt.Errorf("Get(zz) after Update = (%v,%v)", it.Val(), err)
			}
			if err := c.Delete("zz"); err != nil {
				return fmt.Errorf("Delete(zz): %v", err)
			}
			return nil
		},
		Close: func(i any) { i.(C).VerifStopCleanup() },
	}
}

var types = []typeDef{heapType(), bstType(), trieType(), queueType(), lqueueType(), stackType(), lstackType(),
	cacheType("cache", 0), cacheType("cache+cleanup", 200*time.Microsecond)}

func typeByName(n string) *typeDef {
	for i := range types {
		if types[i].Name == n {
			return &types[i]
		}
	}
	return nil
}

// ---------------------------------------------------------------------------
// scenarios

// Case: goroutine g performs the methods G[g] (indices into the type's table), in order.
type Case struct {
	Type  string  `json:"type"`
	State int     `json:"state"`
	G     [][]int `json:"goroutines"`
	Reps  int     `json:"reps,omitempty"`
}

func (c Case) String() string {
	td := typeByName(c.Type)
	var gs []string
	for _, g := range c.G {
		var ns []string
		for _, m := range g {
			ns = append(ns, td.Methods[m%len(td.Methods)].Name)
		}
		if len(ns) > 6 {
			ns = append(ns[:6], fmt.Sprintf("... %d calls", len(g)))
		}
		gs = append(gs, strings.Join(ns, ";"))
	}
	return fmt.Sprintf("%s(state %d) %s", c.Type, c.State, strings.Join(gs, " || "))
}

var raceLog string // path of the race detector's log file of this process
var raceOff int64  // bytes already consumed

var goroot = runtime.GOROOT()

type raceReport struct {
	text   string
	owners []string // for every access stack: "gogu", "harness" or "other"
	key    string
}

var reFrameFile = regexp.MustCompile(`^\s+(/[^ ]+\.go):(\d+)`)
var reAccess = regexp.MustCompile(`^(Write|Read|Previous write|Previous read|Atomic write|Atomic read|Previous atomic write|Previous atomic read) at `)
var reGoguFn = regexp.MustCompile(`github\.com/esimov/gogu[./]([A-Za-z0-9_/]*)\.?\(?\*?([A-Za-z0-9_]*)(?:\[[^\]]*\])?\)?\.([A-Za-z0-9_]+)`)

func classifyFile(path string) string {
	switch {
	case strings.HasPrefix(path, goroot+"/"), strings.Contains(path, "/src/runtime/"), strings.Contains(path, "/src/internal/"), strings.Contains(path, "/src/sync/"):
		return "std"
	case strings.Contains(path, "/harness/conc/"), strings.Contains(path, "/harness/pbt/"), strings.Contains(path, "/harness/props/"):
		return "harness"
	case strings.Contains(path, "/pkg/mod/"):
		return "other"
	}
	return "gogu"
}

// newRaceReports returns the data-race reports appended to the log since the last call.
func newRaceReports() []raceReport {
	files, _ := filepath.Glob(raceLog + ".*")
	var out []raceReport
	for _, f := range files {
		b, err := os.ReadFile(f)
		if err != nil || int64(len(b)) <= raceOff {
			continue
		}
		text := string(b[raceOff:])
		// only complete blocks are consumed
		const sep = "=================="
		for {
			i := strings.Index(text, "WARNING: DATA RACE")
			if i < 0 {
				break
			}
			j := strings.Index(text[i:], sep)
			if j < 0 {
				break
			}
			block := text[i : i+j]
			text = text[i+j+len(sep):]
			raceOff = int64(len(b)) - int64(len(text))
			out = append(out, parseReport(block))
		}
	}
	return out
}

func parseReport(block string) raceReport {
	rep := raceReport{text: block}
	lines := strings.Split(block, "\n")
	var keys []string
	for i := 0; i < len(lines); i++ {
		if !reAccess.MatchString(lines[i]) {
			continue
		}
		owner, key := "other", ""
		// frames: function line followed by a file line, until an empty line
		for j := i + 1; j+1 < len(lines) && strings.TrimSpace(lines[j]) != ""; j += 2 {
			m := reFrameFile.FindStringSubmatch(lines[j+1])
			if m == nil {
				break
			}
			cl := classifyFile(m[1])
			if owner == "other" && (cl == "gogu" || cl == "harness") {
				owner = cl // the first frame outside the standard library owns the access
			}
			if cl == "gogu" {
				if fm := reGoguFn.FindStringSubmatch(lines[j]); fm != nil && fm[3] != "" && fm[3][0] >= 'A' && fm[3][0] <= 'Z' {
					key = strings.Trim(fm[1]+"."+fm[2]+"."+fm[3], ".") // outermost exported gogu method wins (last assignment)
				}
			}
		}
		rep.owners = append(rep.owners, owner)
		keys = append(keys, key)
	}
	rep.key = strings.Join(keys, " ~ ")
	return rep
}

// runScenario executes the case once; it returns a description of what went wrong, if anything.
func runScenario(td *typeDef, c Case, rep int, r *pbt.R) error {
	procs := []int{16, 1, 2, 4}[rep%4]
	old := runtime.GOMAXPROCS(procs)
	defer runtime.GOMAXPROCS(old)
	inst := td.Mk(c.State)
	n := len(c.G)
	start := make(chan struct{})
	var wg sync.WaitGroup
	panics := make([]any, n)
	t0 := time.Now()
	begin := make([]time.Duration, n)
	end := make([]time.Duration, n)
	for gi := 0; gi < n; gi++ {
		gi := gi
		wg.Add(1)
		go func() {
			defer wg.Done()
			defer func() {
				if p := recover(); p != nil {
					panics[gi] = p
				}
			}()
			g := &gctx{id: gi + rep*3}
			<-start
			// start order and injected yields vary with the repetition
			for y := 0; y < (rep+gi*(1+rep/4))%3; y++ {
				runtime.Gosched()
			}
			begin[gi] = time.Since(t0)
			for k, m := range c.G[gi] {
				td.Methods[m%len(td.Methods)].Fn(inst, g)
				if (k+rep)%5 == 4 {
					runtime.Gosched()
				}
			}
			end[gi] = time.Since(t0)
		}()
	}
	close(start)
	wg.Wait()
	for gi, p := range panics {
		if p != nil {
			return fmt.Errorf("%v: PANIC in goroutine %d: %v", c, gi, p)
		}
	}
	overlapped := false
	for a := 0; a < n; a++ {
		for b := a + 1; b < n; b++ {
			if begin[a] < end[b] && begin[b] < end[a] {
				overlapped = true
			}
		}
	}
	if r != nil {
		r.NonTrivialIf(overlapped, "calls overlapped in time")
	}
	var serr error
	func() {
		defer func() {
			if p := recover(); p != nil {
				serr = fmt.Errorf("%v: PANIC in the follow-up sanity calls: %v", c, p)
			}
		}()
		if err := td.Sanity(inst); err != nil {
			serr = fmt.Errorf("%v: instance not usable afterwards: %v", c, err)
		}
	}()
	if td.Close != nil {
		td.Close(inst)
	}
	if serr != nil {
		return serr
	}
	for _, rr := range newRaceReports() {
		gogu, harness := 0, 0
		for _, o := range rr.owners {
			switch o {
			case "gogu":
				gogu++
			case "harness":
				harness++
			}
		}
		if gogu > 0 {
			return fmt.Errorf("%v: DATA RACE [%s]\n%s", c, rr.key, trimReport(rr.text))
		}
		if harness > 0 {
			return fmt.Errorf("HARNESS-RACE (both access sites in harness code; inconclusive): %v\n%s", c, trimReport(rr.text))
		}
		return fmt.Errorf("%v: DATA RACE outside gogu and harness code?\n%s", c, trimReport(rr.text))
	}
	return nil
}

func trimReport(s string) string {
	lines := strings.Split(s, "\n")
	var keep []string
	for _, l := range lines {
		if strings.Contains(l, "testing.tRunner") || strings.Contains(l, "/src/testing/") {
			continue
		}
		keep = append(keep, l)
		if len(keep) >= 40 {
			break
		}
	}
	return strings.Join(keep, "\n")
}

func prop(c Case, r *pbt.R) error {
	td := typeByName(c.Type)
	if td == nil {
		return fmt.Errorf("unknown type %q", c.Type)
	}
	reps := c.Reps
	if reps <= 0 {
		reps = 6
		if r.Thorough() {
			reps = 40
		}
	}
	for rep := 0; rep < reps; rep++ {
		if err := runScenario(td, c, rep, r); err != nil {
			return err
		}
	}
	r.Label("type " + c.Type)
	return nil
}

// enumPairs: every unordered pair of methods (including a method with itself) of every
// type, every initial state, both start orders; thorough: also every triple.
func enum(s pbt.Src, thorough bool) Case {
	td := &types[s.Intn(len(types))]
	c := Case{Type: td.Name, State: s.Intn(3)}
	n := len(td.Methods)
	shape := 0
	if thorough {
		shape = s.Intn(2)
	}
	if shape == 0 {
		a := s.Intn(n)
		b := s.Intn(n) // ordered pair: (a,b) and (b,a) differ in which goroutine yields first
		c.G = [][]int{{a}, {b}}
	} else {
		a := s.Intn(n)
		b := a + s.Intn(n-a)
		d := b + s.Intn(n-b)
		c.G = [][]int{{a}, {b}, {d}}
	}
	return c
}

func gen(s pbt.Src, thorough bool) Case {
	td := &types[s.Intn(len(types))]
	c := Case{Type: td.Name, State: s.Intn(3), Reps: 2}
	ng := 4 + s.Intn(5)
	for i := 0; i < ng; i++ {
		c.G = append(c.G, pbt.Seq(s, 20, 50, func(s pbt.Src) int { return s.Intn(len(td.Methods)) }))
	}
	return c
}

func TestProp(t *testing.T) {
	for _, kv := range strings.Fields(os.Getenv("GORACE")) {
		if strings.HasPrefix(kv, "log_path=") {
			raceLog = strings.TrimPrefix(kv, "log_path=")
		}
	}
	if raceLog == "" {
		t.Fatalf("GORACE=log_path=... must be set (the driver does that)")
	}
	pbt.Run(t, "C01",
		&pbt.Check[Case]{
			Name: "pairs",
			Rule: "free-running executions under the Go race detector: for each of heap, bstree, trie, queue, lqueue, stack, lstack, cache (with and without a 200us cleanup goroutine) every ordered pair of public methods incl. a method with itself (thorough: also every unordered triple), from 3 initial contents (empty / one / several elements), " +
				"each repeated 6 (thorough 40) times with GOMAXPROCS cycling over {16,1,2,4} and a repetition-dependent pattern of injected yields; goroutines start at a common barrier and share no harness state. " +
				"Monitors: a race report whose access site is in gogu code (reports are read from the detector's log after every scenario), a panic in any goroutine, a follow-up sanity sequence on the instance, the no-progress watchdog (deadlock). " +
				"evaluations = scenarios (each = all its repetitions); non-trivial = at least one repetition in which the calls really overlapped in time (monotonic timestamps taken by each goroutine, used for this statistic only).",
			Enum: enum, Prop: prop,
		},
		&pbt.Check[Case]{
			Name: "mixes",
			Rule: "random mixes: 4-8 goroutines x 20-50 calls drawn from the same method tables, 2 repetitions; same monitors. Non-trivial = calls overlapped in time. (A failing mix is reported as found: the race detector reports a given race once per process, so in-process shrinking is not possible.)",
			Gen:  gen, Prop: prop, OutOfEnum: func(Case, bool) bool { return true },
			RapidQuick: 12, RapidThorough: 400,
		},
	)
}
