// Package free: C02 under the REAL scheduler, for what the controlled scheduler cannot see. The controlled exploration
// (conc/lin) interleaves at the scheduling points of the sync and sync/atomic shims; a container built on something
// that has no such points inside (sync.Map, a channel, a lock-free structure from elsewhere) looks atomic to it.
// Here writers keep the element count of one shared instance inside a known window and readers watch the count: every
// linearization of the execution has a count inside the window at every point, so a reader that sees a number outside
// it has seen a state the container was never in (an element counted twice, or lost for a moment).
package free

import (
	"fmt"
	"runtime"
	"sync"
	"sync/atomic"
	"testing"
	"time"

	"github.com/esimov/gogu/bstree"
	"github.com/esimov/gogu/cache"
	"github.com/esimov/gogu/heap"
	"github.com/esimov/gogu/queue"
	"github.com/esimov/gogu/stack"
	"github.com/esimov/gogu/trie"
	"verif/pbt"
)

// WindowCase: Type indexes kinds; Base elements are stored first; W writers and R readers run for Millis milliseconds.
type WindowCase struct {
	Type   int `json:"type"`
	Base   int `json:"base"`
	W      int `json:"writers"`
	R      int `json:"readers"`
	Millis int `json:"ms"`
}

// kind: one container type. cycle(w, i) is one writer cycle that adds one element and removes one (the element it
// added in the previous cycle, or the one just added), so that the count stays within [lo, hi]; counts are the ways of
// asking for the count.
type kind struct {
	name string
	mk   func(base, writers int) *inst
}

type inst struct {
	lo, hi int
	cycle  func(w, i int)
	counts []func() int
	names  []string
	final  func() (got, want int)
}

var kinds = []kind{
	{"cache.Cache (Set new key; Delete the previous one)", func(base, writers int) *inst {
		c := cache.New[string, int](cache.NoExpiration, 0)
		for i := 0; i < base; i++ {
			c.Set(fmt.Sprintf("base-%d", i), i, cache.NoExpiration)
		}
		for w := 0; w < writers; w++ {
			c.Set(fmt.Sprintf("w%d-0", w), 0, cache.NoExpiration)
		}
		return &inst{lo: base + writers, hi: base + 2*writers,
			cycle: func(w, i int) {
				c.Set(fmt.Sprintf("w%d-%d", w, i+1), i, cache.NoExpiration)
				c.Delete(fmt.Sprintf("w%d-%d", w, i))
			},
			counts: []func() int{c.Count, func() int { return len(c.List()) }}, names: []string{"Count()", "len(List())"},
			final: func() (int, int) { return c.Count(), base + writers }}
	}},
	{"bstree.BsTree (Upsert new key; Delete the previous one)", func(base, writers int) *inst {
		t := bstree.New[int, int](func(a, b int) bool { return a < b })
		for i := 0; i < base; i++ {
			t.Upsert((i*7919)%(base+1)*4, i) // spread, so that the tree is not one long chain
		}
		n := t.Size()
		for w := 0; w < writers; w++ {
			t.Upsert(4*(w+1)*1000003+1, 0)
		}
		return &inst{lo: n + writers, hi: n + 2*writers,
			cycle: func(w, i int) {
				t.Upsert(4*(w+1)*1000003+1+4*(i+1), i)
				t.Delete(4*(w+1)*1000003 + 1 + 4*i)
			},
			counts: []func() int{t.Size, func() int { k := 0; t.Traverse(func(bstree.Item[int, int]) { k++ }); return k }}, names: []string{"Size()", "items visited by Traverse"},
			final: func() (int, int) { return t.Size(), n + writers }}
	}},
	{"queue.Queue (Enqueue; Dequeue)", func(base, writers int) *inst {
		q := queue.New[int]()
		for i := 0; i < base; i++ {
			q.Enqueue(i)
		}
		return &inst{lo: base, hi: base + writers,
			cycle:  func(w, i int) { q.Enqueue(i); q.Dequeue() },
			counts: []func() int{q.Size}, names: []string{"Size()"},
			final: func() (int, int) { return q.Size(), base }}
	}},
	{"queue.LQueue (Enqueue; Dequeue)", func(base, writers int) *inst {
		q := queue.NewLinked(-1)
		for i := 0; i < base; i++ {
			q.Enqueue(i)
		}
		return &inst{lo: base + 1, hi: base + 1 + writers,
			cycle:  func(w, i int) { q.Enqueue(i); q.Dequeue() },
			counts: []func() int{q.Size}, names: []string{"Size()"},
			final: func() (int, int) { return q.Size(), base + 1 }}
	}},
	{"stack.Stack (Push; Pop)", func(base, writers int) *inst {
		s := stack.New[int]()
		for i := 0; i < base; i++ {
			s.Push(i)
		}
		return &inst{lo: base, hi: base + writers,
			cycle:  func(w, i int) { s.Push(i); s.Pop() },
			counts: []func() int{s.Size}, names: []string{"Size()"},
			final: func() (int, int) { return s.Size(), base }}
	}},
	{"stack.LStack (Push; Pop)", func(base, writers int) *inst {
		s := stack.NewLinked(-1)
		for i := 0; i < base; i++ {
			s.Push(i)
		}
		return &inst{lo: base + 1, hi: base + 1 + writers,
			cycle:  func(w, i int) { s.Push(i); s.Pop() },
			counts: []func() int{s.Size}, names: []string{"Size()"},
			final: func() (int, int) { return s.Size(), base + 1 }}
	}},
	{"heap.Heap (Push; Pop)", func(base, writers int) *inst {
		h := heap.NewHeap(func(a, b int) bool { return a < b })
		for i := 0; i < base; i++ {
			h.Push((i * 7919) % (base + 1))
		}
		return &inst{lo: base, hi: base + writers,
			cycle:  func(w, i int) { h.Push(i % 97); h.Pop() },
			counts: []func() int{h.Size, func() int { return len(h.GetValues()) }}, names: []string{"Size()", "len(GetValues())"},
			final: func() (int, int) { return h.Size(), base }}
	}},
	{"trie.Trie (Put of new keys and of present keys; the count never falls and never passes the number of distinct keys put)", func(base, writers int) *inst {
		t := trie.New[string, int](queue.New[string]())
		for i := 0; i < base; i++ {
			t.Put(fmt.Sprintf("b%d", i), i)
		}
		var put atomic.Int64
		in := &inst{lo: base, hi: 1 << 40,
			cycle: func(w, i int) {
				put.Add(1)
				t.Put(fmt.Sprintf("w%d-%d", w, i), i)
				if base > 0 {
					t.Put(fmt.Sprintf("b%d", i%base), -i) // a present key: the count stays
				}
			},
			counts: []func() int{t.Size}, names: []string{"Size()"}}
		in.final = func() (int, int) {
			return t.Size(), base + int(put.Load())
		}
		return in
	}},
}

func windowProp(c WindowCase, r *pbt.R) error {
	k := kinds[((c.Type%len(kinds))+len(kinds))%len(kinds)]
	base := ((c.Base % 5000) + 5000) % 5000
	W, R := 1+((c.W-1)%4+4)%4, 1+((c.R-1)%4+4)%4
	ms := 5 + ((c.Millis%200)+200)%200
	in := k.mk(base, W)
	var stop atomic.Bool
	var wg sync.WaitGroup
	var cycles atomic.Int64
	type bad struct {
		what string
		got  int
	}
	var mu sync.Mutex
	var first *bad
	var reads atomic.Int64
	for w := 0; w < W; w++ {
		w := w
		wg.Add(1)
		go func() {
			defer wg.Done()
			for i := 0; !stop.Load(); i++ {
				in.cycle(w, i)
				cycles.Add(1)
				if i%64 == 63 {
					runtime.Gosched()
				}
			}
		}()
	}
	for rd := 0; rd < R; rd++ {
		rd := rd
		wg.Add(1)
		go func() {
			defer wg.Done()
			last := make([]int, len(in.counts))
			for i := 0; !stop.Load(); i++ {
				j := (i + rd) % len(in.counts)
				got := in.counts[j]()
				reads.Add(1)
				if got < in.lo || got > in.hi || (in.hi == 1<<40 && got < last[j]) {
					mu.Lock()
					if first == nil {
						first = &bad{in.names[j], got}
						if in.hi == 1<<40 && got >= in.lo {
							first.what += fmt.Sprintf(" (it read %d before)", last[j])
						}
					}
					mu.Unlock()
					stop.Store(true)
				}
				last[j] = got
			}
		}()
	}
	deadline := time.Now().Add(time.Duration(ms) * time.Millisecond)
	for time.Now().Before(deadline) && !stop.Load() {
		time.Sleep(time.Millisecond)
	}
	stop.Store(true)
	wg.Wait()
	desc := fmt.Sprintf("%s, %d elements stored first, %d writers and %d readers for %dms (%d writer cycles, %d reads)", k.name, base, W, R, ms, cycles.Load(), reads.Load())
	if first != nil {
		hi := fmt.Sprint(in.hi)
		if in.hi == 1<<40 {
			hi = "any larger number, never falling"
		}
		return fmt.Errorf("%s: a reader got %s = %d; whatever the interleaving, the container holds between %d and %s elements at every instant", desc, first.what, first.got, in.lo, hi)
	}
	if got, want := in.final(); got != want {
		return fmt.Errorf("%s: after all goroutines finished the count is %d, want %d (an element was lost or counted twice)", desc, got, want)
	}
	r.NonTrivialIf(cycles.Load() >= 20 && reads.Load() >= 20, ">= 20 writer cycles and >= 20 reads overlapped")
	r.Label(k.name[:10])
	return nil
}

func TestProp(t *testing.T) {
	pbt.Run(t, "C02",
		&pbt.Check[WindowCase]{
			Name: "count-window",
			Rule: "REAL scheduler, one shared instance of cache, bstree, queue, linked queue, stack, linked stack, heap or trie holding 0..4096 elements: 1..4 writers run cycles that add one element and remove one (cache/bstree: insert a new key, delete the previous one; queue/stack/heap: add, remove; trie: put a new and a present key), " +
				"1..4 readers ask for the element count (Size/Count, and len(List()), items visited by Traverse, len(GetValues())) for 5..60ms (thorough ..200ms). Whatever the interleaving, every linearization holds between base(+writers) and base+writers (+2*writers) elements at every point (trie: a count that never falls), so any other number read is a state the container was never in; at the end the count is the base again. " +
				"Random only. Non-trivial = at least 20 writer cycles and 20 reads overlapped.",
			Gen: func(s pbt.Src, thorough bool) WindowCase {
				ms := 5 + s.Intn(56)
				if thorough {
					ms = 20 + s.Intn(180)
				}
				return WindowCase{Type: s.Intn(len(kinds)), Base: pbt.Pick(s, 0, 1, 3, 64, 1000, 4096), W: 1 + s.Intn(4), R: 1 + s.Intn(4), Millis: ms}
			},
			Prop: windowProp, OutOfEnum: func(WindowCase, bool) bool { return true },
			RapidQuick: 12, RapidThorough: 150,
		},
	)
}
