// Command rewrite redirects the import of package sync in the given packages of a
// scratch copy of gogu to the scheduling shim (github.com/esimov/gogu/vsync) and
// installs the shim there. It is run by the C02 check on every run.
//
//	rewrite -dir <scratch copy> -shim <dir with vsync.go> -pkgs heap,bstree,...
package main

import (
	"flag"
	"fmt"
	"go/ast"
	"go/format"
	"go/parser"
	"go/token"
	"os"
	"path/filepath"
	"strconv"
	"strings"
)

func main() {
	dir := flag.String("dir", "", "scratch copy of the repository")
	shim := flag.String("shim", "", "directory holding vsync.go")
	pkgs := flag.String("pkgs", "heap,bstree,trie,queue,stack,cache", "packages to rewrite")
	flag.Parse()
	if *dir == "" || *shim == "" {
		fmt.Fprintln(os.Stderr, "usage: rewrite -dir D -shim S [-pkgs a,b]")
		os.Exit(2)
	}
	src, err := os.ReadFile(filepath.Join(*shim, "vsync.go"))
	check(err)
	check(os.MkdirAll(filepath.Join(*dir, "vsync"), 0o755))
	check(os.WriteFile(filepath.Join(*dir, "vsync", "vsync.go"), src, 0o644))
	asrc, err := os.ReadFile(filepath.Join(*shim, "vatomic", "vatomic.go"))
	check(err)
	check(os.MkdirAll(filepath.Join(*dir, "vsync", "vatomic"), 0o755))
	check(os.WriteFile(filepath.Join(*dir, "vsync", "vatomic", "vatomic.go"), asrc, 0o644))
	rewritten, uses := 0, 0
	for _, p := range strings.Split(*pkgs, ",") {
		files, err := filepath.Glob(filepath.Join(*dir, p, "*.go"))
		check(err)
		for _, f := range files {
			if strings.HasSuffix(f, "_test.go") {
				continue
			}
			fset := token.NewFileSet()
			af, err := parser.ParseFile(fset, f, nil, parser.ParseComments)
			check(err)
			changed := false
			for _, im := range af.Imports {
				path, _ := strconv.Unquote(im.Path.Value)
				if path != "sync" && path != "sync/atomic" {
					continue
				}
				if im.Name != nil && (im.Name.Name == "_" || im.Name.Name == ".") {
					fmt.Fprintf(os.Stderr, "%s: unsupported import form of %s\n", f, path)
					os.Exit(1)
				}
				if path == "sync/atomic" {
					// atomic operations become scheduling points of the controlled scheduler
					if im.Name == nil {
						im.Name = ast.NewIdent("atomic")
					}
					im.Path.Value = strconv.Quote("github.com/esimov/gogu/vsync/vatomic")
					changed = true
					continue
				}
				if im.Name == nil {
					im.Name = ast.NewIdent("sync")
				}
				im.Path.Value = strconv.Quote("github.com/esimov/gogu/vsync")
				changed = true
			}
			if !changed {
				continue
			}
			rewritten++
			ast.Inspect(af, func(n ast.Node) bool {
				if se, ok := n.(*ast.SelectorExpr); ok {
					if id, ok := se.X.(*ast.Ident); ok && id.Name == "sync" {
						uses++
					}
				}
				return true
			})
			var sb strings.Builder
			check(format.Node(&sb, fset, af))
			check(os.WriteFile(f, []byte(sb.String()), 0o644))
		}
	}
	fmt.Printf("rewrite: %d files redirected to the shim, %d uses of package sync\n", rewritten, uses)
	if rewritten == 0 {
		fmt.Fprintln(os.Stderr, "rewrite: nothing imports sync - the shim would not control anything")
		os.Exit(1)
	}
}

func check(err error) {
	if err != nil {
		fmt.Fprintln(os.Stderr, "rewrite:", err)
		os.Exit(1)
	}
}
