// Package vatomic is a drop-in replacement for package sync/atomic in the scratch copy of gogu
// that the C02 check builds: every operation is preceded by a scheduling point of the vsync
// scheduler (vsync.Point), so that the controlled scheduler can interleave other threads
// between two atomic operations, and between an atomic operation and a critical section.
// Underneath the real atomics are used (the harness also touches the instances outside a
// controlled run).
//
// It is never part of /repo. The file must stay compatible with Go 1.20.
package vatomic

import (
	realatomic "sync/atomic"
	"unsafe"

	"github.com/esimov/gogu/vsync"
)

type Int32 struct{ v realatomic.Int32 }

func (x *Int32) Load() int32           { vsync.Point(); return x.v.Load() }
func (x *Int32) Store(v int32)         { vsync.Point(); x.v.Store(v) }
func (x *Int32) Swap(v int32) int32    { vsync.Point(); return x.v.Swap(v) }
func (x *Int32) Add(d int32) int32     { vsync.Point(); return x.v.Add(d) }
func (x *Int32) CompareAndSwap(o, n int32) bool {
	vsync.Point()
	return x.v.CompareAndSwap(o, n)
}

type Int64 struct{ v realatomic.Int64 }

func (x *Int64) Load() int64           { vsync.Point(); return x.v.Load() }
func (x *Int64) Store(v int64)         { vsync.Point(); x.v.Store(v) }
func (x *Int64) Swap(v int64) int64    { vsync.Point(); return x.v.Swap(v) }
func (x *Int64) Add(d int64) int64     { vsync.Point(); return x.v.Add(d) }
func (x *Int64) CompareAndSwap(o, n int64) bool {
	vsync.Point()
	return x.v.CompareAndSwap(o, n)
}

type Uint32 struct{ v realatomic.Uint32 }

func (x *Uint32) Load() uint32          { vsync.Point(); return x.v.Load() }
func (x *Uint32) Store(v uint32)        { vsync.Point(); x.v.Store(v) }
func (x *Uint32) Swap(v uint32) uint32  { vsync.Point(); return x.v.Swap(v) }
func (x *Uint32) Add(d uint32) uint32   { vsync.Point(); return x.v.Add(d) }
func (x *Uint32) CompareAndSwap(o, n uint32) bool {
	vsync.Point()
	return x.v.CompareAndSwap(o, n)
}

type Uint64 struct{ v realatomic.Uint64 }

func (x *Uint64) Load() uint64          { vsync.Point(); return x.v.Load() }
func (x *Uint64) Store(v uint64)        { vsync.Point(); x.v.Store(v) }
func (x *Uint64) Swap(v uint64) uint64  { vsync.Point(); return x.v.Swap(v) }
func (x *Uint64) Add(d uint64) uint64   { vsync.Point(); return x.v.Add(d) }
func (x *Uint64) CompareAndSwap(o, n uint64) bool {
	vsync.Point()
	return x.v.CompareAndSwap(o, n)
}

type Uintptr struct{ v realatomic.Uintptr }

func (x *Uintptr) Load() uintptr           { vsync.Point(); return x.v.Load() }
func (x *Uintptr) Store(v uintptr)         { vsync.Point(); x.v.Store(v) }
func (x *Uintptr) Swap(v uintptr) uintptr  { vsync.Point(); return x.v.Swap(v) }
func (x *Uintptr) Add(d uintptr) uintptr   { vsync.Point(); return x.v.Add(d) }
func (x *Uintptr) CompareAndSwap(o, n uintptr) bool {
	vsync.Point()
	return x.v.CompareAndSwap(o, n)
}

type Bool struct{ v realatomic.Bool }

func (x *Bool) Load() bool          { vsync.Point(); return x.v.Load() }
func (x *Bool) Store(v bool)        { vsync.Point(); x.v.Store(v) }
func (x *Bool) Swap(v bool) bool    { vsync.Point(); return x.v.Swap(v) }
func (x *Bool) CompareAndSwap(o, n bool) bool {
	vsync.Point()
	return x.v.CompareAndSwap(o, n)
}

type Pointer[T any] struct{ v realatomic.Pointer[T] }

func (x *Pointer[T]) Load() *T         { vsync.Point(); return x.v.Load() }
func (x *Pointer[T]) Store(v *T)       { vsync.Point(); x.v.Store(v) }
func (x *Pointer[T]) Swap(v *T) *T     { vsync.Point(); return x.v.Swap(v) }
func (x *Pointer[T]) CompareAndSwap(o, n *T) bool {
	vsync.Point()
	return x.v.CompareAndSwap(o, n)
}

type Value struct{ v realatomic.Value }

func (x *Value) Load() any             { vsync.Point(); return x.v.Load() }
func (x *Value) Store(v any)           { vsync.Point(); x.v.Store(v) }
func (x *Value) Swap(v any) any        { vsync.Point(); return x.v.Swap(v) }
func (x *Value) CompareAndSwap(o, n any) bool {
	vsync.Point()
	return x.v.CompareAndSwap(o, n)
}

func AddInt32(p *int32, d int32) int32       { vsync.Point(); return realatomic.AddInt32(p, d) }
func AddInt64(p *int64, d int64) int64       { vsync.Point(); return realatomic.AddInt64(p, d) }
func AddUint32(p *uint32, d uint32) uint32   { vsync.Point(); return realatomic.AddUint32(p, d) }
func AddUint64(p *uint64, d uint64) uint64   { vsync.Point(); return realatomic.AddUint64(p, d) }
func AddUintptr(p *uintptr, d uintptr) uintptr {
	vsync.Point()
	return realatomic.AddUintptr(p, d)
}
func LoadInt32(p *int32) int32       { vsync.Point(); return realatomic.LoadInt32(p) }
func LoadInt64(p *int64) int64       { vsync.Point(); return realatomic.LoadInt64(p) }
func LoadUint32(p *uint32) uint32    { vsync.Point(); return realatomic.LoadUint32(p) }
func LoadUint64(p *uint64) uint64    { vsync.Point(); return realatomic.LoadUint64(p) }
func LoadUintptr(p *uintptr) uintptr { vsync.Point(); return realatomic.LoadUintptr(p) }
func LoadPointer(p *unsafe.Pointer) unsafe.Pointer {
	vsync.Point()
	return realatomic.LoadPointer(p)
}
func StoreInt32(p *int32, v int32)       { vsync.Point(); realatomic.StoreInt32(p, v) }
func StoreInt64(p *int64, v int64)       { vsync.Point(); realatomic.StoreInt64(p, v) }
func StoreUint32(p *uint32, v uint32)    { vsync.Point(); realatomic.StoreUint32(p, v) }
func StoreUint64(p *uint64, v uint64)    { vsync.Point(); realatomic.StoreUint64(p, v) }
func StoreUintptr(p *uintptr, v uintptr) { vsync.Point(); realatomic.StoreUintptr(p, v) }
func StorePointer(p *unsafe.Pointer, v unsafe.Pointer) {
	vsync.Point()
	realatomic.StorePointer(p, v)
}
func SwapInt32(p *int32, v int32) int32       { vsync.Point(); return realatomic.SwapInt32(p, v) }
func SwapInt64(p *int64, v int64) int64       { vsync.Point(); return realatomic.SwapInt64(p, v) }
func SwapUint32(p *uint32, v uint32) uint32   { vsync.Point(); return realatomic.SwapUint32(p, v) }
func SwapUint64(p *uint64, v uint64) uint64   { vsync.Point(); return realatomic.SwapUint64(p, v) }
func SwapUintptr(p *uintptr, v uintptr) uintptr {
	vsync.Point()
	return realatomic.SwapUintptr(p, v)
}
func SwapPointer(p *unsafe.Pointer, v unsafe.Pointer) unsafe.Pointer {
	vsync.Point()
	return realatomic.SwapPointer(p, v)
}
func CompareAndSwapInt32(p *int32, o, n int32) bool {
	vsync.Point()
	return realatomic.CompareAndSwapInt32(p, o, n)
}
func CompareAndSwapInt64(p *int64, o, n int64) bool {
	vsync.Point()
	return realatomic.CompareAndSwapInt64(p, o, n)
}
func CompareAndSwapUint32(p *uint32, o, n uint32) bool {
	vsync.Point()
	return realatomic.CompareAndSwapUint32(p, o, n)
}
func CompareAndSwapUint64(p *uint64, o, n uint64) bool {
	vsync.Point()
	return realatomic.CompareAndSwapUint64(p, o, n)
}
func CompareAndSwapUintptr(p *uintptr, o, n uintptr) bool {
	vsync.Point()
	return realatomic.CompareAndSwapUintptr(p, o, n)
}
func CompareAndSwapPointer(p *unsafe.Pointer, o, n unsafe.Pointer) bool {
	vsync.Point()
	return realatomic.CompareAndSwapPointer(p, o, n)
}
