// Package vsync is a drop-in replacement for the parts of package sync that the
// gogu containers use (RWMutex, Mutex), plus a cooperative scheduler that owns
// the interleaving of the goroutines ("virtual threads") it controls.
//
// It is never part of /repo: the C02 check copies the working tree to a scratch
// directory, rewrites `import "sync"` into an import of this package in the
// container packages and builds its harness against that copy.
//
// Scheduling points are: the arrival at Lock (before the writer announces
// itself), the acquisition of a Lock that was busy on arrival, the
// acquisition of RLock / Mutex.Lock, every operation of the sync/atomic shim
// (package vatomic calls Point before it), and - when AfterUnlock is set - the
// instant after every Unlock / RUnlock (so that what a call still does after
// leaving its critical section can be overtaken by other threads). A call counts as started at its first
// scheduling point (see CallStart). Exactly one virtual thread runs at a time; a thread runs
// from one scheduling point to the next without interruption. Writer preference
// of Go's RWMutex is modelled: a pending writer blocks new readers.
//
// Outside a controlled run (no scheduler active) the locks behave as ordinary
// non-blocking flags and panic if they would have to block.
//
// The file must stay compatible with Go 1.20 (the language version of gogu's go.mod).
package vsync

import (
	"fmt"
	realsync "sync"
)

// Re-exports so that code using other parts of package sync keeps compiling.
type (
	Locker    = realsync.Locker
	Once      = realsync.Once
	WaitGroup = realsync.WaitGroup
	Pool      = realsync.Pool
	Map       = realsync.Map
	Cond      = realsync.Cond
)

// NewCond mirrors sync.NewCond.
func NewCond(l Locker) *Cond { return realsync.NewCond(l) }

// ---------------------------------------------------------------------------
// locks

// RWMutex mirrors sync.RWMutex.
type RWMutex struct {
	w        bool // held by a writer
	r        int  // number of readers
	pendingW int  // writers that announced themselves and wait
}

// Mutex mirrors sync.Mutex.
type Mutex struct {
	locked bool
}

type point int

const (
	ptStart point = iota
	ptLockArrive
	ptLockAcquire
	ptRLockAcquire
	ptMutexAcquire
	ptFree // always enabled: atomic operation, after an unlock
)

// AfterUnlock makes the instant after every Unlock/RUnlock a scheduling point. Set by the
// harness before Run (never while a run is active).
var AfterUnlock bool

// Point is a scheduling point that is always enabled. The sync/atomic shim calls it before
// every atomic operation.
func Point() {
	s := active
	if s == nil || s.cur == nil || s.abort {
		return
	}
	s.yield(ptFree, nil, nil)
}

func afterUnlock() {
	if AfterUnlock {
		Point()
	}
}

func (m *RWMutex) Lock() {
	s := active
	if s == nil || s.cur == nil {
		if m.w || m.r > 0 {
			panic("vsync: Lock would block outside a controlled run (self-deadlock)")
		}
		m.w = true
		return
	}
	s.yield(ptLockArrive, m, nil)
	if !m.w && m.r == 0 {
		// Free at the moment of arrival: announcing and acquiring are one step (nothing
		// another thread could do in between is observable: readers would be blocked by
		// the announcement, and a writer overtaking is the same as that writer arriving first).
		m.w = true
		return
	}
	m.pendingW++
	s.yield(ptLockAcquire, m, nil)
	m.pendingW--
	m.w = true
}

func (m *RWMutex) Unlock() {
	if !m.w {
		if aborting() {
			return
		}
		panic("vsync: Unlock of unlocked RWMutex")
	}
	m.w = false
	afterUnlock()
}

func (m *RWMutex) RLock() {
	s := active
	if s == nil || s.cur == nil {
		if m.w {
			panic("vsync: RLock would block outside a controlled run (self-deadlock)")
		}
		m.r++
		return
	}
	s.yield(ptRLockAcquire, m, nil)
	m.r++
}

func (m *RWMutex) RUnlock() {
	if m.r <= 0 {
		if aborting() {
			return
		}
		panic("vsync: RUnlock of unlocked RWMutex")
	}
	m.r--
	afterUnlock()
}

// TryLock mirrors sync.RWMutex.TryLock (no scheduling point).
func (m *RWMutex) TryLock() bool {
	if m.w || m.r > 0 {
		return false
	}
	m.w = true
	return true
}

// TryRLock mirrors sync.RWMutex.TryRLock (no scheduling point).
func (m *RWMutex) TryRLock() bool {
	if m.w || m.pendingW > 0 {
		return false
	}
	m.r++
	return true
}

// RLocker mirrors sync.RWMutex.RLocker.
func (m *RWMutex) RLocker() Locker { return (*rlocker)(m) }

type rlocker RWMutex

func (r *rlocker) Lock()   { (*RWMutex)(r).RLock() }
func (r *rlocker) Unlock() { (*RWMutex)(r).RUnlock() }

func (m *Mutex) Lock() {
	s := active
	if s == nil || s.cur == nil {
		if m.locked {
			panic("vsync: Mutex.Lock would block outside a controlled run (self-deadlock)")
		}
		m.locked = true
		return
	}
	s.yield(ptMutexAcquire, nil, m)
	m.locked = true
}

func (m *Mutex) Unlock() {
	if !m.locked {
		if aborting() {
			return
		}
		panic("vsync: Unlock of unlocked Mutex")
	}
	m.locked = false
	afterUnlock()
}

// TryLock mirrors sync.Mutex.TryLock.
func (m *Mutex) TryLock() bool {
	if m.locked {
		return false
	}
	m.locked = true
	return true
}

// ---------------------------------------------------------------------------
// scheduler

type thread struct {
	id   int
	wake chan struct{}
	at   point
	rw   *RWMutex
	mx   *Mutex
	done bool
	// pendingStart: a call was entered but has not reached a scheduling point yet; its
	// start is stamped when the thread is next scheduled (the latest instant at which
	// the call can have been invoked: nothing it did before is visible to other threads).
	pendingStart bool
	startStamp   int
}

// Sched is one controlled execution.
type Sched struct {
	threads  []*thread
	cur      *thread
	back     chan struct{}
	abort    bool
	clock    int // event counter for call start / end
	Overlaps int // number of times a critical-section-relevant step of one thread ran while another thread was inside a call
	inCall   []bool
}

// abortSignal unwinds a parked thread when the run is abandoned (deadlock).
type abortSignal struct{}

var active *Sched

func aborting() bool { return active != nil && active.abort }

func (s *Sched) enabled(t *thread) bool {
	switch t.at {
	case ptLockAcquire:
		return !t.rw.w && t.rw.r == 0
	case ptRLockAcquire:
		return !t.rw.w && t.rw.pendingW == 0
	case ptMutexAcquire:
		return !t.mx.locked
	}
	return true
}

// yield parks the running thread at a scheduling point until the scheduler picks it again.
func (s *Sched) yield(at point, rw *RWMutex, mx *Mutex) {
	t := s.cur
	t.at, t.rw, t.mx = at, rw, mx
	s.back <- struct{}{}
	<-t.wake
	if s.abort {
		panic(abortSignal{})
	}
	if t.pendingStart {
		s.stampStart(t)
	}
}

func (s *Sched) stampStart(t *thread) {
	t.pendingStart = false
	s.clock++
	t.startStamp = s.clock
	for i, in := range s.inCall {
		if in && i != t.id {
			s.Overlaps++
		}
	}
	s.inCall[t.id] = true
}

// Result of a controlled execution.
type Result struct {
	Deadlock bool
	Blocked  []string // description of the blocked threads on deadlock
	Steps    int
	Choices  []int // the choices actually taken
	Bounds   []int // number of enabled threads at each choice
	Panics   []any // per thread: value of an unrecovered panic (nil if none)
	Overlap  bool  // two calls were in progress at the same time at some point
	TooLong  bool  // maxSteps exceeded (run abandoned)
}

// CallStart marks the beginning of a call. It is not a scheduling point of its
// own: the call counts as started at the instant its thread is next scheduled
// (its first lock operation), or at CallEnd if it never reaches one.
func CallStart() {
	s := active
	if s == nil || s.cur == nil {
		return
	}
	s.cur.pendingStart = true
}

// CallEnd returns the logical times at which the call started and returned (no scheduling point).
func CallEnd() (start, end int) {
	s := active
	if s == nil || s.cur == nil {
		return 0, 0
	}
	t := s.cur
	if t.pendingStart {
		s.stampStart(t)
	}
	s.clock++
	s.inCall[t.id] = false
	// a call that overlapped nothing may still have been overlapped: count from the other side
	return t.startStamp, s.clock
}

// Run executes body(tid) for tid in [0,n) as virtual threads. choose(k) picks
// which of the k enabled threads (in thread-id order) runs next.
func Run(n int, body func(tid int), choose func(k int) int, maxSteps int) Result {
	if active != nil {
		panic("vsync: nested Run")
	}
	s := &Sched{back: make(chan struct{}), inCall: make([]bool, n)}
	res := Result{Panics: make([]any, n)}
	for i := 0; i < n; i++ {
		s.threads = append(s.threads, &thread{id: i, wake: make(chan struct{}), at: ptStart})
	}
	active = s
	defer func() { active = nil }()
	for _, t := range s.threads {
		t := t
		go func() {
			<-t.wake
			defer func() {
				if p := recover(); p != nil {
					if _, ok := p.(abortSignal); !ok {
						res.Panics[t.id] = p
					}
				}
				t.done = true
				s.back <- struct{}{}
			}()
			if s.abort {
				return
			}
			body(t.id)
		}()
	}
	var en []*thread
	for {
		en = en[:0]
		alive := 0
		for _, t := range s.threads {
			if t.done {
				continue
			}
			alive++
			if s.enabled(t) {
				en = append(en, t)
			}
		}
		if alive == 0 {
			break
		}
		if len(en) == 0 || res.Steps >= maxSteps {
			if len(en) == 0 {
				res.Deadlock = true
				for _, t := range s.threads {
					if !t.done {
						res.Blocked = append(res.Blocked, fmt.Sprintf("thread %d blocked at %s", t.id, pointName(t.at)))
					}
				}
			} else {
				res.TooLong = true
			}
			// unwind every parked thread
			s.abort = true
			for _, t := range s.threads {
				if !t.done {
					s.cur = t
					t.wake <- struct{}{}
					<-s.back
				}
			}
			break
		}
		k := 0
		if len(en) > 1 {
			k = choose(len(en))
			res.Choices = append(res.Choices, k)
			res.Bounds = append(res.Bounds, len(en))
		}
		t := en[k]
		s.cur = t
		res.Steps++
		t.wake <- struct{}{}
		<-s.back
	}
	s.cur = nil
	res.Overlap = s.Overlaps > 0
	return res
}

func pointName(p point) string {
	switch p {
	case ptStart:
		return "call start"
	case ptLockArrive:
		return "Lock (arriving)"
	case ptLockAcquire:
		return "Lock (waiting for readers/writer to leave)"
	case ptRLockAcquire:
		return "RLock (writer active or pending)"
	case ptMutexAcquire:
		return "Mutex.Lock"
	case ptFree:
		return "atomic operation / after unlock"
	}
	return "?"
}
