package pbt

import (
	"bufio"
	"encoding/json"
	"flag"
	"fmt"
	"hash/fnv"
	"os"
	"path/filepath"
	"runtime"
	"runtime/debug"
	"sort"
	"strconv"
	"strings"
	"sync/atomic"
	"testing"
	"testing/synctest"
	"time"

	"pgregory.net/rapid"
)

// ---------------------------------------------------------------------------
// configuration (environment, set by the ./check driver)

// Config is what the driver tells a shard.
type Config struct {
	Root     string // /verif
	ID       string // property id
	Thorough bool
	Seed     int64
	Shard    int
	NShards  int
	Out      string // directory for partial evidence ("" = none)
	Replay   string // replay only this file
	Only     string // restrict to one sub-check
	Mode     string // "", "replay", "enum", "rapid"
	Scale    float64
}

func envInt(name string, def int64) int64 {
	if v := os.Getenv(name); v != "" {
		if n, err := strconv.ParseInt(v, 10, 64); err == nil {
			return n
		}
	}
	return def
}

// LoadConfig reads the VERIF_* environment.
func LoadConfig(id string) Config {
	c := Config{
		Root:     os.Getenv("VERIF_ROOT"),
		ID:       id,
		Thorough: os.Getenv("VERIF_TIER") == "thorough",
		Seed:     envInt("VERIF_SEED", 1),
		Shard:    int(envInt("VERIF_SHARD", 0)),
		NShards:  int(envInt("VERIF_NSHARDS", 1)),
		Out:      os.Getenv("VERIF_OUT"),
		Replay:   os.Getenv("VERIF_REPLAY"),
		Only:     os.Getenv("VERIF_ONLY"),
		Mode:     os.Getenv("VERIF_MODE"),
		Scale:    1,
	}
	if c.Root == "" {
		c.Root = "/verif"
	}
	if v := os.Getenv("VERIF_SCALE"); v != "" {
		if f, err := strconv.ParseFloat(v, 64); err == nil && f > 0 {
			c.Scale = f
		}
	}
	if c.NShards < 1 {
		c.NShards = 1
	}
	return c
}

// RapidSeed derives the rapid PRNG seed of this shard (never 0, which rapid
// treats as "pick a random one").
func (c Config) RapidSeed(salt int) uint64 {
	s := uint64(c.Seed)*1000003 + uint64(c.Shard)*7919 + uint64(salt)*104729 + 1
	if s == 0 {
		s = 1
	}
	return s
}

// ---------------------------------------------------------------------------
// per-case recorder

// R records what happened while one case was executed.
type R struct {
	m          *Main
	labels     []string
	nontrivial bool
	excluded   []string
	probing    bool
	T          *testing.T // the *testing.T the case runs under (inside a bubble: the bubble's T)
}

func (r *R) reset() {
	r.labels = r.labels[:0]
	r.excluded = r.excluded[:0]
	r.nontrivial = false
}

// Label tags the case; the evidence file reports how many cases carried each label.
func (r *R) Label(l string) {
	for _, x := range r.labels {
		if x == l {
			return
		}
	}
	r.labels = append(r.labels, l)
}

// NonTrivial marks the case as non-trivial by the check's stated rule.
func (r *R) NonTrivial() { r.nontrivial = true }

// NonTrivialIf marks the case as non-trivial when cond holds and labels it.
func (r *R) NonTrivialIf(cond bool, label string) {
	if cond {
		r.nontrivial = true
		r.Label(label)
	}
}

// KF reports whether the carve-out of the open known finding id is in force.
func (r *R) KF(id string) bool {
	if r.probing || r.m == nil {
		return false
	}
	return r.m.active[id]
}

// Excluded counts one use of a carve-out in this case.
func (r *R) Excluded(id string) {
	for _, x := range r.excluded {
		if x == id {
			return
		}
	}
	r.excluded = append(r.excluded, id)
}

// Thorough reports the tier.
func (r *R) Thorough() bool { return r.m != nil && r.m.Cfg.Thorough }

// ---------------------------------------------------------------------------
// checks

// Check is one executable property over generated cases of type C.
type Check[C any] struct {
	Name string
	// Rule says, for the evidence file, how cases are generated and what makes one non-trivial.
	Rule string
	// Enum generates a case of the bounded-exhaustive scope (nil: no enumeration).
	// It must be injective: different choice paths give different cases.
	Enum func(s Src, thorough bool) C
	// Gen generates a random case (nil: no random search).
	Gen func(s Src, thorough bool) C
	// Prop executes the case against the code and the oracle.
	Prop func(c C, r *R) error
	// OutOfEnum tells whether a random case lies outside the enumerated scope
	// (only those count towards distinct_nontrivial). nil: none counts.
	OutOfEnum func(c C, thorough bool) bool
	// Random cases per shard.
	RapidQuick, RapidThorough int
	// Bubble runs every case inside a testing/synctest bubble (virtual time).
	Bubble bool
	// EnumCap bounds the number of leaves visited (0 = unbounded); hitting it
	// makes the enumeration non-exhaustive.
	EnumCapQuick, EnumCapThorough int64
	// Fixed hand-written boundary cases, always executed first.
	Fixed []C
}

// Runner is the type-erased view of a Check.
type Runner interface {
	name() string
	run(t *testing.T, m *Main) *Partial
	replayFile(t *testing.T, m *Main, path string, probing bool) (error, error)
}

func (ck *Check[C]) name() string { return ck.Name }

type replayDoc struct {
	Property string          `json:"property"`
	Check    string          `json:"check"`
	Message  string          `json:"message,omitempty"`
	Case     json.RawMessage `json:"case"`
}

// Partial is what one shard reports for one sub-check.
type Partial struct {
	Check          string           `json:"check"`
	Rule           string           `json:"rule"`
	Evaluations    int64            `json:"evaluations"`
	EnumCases      int64            `json:"enum_cases"`
	EnumNonTrivial int64            `json:"enum_nontrivial"`
	EnumComplete   bool             `json:"enum_complete"`
	EnumRan        bool             `json:"enum_ran"`
	EnumLeaves     int64            `json:"enum_leaves"`
	RapidCases     int64            `json:"rapid_cases"`
	RapidNT        int64            `json:"rapid_nontrivial"`
	RapidNTHashes  []uint64         `json:"rapid_nt_hashes"`
	ReplayCases    int64            `json:"replay_cases"`
	Labels         map[string]int64 `json:"labels"`
	Excluded       map[string]int64 `json:"excluded"`
	Samples        []any            `json:"samples"`
	Violations     []Violation      `json:"violations"`
}

// Violation is a failed case with its replay file.
type Violation struct {
	Check   string `json:"check"`
	Replay  string `json:"replay"`
	Message string `json:"message"`
	Source  string `json:"source"`
}

type state[C any] struct {
	ck      *Check[C]
	m       *Main
	p       *Partial
	r       R
	hashes  map[uint64]struct{}
	ntSeen  int64
	failed  bool
	lastBad *C
	lastMsg string
}

func caseJSON(c any) []byte {
	b, err := json.Marshal(c)
	if err != nil {
		return []byte(fmt.Sprintf("%q", fmt.Sprintf("unmarshalable case: %v", err)))
	}
	return b
}

func hashBytes(b []byte) uint64 {
	h := fnv.New64a()
	h.Write(b)
	return h.Sum64()
}

// exec runs the property once, converting panics into violations.
func (s *state[C]) exec(t *testing.T, c C, probing bool) (err error) {
	s.r.reset()
	s.r.m = s.m
	s.r.probing = probing
	s.r.T = t
	cur := any(c)
	s.m.current.Store(&curCase{check: s.ck.Name, c: cur})
	if breadcrumb != "" {
		// The driver re-runs a shard that died of a fatal runtime error (stack overflow, ...) with this set: the case
		// that is about to run is on disk when the process dies, and becomes the replay file.
		doc := replayDoc{Property: s.m.Cfg.ID, Check: s.ck.Name, Message: "CRASH", Case: caseJSON(cur)}
		out, _ := json.MarshalIndent(doc, "", " ")
		os.WriteFile(breadcrumb, append(out, '\n'), 0o644)
	}
	run := func() {
		defer func() {
			if p := recover(); p != nil {
				err = fmt.Errorf("panic: %v\n%s", p, trimStack(debug.Stack()))
			}
		}()
		err = s.ck.Prop(c, &s.r)
	}
	if s.ck.Bubble {
		func() {
			// A bubble that ends with blocked goroutines panics in synctest.Test itself.
			defer func() {
				if p := recover(); p != nil && err == nil {
					err = fmt.Errorf("synctest bubble: %v", p)
				}
			}()
			synctest.Test(t, func(bt *testing.T) {
				s.r.T = bt
				run()
			})
		}()
	} else {
		run()
	}
	s.m.progress.Add(1)
	return err
}

func trimStack(b []byte) string {
	lines := strings.Split(string(b), "\n")
	var keep []string
	for i := 0; i < len(lines); i++ {
		l := lines[i]
		if strings.Contains(l, "runtime/debug.Stack") || strings.Contains(l, "runtime/panic.go") ||
			strings.Contains(l, "panic(") || strings.Contains(l, "/pbt/run.go") || strings.Contains(l, "pbt.(*state") {
			continue
		}
		keep = append(keep, l)
		if len(keep) > 24 {
			break
		}
	}
	return strings.Join(keep, "\n")
}

func (s *state[C]) account(c C, source string) {
	p := s.p
	p.Evaluations++
	for _, l := range s.r.labels {
		p.Labels[l]++
	}
	for _, e := range s.r.excluded {
		p.Excluded[e]++
	}
	switch source {
	case "enum":
		p.EnumCases++
		if s.r.nontrivial {
			p.EnumNonTrivial++
		}
	case "rapid":
		p.RapidCases++
		if s.r.nontrivial {
			p.RapidNT++
			if s.ck.OutOfEnum != nil && s.ck.OutOfEnum(c, s.m.Cfg.Thorough) {
				s.hashes[hashBytes(caseJSON(c))] = struct{}{}
			}
		}
	default:
		p.ReplayCases++
	}
	if s.r.nontrivial {
		s.ntSeen++
		n := s.ntSeen
		if (n == 1 || n == 7 || n == 50 || n == 400 || n == 3000 || n == 20000) && len(p.Samples) < 8 {
			if cj := caseJSON(c); len(cj) <= 4000 { // very large cases are not written into the evidence file
				p.Samples = append(p.Samples, map[string]any{
					"check": s.ck.Name, "source": source, "case": json.RawMessage(cj),
					"labels": append([]string(nil), s.r.labels...),
				})
			} else {
				s.ntSeen--
			}
		}
	}
}

func (s *state[C]) violation(c C, msg, source string) {
	s.failed = true
	b := caseJSON(c)
	dir := filepath.Join(s.m.Cfg.Root, "replays", s.m.Cfg.ID)
	os.MkdirAll(dir, 0o755)
	path := filepath.Join(dir, fmt.Sprintf("fail-%s-%016x.json", s.ck.Name, hashBytes(b)))
	doc := replayDoc{Property: s.m.Cfg.ID, Check: s.ck.Name, Message: firstLines(msg, 12), Case: b}
	out, _ := json.MarshalIndent(doc, "", " ")
	os.WriteFile(path, append(out, '\n'), 0o644)
	s.p.Violations = append(s.p.Violations, Violation{Check: s.ck.Name, Replay: path, Message: firstLines(msg, 12), Source: source})
	fmt.Printf("RAW-VIOLATION property=%s check=%s source=%s replay=%s\n  %s\n", s.m.Cfg.ID, s.ck.Name, source, path,
		strings.ReplaceAll(firstLines(msg, 12), "\n", "\n  "))
}

func firstLines(s string, n int) string {
	lines := strings.Split(s, "\n")
	if len(lines) > n {
		lines = lines[:n]
	}
	out := strings.Join(lines, "\n")
	if len(out) > 3000 {
		out = out[:3000] + " ... (truncated)"
	}
	return out
}

func (ck *Check[C]) newState(m *Main) *state[C] {
	return &state[C]{
		ck: ck, m: m,
		p:      &Partial{Check: ck.Name, Rule: ck.Rule, Labels: map[string]int64{}, Excluded: map[string]int64{}},
		hashes: map[uint64]struct{}{},
	}
}

func (ck *Check[C]) replayFile(t *testing.T, m *Main, path string, probing bool) (propErr error, loadErr error) {
	raw, err := os.ReadFile(path)
	if err != nil {
		return nil, err
	}
	var doc replayDoc
	if err := json.Unmarshal(raw, &doc); err != nil {
		return nil, fmt.Errorf("%s: %v", path, err)
	}
	var c C
	dec := json.NewDecoder(strings.NewReader(string(doc.Case)))
	if err := dec.Decode(&c); err != nil {
		return nil, fmt.Errorf("%s: case: %v", path, err)
	}
	s := ck.newState(m)
	return s.exec(t, c, probing), nil
}

func (ck *Check[C]) run(t *testing.T, m *Main) *Partial {
	s := ck.newState(m)
	cfg := m.Cfg
	mode := cfg.Mode

	// 1. fixed cases and the committed regression corpus (shard 0 only).
	if cfg.Shard == 0 && (mode == "" || mode == "replay") {
		for _, c := range ck.Fixed {
			if err := s.exec(t, c, false); err != nil {
				s.account(c, "fixed")
				s.violation(c, err.Error(), "fixed")
				break
			}
			s.account(c, "fixed")
		}
		files, _ := filepath.Glob(filepath.Join(cfg.Root, "replays", cfg.ID, "reg-*.json"))
		sort.Strings(files)
		for _, f := range files {
			if s.failed {
				break
			}
			raw, err := os.ReadFile(f)
			if err != nil {
				continue
			}
			var doc replayDoc
			if json.Unmarshal(raw, &doc) != nil || doc.Check != ck.Name {
				continue
			}
			var c C
			if err := json.Unmarshal(doc.Case, &c); err != nil {
				m.harnessError(fmt.Sprintf("replay file %s does not decode: %v", f, err))
				continue
			}
			err = s.exec(t, c, false)
			s.account(c, "replay")
			if err != nil {
				s.failed = true
				s.p.Violations = append(s.p.Violations, Violation{Check: ck.Name, Replay: f, Message: firstLines(err.Error(), 12), Source: "replay"})
				fmt.Printf("RAW-VIOLATION property=%s check=%s source=replay replay=%s\n  %s\n", cfg.ID, ck.Name, f,
					strings.ReplaceAll(firstLines(err.Error(), 12), "\n", "\n  "))
			}
		}
	}

	// 2. bounded-exhaustive enumeration, sharded by leaf index.
	if !s.failed && ck.Enum != nil && (mode == "" || mode == "enum") {
		s.p.EnumRan = true
		limit := ck.EnumCapQuick
		if cfg.Thorough {
			limit = ck.EnumCapThorough
		}
		od := NewOdometer()
		complete := true
		for od.Next() {
			if limit > 0 && od.Leaves > limit {
				complete = false
				break
			}
			c := ck.Enum(od, cfg.Thorough)
			if (od.Leaves-1)%int64(cfg.NShards) != int64(cfg.Shard) {
				continue
			}
			err := s.exec(t, c, false)
			s.account(c, "enum")
			if err != nil {
				s.violation(c, err.Error(), "enum")
				complete = false
				break
			}
		}
		s.p.EnumComplete = complete
		s.p.EnumLeaves = od.Leaves
	}

	// 3. random search with shrinking.
	if !s.failed && ck.Gen != nil && (mode == "" || mode == "rapid") {
		n := ck.RapidQuick
		if cfg.Thorough {
			n = ck.RapidThorough
		}
		n = int(float64(n) * cfg.Scale)
		if n > 0 {
			s.rapid(t, n)
		}
	}

	for h := range s.hashes {
		s.p.RapidNTHashes = append(s.p.RapidNTHashes, h)
	}
	sort.Slice(s.p.RapidNTHashes, func(i, j int) bool { return s.p.RapidNTHashes[i] < s.p.RapidNTHashes[j] })
	return s.p
}

var saltCounter int

func (s *state[C]) rapid(t *testing.T, n int) {
	saltCounter++
	flag.Set("rapid.checks", strconv.Itoa(n))
	flag.Set("rapid.seed", strconv.FormatUint(s.m.Cfg.RapidSeed(saltCounter), 10))
	flag.Set("rapid.nofailfile", "true")
	if s.m.Cfg.Thorough {
		flag.Set("rapid.shrinktime", "30s")
	} else {
		flag.Set("rapid.shrinktime", "8s")
	}
	failing := false
	ok := t.Run(s.ck.Name+"/rapid", func(t *testing.T) {
		rapid.Check(t, func(rt *rapid.T) {
			c := s.ck.Gen(RapidSrc(rt), s.m.Cfg.Thorough)
			err := s.exec(t, c, false)
			if !failing {
				s.account(c, "rapid")
			}
			if err != nil {
				failing = true
				cc := c
				s.lastBad = &cc
				s.lastMsg = err.Error()
				rt.Fatalf("%s", firstLines(err.Error(), 3))
			}
		})
	})
	if !ok || s.lastBad != nil {
		if s.lastBad != nil {
			// The last failing execution is the fully shrunk case.
			s.violation(*s.lastBad, s.lastMsg, "rapid")
		} else {
			s.m.harnessError("rapid reported a failure without a failing case in check " + s.ck.Name)
		}
	}
}

// ---------------------------------------------------------------------------
// known findings

// KnownFinding is one "open:" line of KNOWN_FINDINGS.txt.
type KnownFinding struct {
	Property, ID, Check, Replay, Expect, Text string
}

func loadKnownFindings(root, id string) []KnownFinding {
	f, err := os.Open(filepath.Join(root, "KNOWN_FINDINGS.txt"))
	if err != nil {
		return nil
	}
	defer f.Close()
	var out []KnownFinding
	sc := bufio.NewScanner(f)
	for sc.Scan() {
		line := strings.TrimSpace(sc.Text())
		if !strings.HasPrefix(line, "open:") {
			continue
		}
		head, text, _ := strings.Cut(strings.TrimPrefix(line, "open:"), "::")
		kf := KnownFinding{Text: strings.TrimSpace(text)}
		for _, f := range strings.Fields(head) {
			k, v, ok := strings.Cut(f, "=")
			if !ok {
				continue
			}
			switch k {
			case "property":
				kf.Property = v
			case "id":
				kf.ID = v
			case "check":
				kf.Check = v
			case "replay":
				kf.Replay = v
			case "expect":
				kf.Expect = strings.ReplaceAll(v, "_", " ")
			}
		}
		if kf.Property == id {
			out = append(out, kf)
		}
	}
	return out
}

// ---------------------------------------------------------------------------
// main entry of a property test binary

type curCase struct {
	check string
	c     any
}

// Main holds the state of one shard run.
type Main struct {
	Cfg      Config
	active   map[string]bool
	current  atomic.Pointer[curCase]
	progress atomic.Int64
	Known    []map[string]string
	Harness  []string
	parts    []*Partial
	start    time.Time
}

func (m *Main) harnessError(msg string) {
	m.Harness = append(m.Harness, msg)
	fmt.Printf("HARNESS-ERROR property=%s %s\n", m.Cfg.ID, msg)
}

type shardOut struct {
	Property string              `json:"property"`
	Shard    int                 `json:"shard"`
	NShards  int                 `json:"nshards"`
	Seed     int64               `json:"seed"`
	Tier     string              `json:"tier"`
	WallS    float64             `json:"wall_s"`
	Known    []map[string]string `json:"known"`
	Harness  []string            `json:"harness_errors"`
	Parts    []*Partial          `json:"parts"`
	Extra    map[string]any      `json:"extra,omitempty"`
	Done     bool                `json:"done"`
}

// Run is the body of the single Test function of a property package.
func Run(t *testing.T, id string, checks ...Runner) {
	m := &Main{Cfg: LoadConfig(id), active: map[string]bool{}, start: time.Now()}
	cfg := m.Cfg
	byName := map[string]Runner{}
	for _, c := range checks {
		byName[c.name()] = c
	}
	stop := m.watchdog()
	defer stop()

	// single-file replay mode
	if cfg.Replay != "" {
		raw, err := os.ReadFile(cfg.Replay)
		if err != nil {
			t.Fatalf("replay: %v", err)
		}
		var doc replayDoc
		if err := json.Unmarshal(raw, &doc); err != nil {
			t.Fatalf("replay: %v", err)
		}
		ck, ok := byName[doc.Check]
		if !ok {
			t.Fatalf("replay: unknown check %q", doc.Check)
		}
		// Carve-outs of active known findings apply to replays exactly as to searches,
		// except when the file replayed is the probe of a finding itself.
		isProbe := false
		for _, kf := range loadKnownFindings(cfg.Root, id) {
			if filepath.Base(kf.Replay) == filepath.Base(cfg.Replay) {
				isProbe = true
			}
		}
		if !isProbe {
			m.probeAll(t, id, byName)
		}
		perr, lerr := ck.replayFile(t, m, cfg.Replay, isProbe)
		if lerr != nil {
			t.Fatalf("replay: %v", lerr)
		}
		if perr != nil {
			fmt.Printf("RAW-VIOLATION property=%s check=%s source=replay replay=%s\n  %s\n", id, doc.Check, cfg.Replay,
				strings.ReplaceAll(firstLines(perr.Error(), 12), "\n", "\n  "))
			t.Errorf("replay failed")
		} else {
			fmt.Printf("REPLAY-OK property=%s check=%s replay=%s\n", id, doc.Check, cfg.Replay)
		}
		return
	}

	m.probeAll(t, id, byName)

	for _, c := range checks {
		if cfg.Only != "" && cfg.Only != c.name() {
			continue
		}
		p := c.run(t, m)
		m.parts = append(m.parts, p)
		if len(p.Violations) > 0 {
			t.Errorf("violation in %s", c.name())
		}
	}
	m.write(nil, true)
}

// probeAll decides which open known findings are still present.
func (m *Main) probeAll(t *testing.T, id string, byName map[string]Runner) {
	for _, kf := range loadKnownFindings(m.Cfg.Root, id) {
		ck, ok := byName[kf.Check]
		if !ok {
			m.harnessError("known finding " + kf.ID + " names unknown check " + kf.Check)
			continue
		}
		path := kf.Replay
		if !filepath.IsAbs(path) {
			path = filepath.Join(m.Cfg.Root, path)
		}
		perr, lerr := ck.replayFile(t, m, path, true)
		if lerr != nil {
			m.harnessError("known finding " + kf.ID + ": " + lerr.Error())
			continue
		}
		st := map[string]string{"id": kf.ID, "check": kf.Check, "text": kf.Text, "replay": kf.Replay}
		switch {
		case perr == nil:
			st["state"] = "absent"
		case kf.Expect == "" || strings.Contains(perr.Error(), kf.Expect):
			st["state"] = "present"
			m.active[kf.ID] = true
		default:
			// The probe fails, but not in the way the finding describes: that is a new violation.
			st["state"] = "different"
			st["message"] = firstLines(perr.Error(), 6)
			fmt.Printf("RAW-VIOLATION property=%s check=%s source=probe replay=%s\n  %s\n", id, kf.Check, path,
				strings.ReplaceAll(firstLines(perr.Error(), 12), "\n", "\n  "))
			if m.Cfg.Shard == 0 {
				m.parts = append(m.parts, &Partial{Check: kf.Check + "/probe", Labels: map[string]int64{}, Excluded: map[string]int64{},
					Violations: []Violation{{Check: kf.Check, Replay: path, Message: firstLines(perr.Error(), 12), Source: "probe"}}})
			}
			t.Errorf("probe of %s fails differently", kf.ID)
		}
		m.Known = append(m.Known, st)
	}
}

func (m *Main) write(extra map[string]any, done bool) {
	if m.Cfg.Out == "" {
		return
	}
	tier := "quick"
	if m.Cfg.Thorough {
		tier = "thorough"
	}
	so := shardOut{Property: m.Cfg.ID, Shard: m.Cfg.Shard, NShards: m.Cfg.NShards, Seed: m.Cfg.Seed, Tier: tier,
		WallS: time.Since(m.start).Seconds(), Known: m.Known, Harness: m.Harness, Parts: m.parts, Extra: extra, Done: done}
	b, _ := json.Marshal(so)
	os.MkdirAll(m.Cfg.Out, 0o755)
	tmp := filepath.Join(m.Cfg.Out, fmt.Sprintf("shard-%d.json.tmp", m.Cfg.Shard))
	os.WriteFile(tmp, b, 0o644)
	os.Rename(tmp, filepath.Join(m.Cfg.Out, fmt.Sprintf("shard-%d.json", m.Cfg.Shard)))
}

// ---------------------------------------------------------------------------
// watchdog

const (
	exitHang = 3
	exitMem  = 4
)

var breadcrumb = os.Getenv("VERIF_BREADCRUMB")

func (m *Main) watchdog() (stop func()) {
	// An unbounded recursion in the code under test ends at this stack size (the default, 1 GB per goroutine, times 16
	// shards would take the machine down first); it is a fatal error all the same, which the driver turns into a replay file.
	debug.SetMaxStack(128 << 20)
	done := make(chan struct{})
	hangAfter := time.Duration(envInt("VERIF_HANG_S", 30)) * time.Second
	memLimit := uint64(envInt("VERIF_MEM_MB", 3072)) << 20
	go func() {
		last := m.progress.Load()
		lastChange := time.Now()
		tick := time.NewTicker(500 * time.Millisecond)
		defer tick.Stop()
		for {
			select {
			case <-done:
				return
			case <-tick.C:
			}
			cur := m.progress.Load()
			if cur != last {
				last = cur
				lastChange = time.Now()
			}
			var ms runtime.MemStats
			runtime.ReadMemStats(&ms)
			hung := time.Since(lastChange) > hangAfter && m.current.Load() != nil
			big := ms.HeapAlloc > memLimit
			if hung || big {
				kind, code := "HANG", exitHang
				if big {
					kind, code = "MEM", exitMem
				}
				path := ""
				if cc := m.current.Load(); cc != nil {
					b := caseJSON(cc.c)
					dir := m.Cfg.Out
					if dir == "" {
						dir = os.TempDir()
					}
					os.MkdirAll(dir, 0o755)
					path = filepath.Join(dir, fmt.Sprintf("stuck-%d.json", m.Cfg.Shard))
					doc := replayDoc{Property: m.Cfg.ID, Check: cc.check, Message: kind, Case: b}
					out, _ := json.MarshalIndent(doc, "", " ")
					os.WriteFile(path, append(out, '\n'), 0o644)
				}
				fmt.Printf("%s property=%s replay=%s heap_mb=%d\n", kind, m.Cfg.ID, path, ms.HeapAlloc>>20)
				if hung {
					buf := make([]byte, 1<<20)
					n := runtime.Stack(buf, true)
					os.Stdout.Write(buf[:n])
				}
				os.Exit(code)
			}
		}
	}()
	return func() { close(done) }
}

// Extra lets special engines (C01, C02) publish their own partial result
// through the same shard file.
func WriteExtra(id string, parts []*Partial, known []map[string]string, extra map[string]any) {
	m := &Main{Cfg: LoadConfig(id), start: time.Now(), parts: parts, Known: known}
	m.write(extra, true)
}

// NewPartial returns an empty partial for engines that do their own running.
func NewPartial(check string) *Partial {
	return &Partial{Check: check, Labels: map[string]int64{}, Excluded: map[string]int64{}}
}

// ---------------------------------------------------------------------------
// custom engines (C01, C02): their own exploration loop, same accounting

// Custom is a Runner whose exploration is written by hand.
type Custom struct {
	Name string
	Rule string
	// Body explores and reports through x.
	Body func(t *testing.T, x *Ctx)
	// Replay re-executes one saved case (the "case" member of a replay file).
	Replay func(t *testing.T, raw json.RawMessage, x *Ctx) error
}

// Ctx is what a Custom body uses to account for what it did.
type Ctx struct {
	M      *Main
	P      *Partial
	name   string
	ntSeen int64
}

func (c *Custom) name() string { return c.Name }

func (c *Custom) run(t *testing.T, m *Main) *Partial {
	x := &Ctx{M: m, P: &Partial{Check: c.Name, Rule: c.Rule, Labels: map[string]int64{}, Excluded: map[string]int64{}}, name: c.Name}
	if m.Cfg.Mode == "" || m.Cfg.Mode == "enum" {
		c.Body(t, x)
	}
	return x.P
}

func (c *Custom) replayFile(t *testing.T, m *Main, path string, probing bool) (error, error) {
	raw, err := os.ReadFile(path)
	if err != nil {
		return nil, err
	}
	var doc replayDoc
	if err := json.Unmarshal(raw, &doc); err != nil {
		return nil, fmt.Errorf("%s: %v", path, err)
	}
	if c.Replay == nil {
		return nil, fmt.Errorf("check %s cannot replay", c.Name)
	}
	x := &Ctx{M: m, P: &Partial{Check: c.Name, Labels: map[string]int64{}, Excluded: map[string]int64{}}, name: c.Name}
	return c.Replay(t, doc.Case, x), nil
}

// Progress tells the watchdog which case is running.
func (x *Ctx) Progress(c any) {
	x.M.current.Store(&curCase{check: x.name, c: c})
	x.M.progress.Add(1)
}

// Violation records a failed case and writes its replay file; it returns the path.
func (x *Ctx) Violation(c any, msg, source string) string {
	b := caseJSON(c)
	dir := filepath.Join(x.M.Cfg.Root, "replays", x.M.Cfg.ID)
	os.MkdirAll(dir, 0o755)
	path := filepath.Join(dir, fmt.Sprintf("fail-%s-%016x.json", x.name, hashBytes(b)))
	doc := replayDoc{Property: x.M.Cfg.ID, Check: x.name, Message: firstLines(msg, 12), Case: b}
	out, _ := json.MarshalIndent(doc, "", " ")
	os.WriteFile(path, append(out, '\n'), 0o644)
	x.P.Violations = append(x.P.Violations, Violation{Check: x.name, Replay: path, Message: firstLines(msg, 12), Source: source})
	fmt.Printf("RAW-VIOLATION property=%s check=%s source=%s replay=%s\n  %s\n", x.M.Cfg.ID, x.name, source, path,
		strings.ReplaceAll(firstLines(msg, 12), "\n", "\n  "))
	return path
}

// Sample keeps a few cases for the evidence file.
func (x *Ctx) Sample(c any, labels ...string) {
	x.ntSeen++
	n := x.ntSeen
	if (n == 1 || n == 7 || n == 50 || n == 400 || n == 3000 || n == 20000) && len(x.P.Samples) < 8 {
		x.P.Samples = append(x.P.Samples, map[string]any{"check": x.name, "case": json.RawMessage(caseJSON(c)), "labels": labels})
	}
}

// KF reports whether the carve-out of an open known finding is in force.
func (x *Ctx) KF(id string) bool { return x.M.active[id] }

// Hash is the 64-bit FNV hash used for distinct counting.
func Hash(b []byte) uint64 { return hashBytes(b) }

// FuzzFail records a failing case found by a native fuzz target as a replay
// file (the reproducible unit: Go's fuzzer cannot be seeded) and fails the test.
func FuzzFail(t *testing.T, id, check string, c any, err error) {
	root := os.Getenv("VERIF_ROOT")
	if root == "" {
		root = "/verif"
	}
	b := caseJSON(c)
	dir := filepath.Join(root, "replays", id)
	os.MkdirAll(dir, 0o755)
	path := filepath.Join(dir, fmt.Sprintf("fail-fuzz-%s-%016x.json", check, hashBytes(b)))
	doc := replayDoc{Property: id, Check: check, Message: firstLines(err.Error(), 12), Case: b}
	out, _ := json.MarshalIndent(doc, "", " ")
	os.WriteFile(path, append(out, '\n'), 0o644)
	t.Fatalf("RAW-VIOLATION property=%s check=%s source=fuzz replay=%s\n  %v", id, check, path, err)
}
