package pbt

import (
	"fmt"
	"hash/fnv"
	"sync"
)

// Digest renders a (possibly large) result compactly: its length-limited text plus a hash of the whole text.
func Digest(v any) string {
	s := fmt.Sprint(v)
	h := fnv.New64a()
	h.Write([]byte(s))
	if len(s) > 80 {
		s = s[:40] + "..." + s[len(s)-30:]
	}
	return fmt.Sprintf("%s #%016x", s, h.Sum64())
}

// Concurrently checks that a pure computation gives the same answer when several goroutines run it at the same time,
// each on its own input, as when it runs alone: f(w) is evaluated once per worker sequentially (the reference), then all
// workers evaluate their own f(w) reps times concurrently. The first disagreement is returned.
// (A helper that keeps scratch state shared between calls - a package-level buffer, a pooled object handed back too
// early - answers one call with another call's data only when calls overlap.)
func Concurrently(workers, reps int, f func(w int) string) error {
	want := make([]string, workers)
	for w := range want {
		want[w] = f(w)
	}
	var mu sync.Mutex
	var first error
	var wg sync.WaitGroup
	start := make(chan struct{})
	for w := 0; w < workers; w++ {
		wg.Add(1)
		go func(w int) {
			defer wg.Done()
			defer func() {
				if p := recover(); p != nil {
					mu.Lock()
					if first == nil {
						first = fmt.Errorf("worker %d panicked while %d goroutines ran the helper concurrently: %v", w, workers, p)
					}
					mu.Unlock()
				}
			}()
			<-start
			for i := 0; i < reps; i++ {
				if got := f(w); got != want[w] {
					mu.Lock()
					if first == nil {
						first = fmt.Errorf("worker %d, repetition %d, %d goroutines running the helper concurrently on their own inputs: got %s, alone the same call gives %s", w, i, workers, got, want[w])
					}
					mu.Unlock()
					return
				}
				mu.Lock()
				stop := first != nil
				mu.Unlock()
				if stop {
					return
				}
			}
		}(w)
	}
	close(start)
	wg.Wait()
	return first
}
