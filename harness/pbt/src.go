// Package pbt is the small property-based-testing core shared by every
// property package of this harness: one generator interface with three
// implementations (bounded-exhaustive odometer, pgregory.net/rapid, fixed
// choice list), a runner that drives a property through replay corpus,
// enumeration and random search, evidence bookkeeping, known-finding probes and
// a watchdog.
package pbt

import (
	"pgregory.net/rapid"
)

// Src is the only source of nondeterminism a generator may use.
type Src interface {
	// Intn returns a value in [0, n). n must be >= 1.
	Intn(n int) int
	// length returns a sequence length in [min, max].
	length(min, max int) int
}

// Seq builds a slice of between min and max elements.
// With a rapid source it maps onto rapid.SliceOfN so that rapid can delete
// elements from the middle while shrinking.
func Seq[E any](s Src, min, max int, elem func(Src) E) []E {
	if rs, ok := s.(rapidSrc); ok {
		// rapid's own length distribution averages ~5 elements whatever max is;
		// draw a lower bound first to get a spread over [min, max].
		lo := min
		if max > min {
			lo = rapid.IntRange(min, max).Draw(rs.t, "minlen")
		}
		g := rapid.Custom(func(t *rapid.T) E {
			draws := 0
			e := elem(rapidSrc{t, &draws})
			if draws == 0 {
				// rapid rejects a Custom generator that consumes no data
				// ("group did not use any data"): draw a dummy bit.
				rapid.Bool().Draw(t, "pad")
			}
			return e
		})
		return rapid.SliceOfN(g, lo, max).Draw(rs.t, "seq")
	}
	n := s.length(min, max)
	out := make([]E, 0, n)
	for i := 0; i < n; i++ {
		out = append(out, elem(s))
	}
	return out
}

// Bool is Intn(2) == 1.
func Bool(s Src) bool { return s.Intn(2) == 1 }

// Pick returns one of the given values.
func Pick[E any](s Src, vals ...E) E { return vals[s.Intn(len(vals))] }

// Range returns a value in [lo, hi].
func Range(s Src, lo, hi int) int { return lo + s.Intn(hi-lo+1) }

// ---------------------------------------------------------------------------
// rapid source

type rapidSrc struct {
	t     *rapid.T
	draws *int // number of real draws made through this source (may be nil)
}

// RapidSrc wraps a *rapid.T.
func RapidSrc(t *rapid.T) Src { return rapidSrc{t, nil} }

func (r rapidSrc) Intn(n int) int {
	if n <= 1 {
		return 0
	}
	if r.draws != nil {
		*r.draws++
	}
	return rapid.IntRange(0, n-1).Draw(r.t, "c")
}

func (r rapidSrc) length(min, max int) int {
	if r.draws != nil {
		*r.draws++
	}
	return rapid.IntRange(min, max).Draw(r.t, "len")
}

// ---------------------------------------------------------------------------
// odometer: depth-first walk over the complete choice tree.

// Odometer enumerates every choice sequence a generator can consume.
// Usage: for od.Next() { c := gen(od) ... }.
type Odometer struct {
	choice []int // current path
	bound  []int // bound of every choice on the path
	pos    int   // next position to be consumed
	first  bool
	done   bool
	// Leaves counts the leaves visited so far.
	Leaves int64
}

// NewOdometer returns an odometer positioned before the first leaf.
func NewOdometer() *Odometer { return &Odometer{first: true} }

// Next advances to the next leaf; it returns false when the tree is exhausted.
func (o *Odometer) Next() bool {
	if o.done {
		return false
	}
	if o.first {
		o.first = false
		o.pos = 0
		o.Leaves++
		return true
	}
	// Drop choices that were not consumed by the previous run (cannot happen
	// with deterministic generators, but keeps the walk well-defined).
	o.choice = o.choice[:o.pos]
	o.bound = o.bound[:o.pos]
	for len(o.choice) > 0 {
		last := len(o.choice) - 1
		if o.choice[last]+1 < o.bound[last] {
			o.choice[last]++
			o.pos = 0
			o.Leaves++
			return true
		}
		o.choice = o.choice[:last]
		o.bound = o.bound[:last]
	}
	o.done = true
	return false
}

func (o *Odometer) Intn(n int) int {
	if n <= 1 {
		return 0
	}
	if o.pos < len(o.choice) {
		c := o.choice[o.pos]
		o.pos++
		return c
	}
	o.choice = append(o.choice, 0)
	o.bound = append(o.bound, n)
	o.pos++
	return 0
}

func (o *Odometer) length(min, max int) int { return min + o.Intn(max-min+1) }

// ---------------------------------------------------------------------------
// fixed choice list (used by tests of the core and by hand-written seeds)

// ListSrc replays a fixed list of choices; missing choices are 0.
type ListSrc struct {
	Choices []int
	pos     int
}

func (l *ListSrc) Intn(n int) int {
	if n <= 1 {
		return 0
	}
	c := 0
	if l.pos < len(l.Choices) {
		c = l.Choices[l.pos] % n
		if c < 0 {
			c = -c
		}
	}
	l.pos++
	return c
}

func (l *ListSrc) length(min, max int) int { return min + l.Intn(max-min+1) }
