#!/usr/bin/env python3
"""Regenerates /verif/MANIFEST.json from the table below (kept here so the manifest stays consistent)."""
import json, os, subprocess
ROOT = os.path.dirname(os.path.dirname(os.path.abspath(__file__)))

# id -> (technique, level text, level note, design section)
CLAIMED = {
 "C07": ("model-based stateful PBT: bounded-exhaustive operation sequences + rapid random sequences against a recency-list reference model, final drain",
         "Every operation sequence up to length 4 (thorough: 5) over keys 0..3 (0..4) for every capacity 1..4 is executed against a recency-list model (complete inside that bound), plus thousands of seeded random longer sequences with larger capacities; every return value, Count after every step, a final lookup of every key and a final drain by RemoveOldest are compared. Bounded exploration: nothing is claimed beyond the enumerated scope and the sampled sequences.",
         "Trusts the reference model (about 60 lines) and the Go toolchain; int keys/values only.", "4 (C07)"),
}

NOT_YET = {}

def main():
    props = [json.loads(l) for l in open(os.path.join(ROOT, "properties.jsonl"))]
    checks = []
    na = []
    for p in props:
        pid = p["id"]
        if pid in CLAIMED:
            tech, text, note, ref = CLAIMED[pid]
            checks.append(dict(property_id=pid,
                               quick_cmd="./check %s quick" % pid,
                               thorough_cmd="./check %s thorough" % pid,
                               evidence_file="evidence/%s.json" % pid,
                               replay_cmd_template="./check %s --replay {path}" % pid,
                               engine="pbt",
                               level_claimed=dict(category="exploration", text=text, design_ref="DESIGN.md section " + ref),
                               level_note=note, technique=tech))
        else:
            na.append(dict(property_id=pid, reason=NOT_YET.get(pid, "check not built yet in this session (planned, see DESIGN.md section 4); nothing is claimed for it until its check exists")))
    hooks_commits = []
    hp = os.path.join(ROOT, "hooks_commits.txt")
    if os.path.exists(hp):
        hooks_commits = [l.split()[0] for l in open(hp) if l.strip() and not l.startswith("#")]
    man = dict(version=1,
               setup_cmd="./check setup",
               hooks=dict(guard="verif", enable="go test -tags verif (every harness build passes -tags verif)",
                          baseline_off_cmd="cd /repo && GOFLAGS=-mod=mod go test -vet=off -count=1 ./...",
                          source_commits=hooks_commits, add_only=True),
               engines=[dict(name="pbt", path="harness/pbt", serves_properties=sorted(CLAIMED),
                             kind_free_text="property-based testing core: one generator interface driven by a bounded-exhaustive odometer, pgregory.net/rapid (random + shrinking) and a replay corpus; explicit reference-model / metamorphic / differential oracles per property; python driver ./check shards runs over 16 processes and merges evidence")],
               checks=checks,
               notes="All checks: ./check <ID> quick|thorough, VERIF_SEED honoured, exit 0/1/2 (2 = inconclusive). Known findings: KNOWN_FINDINGS.txt. See DESIGN.md.",
               not_applicable=na)
    with open(os.path.join(ROOT, "MANIFEST.json"), "w") as f:
        json.dump(man, f, indent=1)
        f.write("\n")

if __name__ == "__main__":
    main()
