#!/usr/bin/env python3
"""Regenerates /verif/MANIFEST.json from the table below (kept here so the manifest stays consistent)."""
import json, os, subprocess
ROOT = os.path.dirname(os.path.dirname(os.path.abspath(__file__)))

# id -> (technique, level text, level note, design section)
BOUND = " Bounded exploration: complete only inside the enumerated scope stated in the evidence rule; beyond it the property is sampled, and absence of violations elsewhere is not established."

CLAIMED = {
 "C01": ("race-detector stress (generated pair/triple/mix scenarios of all public methods incl. rejected inputs, free-running under -race with monitors: race log, panics, sanity calls, watchdog) + controlled-scheduler enumeration of the interleavings of all public methods of heap/trie/cache for deadlock, livelock, leaked locks and interleaving-dependent panics",
         "For every lock-guarded container type every ordered pair of public methods (thorough: every triple, hundreds of random 4-8 goroutine mixes) from three initial contents is executed repeatedly under the Go race detector with varied GOMAXPROCS and injected yields; any race report whose access site is in gogu code, any panic, an unusable instance afterwards or a scenario that never finishes is a violation attributed to the scenario that was running. The detector is happens-before based, so one execution of a racing pair suffices; a second stage runs the controlled scheduler of C02 over ALL public methods (also variadic Push, Merge/Meld in both directions and with itself, Keys/StartsWith/LongestPrefix, List/MapToCache/Flush, rejected inputs) of heap, trie and cache: every schedule of every 2x1 program, sampled 3x1 and the 4-thread cross-merge programs, judged for deadlock, livelock, a call that blocks even one-at-a-time (leaked lock) and panics that no sequential order shows." + BOUND,
         "Trusts the Go race detector (bounded shadow history, only executed code). Free-running schedules are sampled, not enumerated. Reentrant callbacks are outside the domain.", "3.6, 4 (C01)", "c01"),
 "C02": ("controlled-scheduler enumeration of all interleavings (stateless DFS over a sync / sync-atomic shim applied source-to-source to a scratch copy; scheduling points at lock arrival and acquisition, at every atomic operation and after every unlock) + differential linearizability oracle against sequential runs of the same build; rapid for larger programs",
         "For each container every program of 2x1, 3x1, (2||1) and 2x2 single-element calls (quick: all but a seeded quarter of the 2x2 programs sampled) from three initial states (cache: a fourth with an expired, unpurged entry; DeleteExpired among its operations) is executed under EVERY schedule at lock-acquisition granularity (plus scheduling points at atomics and after unlocks) by a cooperative scheduler that replaces package sync in a scratch copy of the working tree; each execution's results and follow-up observation must equal those of some one-at-a-time order of the same calls that respects real-time precedence; deadlock is a violation. Random larger programs (2-3 threads x 1-3 calls) with random schedules are shrunk by rapid. Complete at that granularity for the enumerated programs because race-free Go programs are sequentially consistent (race freedom is C01). A second stage runs the unmodified packages under the real scheduler: writers keep the element count of one shared instance inside a known window while readers ask for the count in every way the type offers; a number outside the window is a state no linearization contains (sampling; it covers containers whose internals offer the controlled scheduler no scheduling point)." + BOUND,
         "Trusts the vsync shim's model of RWMutex (writer preference) and that all shared accesses happen inside critical sections (C01). Library-spawned goroutines (Traverse, cache cleanup) are excluded. Sequential defects cannot mask or pollute the verdict because the oracle is differential.", "3.5, 4 (C02)", "c02"),
 "C03": ("model-based stateful PBT (multiset + comparator model), bounded-exhaustive sequences + rapid; Sort as permutation/order oracle",
         "Operation sequences over Push/Pop/Peek/Clear/Convert/Delete/Merge/Meld/FromSlice with three comparators are executed against a multiset model: extremality of Pop/Peek, exact conservation (Size, IsEmpty, GetValues as multiset, Delete results), Merge/Meld/Convert/FromSlice contracts, final drain; Sort checked as ordered permutation. One open known finding (Delete leaves the vacated slot unsifted, pinned by the repository's tests) suspends only order assertions after such a Delete; conservation stays exact." + BOUND,
         "Trusts the multiset reference model. Known finding heap-delete-unsifted carves out order assertions after a successful Delete of an interior slot.", "4 (C03)", "pbt"),
 "C04": ("model-based stateful PBT (map + sort model), bounded-exhaustive Upsert/Delete sequences + rapid; other key/value instantiations incl. a comparator with ties; free-running Traverse under concurrent edits of other keys",
         "Every Upsert/Delete sequence up to the length bound over keys 0..4 with both comparators, plus long random histories (sorted/reversed/random insertion), is compared with a map model after every step: Get of every key, Delete results, Traverse sequence (each present key once, current value, comparator order) and Size. One open known finding (Delete of an absent key decrements Size, pinned by the repository's Example) suspends only the Size assertion after the first such Delete of a case." + BOUND,
         "Trusts the map/sort reference model. Known finding bst-delete-absent-size.", "4 (C04)", "pbt"),
 "C05": ("model-based stateful PBT (slice model), bounded-exhaustive sequences over both queue implementations + rapid drain/refill histories; pointer elements",
         "Every Enqueue/Dequeue/Clear sequence up to the bound over a 3-value alphabet on both implementations (linked one from its mandatory first element), with complete observation (Size, Peek, Search of every value) and a final drain, against a slice model; long random sequences that drain and refill repeatedly." + BOUND,
         "Trusts the slice model; int/string elements; zero value reserved for 'empty'.", "4 (C05/C06)", "pbt"),
 "C06": ("model-based stateful PBT (slice model), bounded-exhaustive sequences over both stack implementations + rapid empty/refill histories; pointer elements and float64 elements (NaN, zero)",
         "Every Push/Pop sequence up to the bound (and every sequence of single observer/mutator calls up to a smaller bound) on both implementations against a slice model with complete observation and a fixed epilogue (drain, pops on empty, refill). One open known finding (LStack.Pop returns the element below the removed one, pinned by the repository's Example) suspends only the comparison of LStack.Pop's return value on a non-empty stack." + BOUND,
         "Trusts the slice model. Known finding lstack-pop-returns-below.", "4 (C05/C06)", "pbt"),
 "C07": ("model-based stateful PBT: bounded-exhaustive operation sequences + rapid random sequences against a recency-list reference model, final drain",
         "Every operation sequence up to length 4 (thorough: 5) over keys 0..3 (0..4) for every capacity 1..4 is executed against a recency-list model (complete inside that bound), plus thousands of seeded random longer sequences with larger capacities; every return value, Count after every step, a final lookup of every key and a final drain by RemoveOldest are compared." + BOUND,
         "Trusts the reference model (about 60 lines) and the Go toolchain; int keys/values only.", "4 (C07)", "pbt"),
 "C08": ("model-based stateful PBT in virtual time (testing/synctest): deadline-targeted timelines, bounded-exhaustive + rapid, map-with-deadlines model (key alphabet includes the empty string); volume (thousands of keys) and interface-valued sub-checks",
         "Call sequences including Advance-to-{deadline-1ns, deadline, deadline+1ns, next cleanup tick} run inside a synctest bubble, so 'live before the deadline, expired after it' is executed at exact instants for all six default/cleanup configurations; all sequences up to length 3 (thorough 4) over a 50-operation alphabet plus random longer ones against a map-with-deadlines model; Count/List checked after every step. Lenient exactly where the statement is open (the deadline instant itself, expired-but-unpurged entries in Count/List, cleanup within two ticks)." + BOUND,
         "Trusts Go's synctest fake clock and the model; needs the verif hook cache.VerifStopCleanup to end the cleanup goroutine inside the bubble. Real-timer lateness under load is outside what is asserted.", "3.4, 4 (C08)", "pbt"),
 "C09": ("model-based PBT (map model) over key sets and queries, bounded-exhaustive + rapid (arbitrary bytes) + native fuzz target",
         "All small key sets over a 2-letter alphabet in all insertion orders with every query string, plus random key sets of arbitrary bytes (shared prefixes, nested keys, bytes >= 0x80), against a Go map: Get/Contains exactness (no prefixes/extensions), Size, Keys and StartsWith in byte order, LongestPrefix, empty key/prefix/query handling." + BOUND,
         "Trusts the map model; Put of an empty key is outside the domain.", "4 (C09)", "pbt"),
 "C10": ("model-based stateful PBT (map model + height bound), bounded-exhaustive Put/Remove/Get sequences, all insertion orders of up to 9-10 keys, long phase histories; string/float64/uint8 keys with struct values",
         "Every Put/Remove/Get sequence up to the bound over keys 0..5 from three preset prefixes, every permutation of up to 9 (10) keys, and 100-1500-key histories in sorted/reversed/shuffled/zigzag order are checked against a map model: Get, Size, IsEmpty, ascending Traverse and the stated height bound after every operation." + BOUND,
         "Trusts the map model; int keys.", "4 (C10)", "pbt"),
 "C11": ("differential PBT against quadratic reference implementations written from the statement, bounded-exhaustive tuples of small slices and nestings + rapid (slices up to 10000 elements, nestings over one shared backing array); concurrent callers compared with the same call running alone",
         "All slices up to the bound over a small alphabet, all tuples of 1..3 slices, all nestings up to depth 3 (incl. malformed ones) and a finite family of key functions are compared with independent quadratic references; unordered results as sets; By-variants by their defining subsequence/qualification property." + BOUND,
         "Trusts the quadratic references; no NaN floats.", "4 (C11)", "pbt"),
 "C12": ("metamorphic/identity PBT (concatenation, partition, permutation, transpose, involution identities; callback visit logs; callbacks that observe the argument during the call), bounded-exhaustive + rapid (incl. slices of up to 20000 elements, nestings of depth up to 48, arguments that are windows of one array, signed zeros) + native fuzz target",
         "All small slices with every chunk size, drop count, predicate/key from a finite family, square matrices and nestings are checked by the conservation identities of the statement; documented panics count as rejection." + BOUND,
         "Trusts the identities as executable readings of the statement.", "4 (C12)", "pbt"),
 "C13": ("definitional-oracle PBT (defining inequalities / quantifier references / closed-form Range reference), bounded-exhaustive incl. all int8 triples + rapid (64-bit magnitudes, special floats, long slices); concurrent callers compared with the same call running alone",
         "All small slices with every probe and index window, all int8 triples for Clamp/InRange/Abs, all (start,step,end) in [-10,10]^3 and the shorter/longer argument forms for Range, across several element types, against definitional references; panics inside the documented domain are violations." + BOUND,
         "Trusts the references; documented domain restrictions (no NaN, no overflow, Abs of the type minimum, non-empty Mean) stated in the rule.", "4 (C13)", "pbt"),
 "C14": ("reference-model PBT over maps with set/defining-property comparison, each case executed under several map iteration orders, bounded-exhaustive + rapid (incl. maps of up to 2048 entries and pointer-valued maps); concurrent callers compared with the same call running alone",
         "All maps with up to 4 entries over 4 keys x 3 values, key lists and predicates from a finite family, and small collections of maps are checked against references; unordered or free choices by their defining property; each case runs several times because Go randomises map iteration." + BOUND,
         "Trusts the references.", "4 (C14)", "pbt"),
 "C15": ("byte-level reference + round-trip PBT, bounded-exhaustive strings/offsets/tokens + rapid (long strings, format/regexp metacharacters, invalid UTF-8 baseline) + native fuzz target; concurrent callers compared with the same call running alone",
         "All strings up to 5 (6) symbols over an alphabet mixing ASCII, multi-byte runes and token characters with every offset/length/index/size in a window around the length plus the int extremes are compared with a byte-level PHP-rule Substr reference, split/pad/wrap identities and Unicode case mapping; case styles by the clauses the statement lists." + BOUND,
         "Trusts the references; empty pad token and invalid UTF-8 for rune helpers are outside the domain.", "4 (C15)", "pbt"),
 "C16": ("snapshot-differential PBT: deep snapshots incl. capacity region and sentinels before / DURING (from inside the callbacks) / after every helper call and call pair over a registry of all exported helpers; string results re-compared with byte-wise copies after later calls; results overwritten by the caller and calls repeated; byte/string/float64/struct element types",
         "92 call forms of every exported slice/map helper run on arguments placed in backing arrays with spare capacity and sentinels; all single calls and all ordered pairs sharing an argument are enumerated over a small input scope: arguments must be unchanged (in-place helpers: only their documented argument, never beyond len) and earlier results must not be altered by later calls." + BOUND,
         "Aliasing is judged by observable alteration only (no pointer comparison); string results are compared with byte-wise copies taken when they were returned (sub-check strings).", "4 (C16)", "pbt"),
 "C17": ("timeline PBT in virtual time (synctest) with exact-instant oracle (outcomes value / error / item together with error; key alphabet includes the empty string); cleanup sub-check with purged neighbour entries; sequential sub-checks for results the cache cannot store and for thousands of keys; free-running sub-check with in-flight counters (also race-built in the thorough tier)",
         "Generated call timelines (1-16 callers, 1-3 keys, latencies 0/3/21ms, value/error outcomes, expiry none/40ms) run in a synctest bubble; single flight, provenance of every result, join semantics, cache-hit semantics, error non-caching and key isolation are decided on exact virtual instants, leniently at coinciding instants; every timeline of up to 3 (4) calls is enumerated. A free-running sub-check hammers the API with real goroutines (race-built in the thorough tier)." + BOUND,
         "Trusts synctest's fake clock; the oracle models which results are actually cached (documented in DESIGN).", "4 (C17)", "pbt"),
 "C18": ("exhaustive small-scope PBT with counting callbacks (results incl. the zero value; Once also on a defined string type, pointer, bool and struct{} results); RetryWithDelay in virtual time with callbacks that take time",
         "n in -2..8 x calls 0..12 x every success/failure pattern up to length 8 (the quantifier's full scope) is enumerated for After/Before/Once/Retry/RetryWithDelay with counting callbacks returning fresh values; delays are measured in a synctest bubble." + BOUND,
         "Trusts synctest's fake clock for the delay lower bound.", "4 (C18)", "pbt"),
 "C19": ("model-based stateful PBT (slice model) over both list types with bounded Each, bounded-exhaustive + rapid, fixed closing script; separate sub-checks with repeated values",
         "Every operation sequence up to length 5 (thorough 6-7) on SList and DList with node handles taken from Find immediately before use, against a slice model observed through a bounded Each, First/Last and Find after every call, followed by a closing script that edits next to every node (stale links only show on later edits)." + BOUND,
         "Trusts the slice model; distinct non-zero values; nil handle only for the inserts.", "4 (C19)", "pbt"),
 "C20": ("timeline PBT in virtual time (synctest): delay, debounce (also with debounced functions that take time) and throttle event sequences with exact-instant oracles, bounded-exhaustive + rapid; free-running debounce and throttle under the real scheduler and clock with counting / bracketing assertions",
         "Delay/Stop placements, debounce bursts (single and simultaneous callers, cancel) and throttle Call/Next/Cancel arrangements with 1-3 consumer goroutines run in a synctest bubble; never-early, at-most-once-per-burst, cancel, liveness, one-permission-per-period, trailing-only-when-configured and prompt-Cancel are decided on exact instants, leniently when two events coincide." + BOUND,
         "Trusts synctest's fake clock and that sync.Cond.Wait is durably blocking in a bubble. The free-running sub-checks use the real clock: only counting bounds and bracketing with a threshold of three events are asserted there, because a single late start cannot be excluded by any implementation.", "4 (C20)", "pbt"),
}

import os as _os
# a property is only claimed once its check exists on disk
def _exists(pid):
    root = _os.path.dirname(_os.path.dirname(_os.path.abspath(__file__)))
    if pid == "C01":
        return _os.path.exists(_os.path.join(root, "harness/conc/stress/stress_test.go"))
    if pid == "C02":
        return _os.path.exists(_os.path.join(root, "harness/conc/lin/lin_test.go"))
    return _os.path.exists(_os.path.join(root, "harness/props/c%s/c%s_test.go" % (pid[1:], pid[1:])))

NOT_YET = {}
HOLD = set(l.strip() for l in open(_os.path.join(_os.path.dirname(_os.path.abspath(__file__)), "hold.txt")) if l.strip()) if _os.path.exists(_os.path.join(_os.path.dirname(_os.path.abspath(__file__)), "hold.txt")) else set()

def main():
    props = [json.loads(l) for l in open(os.path.join(ROOT, "properties.jsonl"))]
    checks = []
    na = []
    for p in props:
        pid = p["id"]
        if pid in CLAIMED and pid not in HOLD and _exists(pid):
            tech, text, note, ref, eng = CLAIMED[pid]
            checks.append(dict(property_id=pid,
                               quick_cmd="./check %s quick" % pid,
                               thorough_cmd="./check %s thorough" % pid,
                               evidence_file="evidence/%s.json" % pid,
                               replay_cmd_template="./check %s --replay {path}" % pid,
                               engine=eng,
                               level_claimed=dict(category="exploration", text=text, design_ref="DESIGN.md section " + ref),
                               level_note=note, technique=tech))
        else:
            na.append(dict(property_id=pid, reason=NOT_YET.get(pid, "check not built yet in this session (planned, see DESIGN.md section 4); nothing is claimed for it until its check exists")))
    hooks_commits = []
    hp = os.path.join(ROOT, "hooks_commits.txt")
    if os.path.exists(hp):
        hooks_commits = [l.split()[0] for l in open(hp) if l.strip() and not l.startswith("#")]
    man = dict(version=1,
               setup_cmd="./check setup",
               hooks=dict(guard="verif", enable="go test -tags verif (every harness build passes -tags verif)",
                          baseline_off_cmd="cd /repo && GOFLAGS=-mod=mod go test -vet=off -count=1 ./...",
                          source_commits=hooks_commits, add_only=True),
               engines=[dict(name="c01", path="harness/conc/stress + engines/c01.py", serves_properties=["C01"], kind_free_text="race-detector stress driver: scenario generation through the pbt core, binary built with -race, race reports read from the detector's log after every scenario and attributed by access site"),
                        dict(name="c02", path="harness/conc/vsync + harness/conc/rewrite + harness/conc/lin + engines/c02.py", serves_properties=["C02"], kind_free_text="controlled cooperative scheduler behind a drop-in sync shim, applied source-to-source to a scratch copy of the working tree on every run; stateless DFS over schedules; differential linearizability oracle"),
                        dict(name="pbt", path="harness/pbt", serves_properties=sorted(p for p in CLAIMED if p not in ("C01", "C02")),
                             kind_free_text="property-based testing core: one generator interface driven by a bounded-exhaustive odometer, pgregory.net/rapid (random + shrinking) and a replay corpus; explicit reference-model / metamorphic / differential oracles per property; python driver ./check shards runs over 16 processes and merges evidence")],
               checks=checks,
               notes="All checks: ./check <ID> quick|thorough, VERIF_SEED honoured, exit 0/1/2 (2 = inconclusive). Known findings: KNOWN_FINDINGS.txt. See DESIGN.md.",
               not_applicable=na)
    with open(os.path.join(ROOT, "MANIFEST.json"), "w") as f:
        json.dump(man, f, indent=1)
        f.write("\n")

if __name__ == "__main__":
    main()
