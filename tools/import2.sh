#!/bin/bash
# usage: tools/import2.sh <ID> [checks]   imports round-2 outputs /tmp/seed2-<ID>/out/{C,D} and removes the agent's worktree
id=$1; checks=${2:-$id}
for x in ${NAMES:-C D}; do
  [ -d /tmp/seed${ROUND:-2}-$id/out/$x ] || { echo "no $x"; continue; }
  echo "=== $id-$x"; python3 /verif/tools/seed_import.py $id $x --src /tmp/seed${ROUND:-2}-$id/out/$x --checks $checks 2>&1 | tail -${TAILN:-3} | cut -c1-420
done
git -C /repo worktree remove --force /tmp/seed${ROUND:-2}-$id/wt 2>/dev/null
