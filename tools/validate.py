#!/usr/bin/env python3-vt
import json, jsonschema, glob, sys
jsonschema.validate(json.load(open('/verif/MANIFEST.json')), json.load(open('/root/.vp/MANIFEST.schema.json')))
sch = json.load(open('/root/.vp/EVIDENCE.schema.json'))
bad = 0
for f in sorted(glob.glob('/verif/evidence/*.json')):
    try:
        jsonschema.validate(json.load(open(f)), sch)
    except Exception as e:
        bad += 1
        print('INVALID', f, str(e)[:300])
print('manifest ok; evidence files: %d, invalid: %d' % (len(glob.glob('/verif/evidence/*.json')), bad))
sys.exit(1 if bad else 0)
