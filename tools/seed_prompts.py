#!/usr/bin/env python3
"""usage: tools/seed_prompts.py <round> <nameA> <nameB> <prev-round>
Writes /tmp/seedprompts/<ID>-r<round>.txt for every property from the previous round's prompt: new worktree path,
new change names, and the previous round's changes appended to the list of ideas already taken (one line each, from the
stored meta.json - the sub-agents get the property text and this list, nothing else from /verif)."""
import json, os, re, sys, glob
rnd, a, b, prev = sys.argv[1:5]
pa, pb = sys.argv[5:7] if len(sys.argv) > 6 else ("K", "L")
ROUND_TEXT = sys.stdin.read().strip()
for pid in ["C%02d" % i for i in range(1, 21)]:
    src = open(f"/tmp/seedprompts/{pid}-r{prev}.txt").read()
    src = src.replace(f"/tmp/seed{prev}-{pid}", f"/tmp/seed{rnd}-{pid}")
    src = src.replace(f"({pa} and {pb})", f"({a} and {b})").replace(f"for each change X in {pa} and {pb}", f"for each change X in {a} and {b}")
    taken = []
    for x in (pa, pb):
        m = json.load(open(f"/verif/seeded/{pid}-{x}/meta.json"))
        t = re.sub(r"\s+", " ", m.get("needs_to_manifest") or "")
        t = re.sub(r"^Change %s\s*[-:(]*\s*" % x, "", t)
        t = re.split(r"\s+(Clause broken|What it looks like|What the change does|Why it looks fine)", t)[0]
        taken.append(t[:260].rstrip(" .;:") )
    src = re.sub(r"(IDEAS ALREADY TAKEN[^\n]*)\n", lambda mo: mo.group(1).rstrip(".") + "; " + "; ".join(taken) + ".\n", src, count=1)
    src = re.sub(r"For this round, change.*?trigger conditions\.", ROUND_TEXT, src, flags=re.S)
    assert f"seed{rnd}" in src and ROUND_TEXT in src, pid
    open(f"/tmp/seedprompts/{pid}-r{rnd}.txt", "w").write(src)
print("ok")
