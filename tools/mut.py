#!/usr/bin/env python3
"""usage: tools/mut.py <ID> <file> <old> <new> [tier]
Runs the check of <ID> against a scratch worktree of /repo HEAD in which the first occurrence of <old> in <file> is replaced by <new>.
Use \\n for newlines and \\t for tabs in <old>/<new>. Prints the first lines of the check output and CAUGHT/MISSED."""
import os, subprocess, sys, tempfile, shutil, hashlib
pid, path, old, new = sys.argv[1:5]
tier = sys.argv[5] if len(sys.argv) > 5 else "quick"
old = old.replace("\\n", "\n").replace("\\t", "\t"); new = new.replace("\\n", "\n").replace("\\t", "\t")
d = tempfile.mkdtemp(prefix="mut-", dir="/tmp")
os.rmdir(d)
subprocess.run(["git", "-C", "/repo", "worktree", "add", "--detach", d, "HEAD"], check=True, capture_output=True)
try:
    f = os.path.join(d, path)
    s = open(f).read()
    if old not in s:
        print("PATTERN-NOT-FOUND"); sys.exit(3)
    open(f, "w").write(s.replace(old, new, 1))
    env = dict(os.environ, VERIF_REPO=d)
    p = subprocess.run(["./check", pid, tier], cwd="/verif", env=env, capture_output=True, text=True)
    out = [l for l in p.stdout.splitlines() if not l.startswith("SUMMARY")]
    print("\n".join(out[:5]))
    print({0: "MISSED", 1: "CAUGHT"}.get(p.returncode, "INCONCLUSIVE(%d)" % p.returncode))
finally:
    subprocess.run(["git", "-C", "/repo", "worktree", "remove", "--force", d], capture_output=True)
    tag = hashlib.sha1(os.path.abspath(d).encode()).hexdigest()[:10]
    for fn in os.listdir("/verif/.build"):
        if tag in fn:
            os.remove(os.path.join("/verif/.build", fn))
