#!/bin/bash
# usage: tools/seed_check.sh <seed-id e.g. C18-A> [<check ID>] [tier]
# Runs a check against a scratch worktree of /repo HEAD carrying seeded/<seed-id>/patch.diff; prints CAUGHT / MISSED / INCONCLUSIVE.
sid=$1; id=${2:-${sid%%-*}}; tier=${3:-quick}
d=$(mktemp -d /tmp/sc-XXXXXX); rmdir "$d"
git -C /repo worktree add --detach "$d" HEAD >/dev/null 2>&1 || exit 2
if ! git -C "$d" apply /verif/seeded/$sid/patch.diff; then echo "PATCH-DOES-NOT-APPLY $sid"; git -C /repo worktree remove --force "$d"; exit 3; fi
out=$(cd /verif && VERIF_REPO="$d" ./check "$id" "$tier" 2>&1); rc=$?
echo "$out" | grep -v '^SUMMARY\|^KNOWN-FINDING' | head -${LINES_SHOWN:-3} | cut -c1-${WIDTH:-400}
git -C /repo worktree remove --force "$d"
tag=$(echo -n "$d" | sha1sum | cut -c1-10); rm -f /verif/.build/*.$tag.* /verif/.build/alt-$tag.*
case $rc in 0) echo "MISSED $sid by $id $tier";; 1) echo "CAUGHT $sid by $id $tier";; *) echo "INCONCLUSIVE($rc) $sid by $id $tier";; esac
