#!/usr/bin/env python3
"""usage: tools/seed_matrix.py [seed-id ...]
Re-runs the current checks against every stored seeded change (scratch worktree of /repo HEAD + seeded/<id>/patch.diff,
checks run with VERIF_REPO=<worktree>) and records the outcome in seeded/<id>/meta.json ("latest") and seeded/MATRIX.md.
Order per seed: own property's quick check; if it misses, the quick checks of related properties (C02/C01 for changes to the
lock-guarded containers, C16 for changes to the root helpers); if all miss, the own thorough check."""
import json, os, subprocess, sys, glob, tempfile, hashlib, time

ROOT = "/verif"

def run_check(d, pid, tier):
    t = time.time()
    p = subprocess.run(["./check", pid, tier], cwd=ROOT, env=dict(os.environ, VERIF_REPO=d), stdout=subprocess.PIPE, stderr=subprocess.STDOUT, text=True)
    lines = [l for l in p.stdout.splitlines() if l.startswith("VIOLATION") or l.startswith("  check=")]
    return dict(exit=p.returncode, wall_s=round(time.time() - t, 1), first=" | ".join(lines[:2])[:500])

def anchors():
    """file -> properties anchored in it (from properties.jsonl)"""
    m = {}
    for line in open(ROOT + "/properties.jsonl"):
        p = json.loads(line)
        for f in (p.get("anchors") or {}).get("files") or []:
            m.setdefault(f, []).append(p["id"])
    return m

def related(pid, patch):
    files = [l[6:].strip() for l in patch.splitlines() if l.startswith("+++ b/")]
    rel = []
    anc = anchors()
    for f in files:
        for q in anc.get(f, []):
            if q not in rel and q not in ("C01", "C02", "C16"):
                rel.append(q)
    if any(f.split("/")[0] in ("heap", "bstree", "trie", "queue", "stack", "cache", "list") for f in files):
        rel += ["C02", "C01"]
    if any("/" not in f for f in files):
        rel += ["C16"]
    return [r for r in rel if r != pid]

def main():
    ids = sys.argv[1:] or sorted(os.path.basename(p) for p in glob.glob(ROOT + "/seeded/C*-*"))
    rows = []
    for sid in ids:
        sdir = os.path.join(ROOT, "seeded", sid)
        meta = json.load(open(os.path.join(sdir, "meta.json")))
        pid = meta["breaks_property"]
        patch = open(os.path.join(sdir, "patch.diff")).read()
        d = tempfile.mkdtemp(prefix="sm-", dir="/tmp"); os.rmdir(d)
        subprocess.run(["git", "-C", "/repo", "worktree", "add", "--detach", d, "HEAD"], capture_output=True)
        try:
            a = subprocess.run(["git", "-C", d, "apply", os.path.join(sdir, "patch.diff")], capture_output=True, text=True)
            if a.returncode != 0:
                # the code this change touches was repaired by a later fix: keep the last result, say so
                meta["latest"] = dict(meta.get("latest") or {}, stale="patch no longer applies to /repo HEAD (the lines it changes were rewritten by a later fix: commit); last result kept")
                json.dump(meta, open(os.path.join(sdir, "meta.json"), "w"), indent=1)
                print(sid, "PATCH DOES NOT APPLY (kept last result)", flush=True); continue
            res = {}
            caught_by = None
            plan = [(pid, "quick")] + [(r, "quick") for r in related(pid, patch)] + [(pid, "thorough")]
            for c, tier in plan:
                r = run_check(d, c, tier)
                res["%s %s" % (c, tier)] = r
                if r["exit"] == 1:
                    caught_by = "%s %s" % (c, tier)
                    break
            meta["latest"] = dict(at=time.strftime("%Y-%m-%d %H:%M"), checks=res, caught_by=caught_by)
            meta["caught"] = caught_by is not None
            json.dump(meta, open(os.path.join(sdir, "meta.json"), "w"), indent=1)
            print(sid, "caught by", caught_by, flush=True)
        finally:
            subprocess.run(["git", "-C", "/repo", "worktree", "remove", "--force", d], capture_output=True)
            tag = hashlib.sha1(os.path.abspath(d).encode()).hexdigest()[:10]
            for fn in os.listdir(ROOT + "/.build"):
                if tag in fn:
                    try: os.remove(os.path.join(ROOT, ".build", fn))
                    except OSError: pass
    write_matrix()

def write_matrix():
    out = ["# Seeded breaking changes and the checks that catch them", "",
           "Written by tools/seed_matrix.py from seeded/<id>/meta.json (field `latest`; `checks_run` is the result at import time).", "",
           "| change | breaks | what it is / what it needs | caught by (current checks) | at import |", "|---|---|---|---|---|"]
    for p in sorted(glob.glob(ROOT + "/seeded/C*-*")):
        m = json.load(open(p + "/meta.json"))
        what = " ".join(m["needs_to_manifest"].split())[:230].replace("|", "/")
        lat = m.get("latest") or {}
        first = ""
        if lat.get("caught_by"):
            first = lat["checks"][lat["caught_by"]]["first"]
            sub = first.split("check=")[1].split(" ")[0] if "check=" in first else ""
            cb = "%s (sub-check %s, %.0f s)" % (lat["caught_by"], sub, lat["checks"][lat["caught_by"]]["wall_s"])
        elif lat and lat.get("checks"):
            cb = "**missed** (" + ", ".join(lat["checks"].keys()) + ")"
        else:
            cb = "(not re-run)"
        if lat.get("stale"):
            cb += " [" + lat["stale"] + "]"
        if m.get("outside_property"):
            cb += " [not counted: " + m["outside_property"] + "]"
        imp = "caught" if any(v["exit"] == 1 for v in m["checks_run"].values()) else "missed"
        out.append("| %s | %s | %s | %s | %s |" % (m["id"], m["breaks_property"], what, cb, imp))
    open(ROOT + "/seeded/MATRIX.md", "w").write("\n".join(out) + "\n")

if __name__ == "__main__":
    if sys.argv[1:] == ["--table"]:
        write_matrix()
    else:
        main()
