#!/bin/bash
# Runs the repository's pinned suite with the verif guard OFF and compares with BASELINE.json's stable_pass list.
cd /repo || exit 2
export GOFLAGS=-mod=mod GOPROXY=off GOSUMDB=off
out=$(mktemp)
go test -json -vet=off -count=1 -timeout 25m ./... > "$out" 2>&1
python3 - "$out" <<'PY'
import json,sys
base=json.load(open('/root/.vp/BASELINE.json'))
want=set(base['stable_pass'])
res={}
for line in open(sys.argv[1]):
    try: e=json.loads(line)
    except Exception: continue
    if e.get('Test') and e.get('Action') in ('pass','fail','skip'):
        res[e['Package']+'::'+e['Test']]=e['Action']
bad=[t for t in sorted(want) if res.get(t)!='pass']
print('baseline: %d/%d stable tests pass'%(len(want)-len(bad),len(want)))
for t in bad: print('  NOT PASSING:',t,res.get(t))
sys.exit(1 if bad else 0)
PY
rc=$?
rm -f "$out"
git -C /repo status --short | grep -v '^??' | head
exit $rc
