#!/bin/bash
# usage: tools/revert_test.sh <ID> <sha> [tier]   -- runs the check of <ID> against a scratch worktree of /repo HEAD with <sha> reverted
id=$1; sha=$2; tier=${3:-quick}
d=$(mktemp -d /tmp/rv-XXXXXX)
git -C /repo worktree add --detach "$d" HEAD >/dev/null 2>&1 || exit 2
if ! git -C "$d" revert --no-commit "$sha" >/dev/null 2>&1; then
  echo "REVERT-CONFLICT $sha"; git -C /repo worktree remove --force "$d"; exit 3
fi
(cd /verif && VERIF_REPO="$d" ./check "$id" "$tier" | grep -v '^SUMMARY' | head -6)
rc=${PIPESTATUS[0]}
git -C /repo worktree remove --force "$d"
rm -f /verif/.build/*.$(echo -n "$d" | sha1sum | cut -c1-10).* /verif/.build/alt-$(echo -n "$d" | sha1sum | cut -c1-10).*
exit 0
