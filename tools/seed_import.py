#!/usr/bin/env python3
"""usage: tools/seed_import.py <ID> <A|B> [--src /tmp/seed-<ID>/out/<A|B>] [--tier quick|thorough] [--checks C03,C16]
Validates a seeded breaking change written by an independent sub-agent and runs the checks against it:
  1. fresh scratch worktree of /repo HEAD
  2. the demonstration passes WITHOUT the change
  3. the change applies, the library builds, the pinned suite (174 stable tests) still passes, the demonstration FAILS
  4. ./check <ID> quick (thorough if quick misses) with VERIF_REPO=<worktree>
  5. on success of 1-3 the change is stored as /verif/seeded/<ID>-<A|B>/ {patch.diff, demo, meta.json}
The worktree is removed at the end."""
import json, os, shutil, subprocess, sys, tempfile, hashlib, time

def sh(cmd, cwd=None, env=None, timeout=3600):
    p = subprocess.run(cmd, cwd=cwd, env=env, shell=isinstance(cmd, str), stdout=subprocess.PIPE, stderr=subprocess.STDOUT, text=True, timeout=timeout)
    return p.returncode, p.stdout

def goenv():
    e = dict(os.environ); e.update(GOFLAGS="-mod=mod", GOPROXY="off", GOSUMDB="off"); return e

def suite(d):
    rc, out = sh("go test -json -vet=off -count=1 -timeout 25m ./...", cwd=d, env=goenv())
    base = json.load(open('/root/.vp/BASELINE.json')); want = set(base['stable_pass']); res = {}
    for line in out.splitlines():
        try: e = json.loads(line)
        except Exception: continue
        if e.get('Test') and e.get('Action') in ('pass', 'fail', 'skip'):
            res[e['Package'] + '::' + e['Test']] = e['Action']
    bad = [t for t in sorted(want) if res.get(t) != 'pass' and not t.endswith('::TestDemo')]
    return bad

def main():
    pid, which = sys.argv[1], sys.argv[2]
    args = sys.argv[3:]
    src = "/tmp/seed-%s/out/%s" % (pid, which)
    tier_first = "quick"; checks = [pid]
    i = 0
    while i < len(args):
        if args[i] == "--src": src = args[i+1]; i += 2
        elif args[i] == "--tier": tier_first = args[i+1]; i += 2
        elif args[i] == "--checks": checks = args[i+1].split(","); i += 2
        else: i += 1
    name = "%s-%s" % (pid, which)
    patch = os.path.join(src, "patch.diff")
    demo_dir = open(os.path.join(src, "DEMO_DIR.txt")).read().strip().strip('"').strip("/") or "."
    demos = [f for f in os.listdir(src) if f.endswith("_test.go")]
    d = tempfile.mkdtemp(prefix="sv-", dir="/tmp"); os.rmdir(d)
    sh(["git", "-C", "/repo", "worktree", "add", "--detach", d, "HEAD"])
    report = dict(id=name, property=pid, source=src, steps={})
    ok = True
    try:
        for f in demos:
            shutil.copy(os.path.join(src, f), os.path.join(d, demo_dir, f))
        pkg = "./" + demo_dir if demo_dir != "." else "."
        race = "-race" if "race" in open(os.path.join(src, "meta.txt")).read().lower() and "-race" in open(os.path.join(src, "meta.txt")).read() else ""
        demo_cmd = "go test -vet=off -count=1 %s -run 'Demo|demo' %s" % (race, pkg)
        rc, out = sh(demo_cmd, cwd=d, env=goenv())
        report["steps"]["demo_without_change"] = "pass" if rc == 0 else "FAIL"
        if rc != 0:
            print("demo does not pass on the unchanged tree:\n" + out[-1500:]); ok = False
        rc, out = sh(["git", "apply", patch], cwd=d)
        if rc != 0:
            print("patch does not apply:\n" + out); ok = False; report["steps"]["apply"] = "FAIL"
        else:
            rc, out = sh("go build ./...", cwd=d, env=goenv())
            report["steps"]["build"] = "ok" if rc == 0 else "FAIL"
            if rc != 0:
                print("does not build:\n" + out[-1500:]); ok = False
            # demo must fail (try a few times for schedule-dependent ones)
            failed = False
            for attempt in range(3):
                rc, out = sh(demo_cmd, cwd=d, env=goenv())
                if rc != 0:
                    failed = True; break
            report["steps"]["demo_with_change"] = "fails (as required)" if failed else "PASSES"
            if not failed:
                print("demo does not fail with the change"); ok = False
            # the suite must still pass with the change (demo files removed for this)
            for f in demos:
                os.remove(os.path.join(d, demo_dir, f))
            bad = suite(d)
            for _ in range(2):  # wall-clock tests of the pinned suite are flaky when the machine is loaded: a test counts as failing only if it fails three times
                if not bad:
                    break
                again = suite(d)
                bad = [t for t in bad if t in again]
            report["steps"]["pinned_suite_with_change"] = "174 pass" if not bad else "NOT PASSING: " + ", ".join(bad)
            if bad:
                print("pinned suite fails with the change:", bad); ok = False
        results = {}
        if ok:
            # the hook file is part of HEAD; run the checks
            # quick tier of every listed check first; the thorough tier only of the property's own check, and only if all quick tiers miss
            plan = [(c, "quick") for c in checks] + [(checks[0], "thorough")]
            if tier_first == "thorough":
                plan = [(c, "thorough") for c in checks]
            elif os.environ.get("SEED_NO_THOROUGH"):
                plan = [(c, "quick") for c in checks]
            for c, tier in plan:
                t1 = time.time()
                env = dict(os.environ, VERIF_REPO=d)
                p = subprocess.run(["./check", c, tier], cwd="/verif", env=env, stdout=subprocess.PIPE, stderr=subprocess.STDOUT, text=True)
                lines = [l for l in p.stdout.splitlines() if l.startswith("VIOLATION") or l.startswith("  check=")]
                results["%s %s" % (c, tier)] = dict(exit=p.returncode, wall_s=round(time.time()-t1, 1), first=" | ".join(lines[:2])[:600])
                print(c, tier, "exit", p.returncode, (lines[:2] or [""])[0][:200], (lines[1:2] or [""])[0][:400])
                if p.returncode == 1:
                    break
            report["checks"] = results
            dst = os.path.join("/verif/seeded", name)
            os.makedirs(dst, exist_ok=True)
            shutil.copy(patch, os.path.join(dst, "patch.diff"))
            for f in demos:
                shutil.copy(os.path.join(src, f), os.path.join(dst, f.replace("_test.go", "_test.go.txt")))
            meta = dict(id=name, breaks_property=pid, written_by="independent sub-agent (given only the property text and a scratch worktree)",
                        needs_to_manifest=open(os.path.join(src, "meta.txt")).read().strip(),
                        demo_dir=demo_dir, demo_command=demo_cmd, validated=report["steps"], checks_run=results,
                        caught=any(v["exit"] == 1 for v in results.values()))
            json.dump(meta, open(os.path.join(dst, "meta.json"), "w"), indent=1)
            print("STORED", dst, "caught=%s" % meta["caught"])
        else:
            print("REJECTED", name, json.dumps(report["steps"]))
    finally:
        sh(["git", "-C", "/repo", "worktree", "remove", "--force", d])
        tag = hashlib.sha1(os.path.abspath(d).encode()).hexdigest()[:10]
        for fn in os.listdir("/verif/.build"):
            if tag in fn:
                try: os.remove(os.path.join("/verif/.build", fn))
                except OSError: pass

if __name__ == "__main__":
    main()
